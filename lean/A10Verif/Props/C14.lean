/-
C14 — Buffer trait implementations obey the pointer/length/initialisation laws.

Statement (properties.jsonl): for every provided `Buf`, `BufMut`, `BufSlice`
and `BufMutSlice` implementation and wrapper (vectors, boxes, strings, shared
and static slices, arrays and tuples of buffers, limited, skipping and counting
wrappers), the pointer/length pairs they expose always lie inside the buffer's
own memory, the reported lengths and spare capacities agree with those pairs,
marking `n` bytes initialised appends exactly `n` bytes in order across the
buffers, and a limit is never exceeded. Quantifier: all contents, capacities,
fill levels, arities, `n`, and all limits in the full `usize` range.

Model: `A10Verif/Model/Bufs.lean` (tied to `src/io/traits.rs`, `src/io/mod.rs`,
`src/unix.rs`, `src/io/read_buf.rs` by the `bufs` correspondence component).
Sizes, limits and arities are unbounded `Nat`s / lists: nothing below assumes a
bound except where a hypothesis says so (`Small`: the allocation is shorter
than 2^32 bytes, the io_uring ABI bound on one buffer).
-/
import A10Verif.Model.Bufs

namespace A10.Bufs

/-! ### Well-formedness -/

/-- The initialised prefix fits the allocation (`len() <= capacity()`). -/
def Base.WF (b : Base) : Prop := b.len ≤ b.mem.length

/-- The allocation is shorter than 2^32 bytes. -/
def Base.Small (b : Base) : Prop := b.mem.length < 4294967296

/-- A predicate on the allocation behind a buffer, if it has one. -/
def optAll (P : Base → Prop) : Option Base → Prop
  | none => True
  | some b => P b

instance (P : Base → Prop) [DecidablePred P] : DecidablePred (optAll P)
  | none => isTrue trivial
  | some b => inferInstanceAs (Decidable (P b))

instance : DecidablePred Base.WF := fun b => inferInstanceAs (Decidable (b.len ≤ b.mem.length))
instance : DecidablePred Base.Small :=
  fun b => inferInstanceAs (Decidable (b.mem.length < 4294967296))

def RBuf.WF (b : RBuf) : Prop := optAll Base.WF b.leaf
def RBuf.Small (b : RBuf) : Prop := optAll Base.Small b.leaf
def MBuf.WF (b : MBuf) : Prop := optAll Base.WF b.leaf
def MBuf.Small (b : MBuf) : Prop := optAll Base.Small b.leaf

instance : DecidablePred RBuf.WF := fun b => inferInstanceAs (Decidable (optAll Base.WF b.leaf))
instance : DecidablePred RBuf.Small :=
  fun b => inferInstanceAs (Decidable (optAll Base.Small b.leaf))
instance : DecidablePred MBuf.WF := fun b => inferInstanceAs (Decidable (optAll Base.WF b.leaf))
instance : DecidablePred MBuf.Small :=
  fun b => inferInstanceAs (Decidable (optAll Base.Small b.leaf))

/-- A readable pair lies inside the *initialised* bytes of the buffer's own
allocation (hence, for a well-formed buffer, inside the allocation). A buffer
without memory exposes the null / dangling pointer with length 0. -/
def InsideRead (r : Region) : Option Base → Prop
  | some l => r.blk = some l.blk ∧ r.off + r.len ≤ l.len
  | none => r.blk = none ∧ r.len = 0

/-- A writable pair lies inside the *spare capacity* of the buffer's own
allocation: after the initialised bytes, before the end. -/
def InsideSpare (r : Region) : Option Base → Prop
  | some l => r.blk = some l.blk ∧ l.len ≤ r.off ∧ r.off + r.len ≤ l.mem.length
  | none => r.blk = none ∧ r.len = 0

/-- Pairwise relation between two lists of the same length. -/
def All2 {α β : Type} (P : α → β → Prop) : List α → List β → Prop
  | [], [] => True
  | a :: as, b :: bs => P a b ∧ All2 P as bs
  | _, _ => False

/-! ### Helper lemmas -/

theorem asU32_le (x : Nat) : asU32 x ≤ x := by unfold asU32; exact Nat.mod_le _ _

theorem asU32_lt (x : Nat) : asU32 x < 4294967296 := by unfold asU32; omega

theorem asU32_of_lt {x : Nat} (h : x < 4294967296) : asU32 x = x := by unfold asU32; omega

theorem RBuf.parts_len_lt (b : RBuf) : b.parts.len < 4294967296 := by
  induction b with
  | base b => simp [RBuf.parts, Base.parts, asU32_lt]
  | pool o => cases o <;> simp [RBuf.parts, Base.parts, asU32_lt]
  | limited i l ih => simp [RBuf.parts, asU32_lt]
  | skip i n ih =>
    simp only [RBuf.parts]
    split <;> simp <;> omega

theorem MBuf.partsMut_len_lt (b : MBuf) : b.partsMut.len < 4294967296 := by
  induction b with
  | vec b => simp [MBuf.partsMut, Base.partsMut, asU32_lt]
  | pool o => cases o <;> simp [MBuf.partsMut, Base.partsMut, asU32_lt]
  | limited i l ih => simp [MBuf.partsMut, asU32_lt]
  | readN i k ih => simpa [MBuf.partsMut] using ih

theorem MBuf.spare_lt (b : MBuf) : b.spare < 4294967296 := by
  induction b with
  | vec b => simp [MBuf.spare, Base.spare, asU32_lt]
  | pool o => cases o <;> simp [MBuf.spare, Base.spare, asU32_lt]
  | limited i l ih => simp [MBuf.spare, asU32_lt]
  | readN i k ih => simpa [MBuf.spare] using ih

/-! ### C14_inside: exposed pairs lie inside the buffer's own memory -/

/-- `Buf::parts` of every implementation and wrapper (base types, `ReadBuf`,
`LimitedBuf`, `SkipBuf`, arbitrarily nested) designates initialised bytes of
the buffer's own allocation. No size hypothesis: `as u32` only shrinks. -/
theorem C14_inside_buf (b : RBuf) : InsideRead b.parts b.leaf := by
  induction b with
  | base b =>
    have := asU32_le b.len
    exact ⟨rfl, by show 0 + asU32 b.len ≤ b.len; omega⟩
  | pool o =>
    cases o with
    | none => exact ⟨rfl, rfl⟩
    | some b =>
      have := asU32_le b.len
      exact ⟨rfl, by show 0 + asU32 b.len ≤ b.len; omega⟩
  | limited i l ih =>
    have h1 := asU32_le (min i.parts.len l)
    have h2 : min i.parts.len l ≤ i.parts.len := Nat.min_le_left _ _
    show InsideRead { i.parts with len := asU32 (min i.parts.len l) } i.leaf
    cases hl : i.leaf with
    | none =>
      rw [hl] at ih; obtain ⟨hb, hz⟩ := ih
      exact ⟨hb, by show asU32 (min i.parts.len l) = 0; omega⟩
    | some b =>
      rw [hl] at ih; obtain ⟨hb, hz⟩ := ih
      exact ⟨hb, by show i.parts.off + asU32 (min i.parts.len l) ≤ b.len; omega⟩
  | skip i n ih =>
    show InsideRead (if n ≥ i.parts.len then { i.parts with len := 0 }
      else { i.parts with off := i.parts.off + n, len := i.parts.len - n }) i.leaf
    cases hl : i.leaf with
    | none =>
      rw [hl] at ih; obtain ⟨hb, hz⟩ := ih
      split
      · exact ⟨hb, rfl⟩
      · exact ⟨hb, by show i.parts.len - n = 0; omega⟩
    | some b =>
      rw [hl] at ih; obtain ⟨hb, hz⟩ := ih
      split
      · exact ⟨hb, by show i.parts.off + 0 ≤ b.len; omega⟩
      · exact ⟨hb, by show i.parts.off + n + (i.parts.len - n) ≤ b.len; omega⟩

/-- For a well-formed buffer the readable pair therefore lies inside the
allocation. -/
theorem C14_inside_buf_alloc (b : RBuf) (hwf : b.WF) (l : Base) (hl : b.leaf = some l) :
    b.parts.blk = some l.blk ∧ b.parts.off + b.parts.len ≤ l.mem.length := by
  have h := C14_inside_buf b
  rw [hl] at h
  have hw : l.len ≤ l.mem.length := by
    have : optAll Base.WF b.leaf := hwf
    rw [hl] at this; exact this
  obtain ⟨h1, h2⟩ := h
  exact ⟨h1, by omega⟩

theorem MBuf.WF_limited {i : MBuf} {l : Nat} (h : (MBuf.limited i l).WF) : i.WF := h
theorem MBuf.WF_readN {i : MBuf} {k : Nat} (h : (MBuf.readN i k).WF) : i.WF := h
theorem MBuf.WF_vec {b : Base} (h : (MBuf.vec b).WF) : b.len ≤ b.mem.length := h
theorem MBuf.WF_pool {b : Base} (h : (MBuf.pool (some b)).WF) : b.len ≤ b.mem.length := h

/-- `BufMut::parts_mut` of every implementation and wrapper (`Vec<u8>`,
`ReadBuf`, `LimitedBuf`, `ReadNBuf`, arbitrarily nested) designates spare
capacity of the buffer's own allocation: never the bytes already held, never
beyond the end. -/
theorem C14_inside_bufmut (b : MBuf) (hwf : b.WF) : InsideSpare b.partsMut b.leaf := by
  induction b with
  | vec b =>
    have hw := MBuf.WF_vec hwf
    have := asU32_le (b.mem.length - b.len)
    exact ⟨rfl, Nat.le_refl _, by show b.len + asU32 (b.mem.length - b.len) ≤ b.mem.length; omega⟩
  | pool o =>
    cases o with
    | none => exact ⟨rfl, rfl⟩
    | some b =>
      have hw := MBuf.WF_pool hwf
      have := asU32_le (b.mem.length - b.len)
      exact ⟨rfl, Nat.le_refl _,
        by show b.len + asU32 (b.mem.length - b.len) ≤ b.mem.length; omega⟩
  | limited i l ih =>
    have ih := ih (MBuf.WF_limited hwf)
    have h1 := asU32_le (min i.partsMut.len l)
    have h2 : min i.partsMut.len l ≤ i.partsMut.len := Nat.min_le_left _ _
    show InsideSpare { i.partsMut with len := asU32 (min i.partsMut.len l) } i.leaf
    cases hl : i.leaf with
    | none =>
      rw [hl] at ih; obtain ⟨hb, hz⟩ := ih
      exact ⟨hb, by show asU32 (min i.partsMut.len l) = 0; omega⟩
    | some b =>
      rw [hl] at ih; obtain ⟨hb, hlo, hhi⟩ := ih
      exact ⟨hb, hlo,
        by show i.partsMut.off + asU32 (min i.partsMut.len l) ≤ b.mem.length; omega⟩
  | readN i k ih => exact ih (MBuf.WF_readN hwf)

/-! #### Slices -/

theorem InsideRead_shrink (r : Region) (o : Option Base) (k : Nat) (h : InsideRead r o)
    (hk : k ≤ r.len) : InsideRead { r with len := k } o := by
  cases o with
  | none => obtain ⟨hb, hz⟩ := h; exact ⟨hb, by show k = 0; omega⟩
  | some b => obtain ⟨hb, hz⟩ := h; exact ⟨hb, by show r.off + k ≤ b.len; omega⟩

theorem InsideSpare_shrink (r : Region) (o : Option Base) (k : Nat) (h : InsideSpare r o)
    (hk : k ≤ r.len) : InsideSpare { r with len := k } o := by
  cases o with
  | none => obtain ⟨hb, hz⟩ := h; exact ⟨hb, by show k = 0; omega⟩
  | some b =>
    obtain ⟨hb, hlo, hhi⟩ := h
    exact ⟨hb, hlo, by show r.off + k ≤ b.mem.length; omega⟩

/-- The `LimitedBuf` loop only shortens iovecs. -/
theorem All2_clamp {β : Type} (P : Region → β → Prop)
    (hP : ∀ r b k, P r b → k ≤ r.len → P { r with len := k } b) :
    ∀ (rs : List Region) (bs : List β) (left : Nat), All2 P rs bs → All2 P (clamp rs left) bs := by
  intro rs
  induction rs with
  | nil =>
    intro bs left h
    cases bs with
    | nil => simp [clamp, All2]
    | cons _ _ => simp [All2] at h
  | cons r rs ih =>
    intro bs left h
    cases bs with
    | nil => simp [All2] at h
    | cons b bs =>
      obtain ⟨h1, h2⟩ := h
      unfold clamp
      split
      · exact ⟨h1, ih bs _ h2⟩
      · exact ⟨hP r b left h1 (by omega), ih bs _ h2⟩

theorem All2_map_left {α β : Type} (P : Region → β → Prop) (f : α → Region) (g : α → β)
    (h : ∀ a, P (f a) (g a)) : ∀ l : List α, All2 P (l.map f) (l.map g) := by
  intro l
  induction l with
  | nil => simp [All2]
  | cons a l ih => exact ⟨h a, ih⟩

/-- `BufSlice::as_iovecs` of arrays, tuples and `LimitedBuf`s of them: one
iovec per buffer, the i-th inside the initialised bytes of the i-th buffer's
own allocation. All arities. -/
theorem C14_inside_slice (s : RSlice) :
    All2 InsideRead s.iovecs (s.elems.map (·.leaf)) := by
  induction s with
  | arr bs => exact All2_map_left InsideRead (·.parts) (·.leaf) C14_inside_buf bs
  | limited i l ih => exact All2_clamp InsideRead InsideRead_shrink _ _ l ih

def MSlice.WF (s : MSlice) : Prop := ∀ b ∈ s.elems, b.WF
def MSlice.Small (s : MSlice) : Prop := ∀ b ∈ s.elems, b.Small
def RSlice.WF (s : RSlice) : Prop := ∀ b ∈ s.elems, b.WF
def RSlice.Small (s : RSlice) : Prop := ∀ b ∈ s.elems, b.Small

instance : DecidablePred MSlice.WF :=
  fun s => inferInstanceAs (Decidable (∀ b ∈ s.elems, b.WF))
instance : DecidablePred MSlice.Small :=
  fun s => inferInstanceAs (Decidable (∀ b ∈ s.elems, b.Small))
instance : DecidablePred RSlice.WF :=
  fun s => inferInstanceAs (Decidable (∀ b ∈ s.elems, b.WF))
instance : DecidablePred RSlice.Small :=
  fun s => inferInstanceAs (Decidable (∀ b ∈ s.elems, b.Small))

theorem All2_partsMut (bs : List MBuf) (h : ∀ b ∈ bs, b.WF) :
    All2 InsideSpare (bs.map (·.partsMut)) (bs.map (·.leaf)) := by
  induction bs with
  | nil => simp [All2]
  | cons b bs ih =>
    exact ⟨C14_inside_bufmut b (h b (by simp)), ih (fun x hx => h x (by simp [hx]))⟩

/-- `BufMutSlice::as_iovecs_mut` of arrays, tuples, `LimitedBuf`s and
`ReadNBuf`s of them: the i-th iovec lies in the spare capacity of the i-th
buffer's own allocation. All arities. -/
theorem C14_inside_mutslice (s : MSlice) (hwf : s.WF) :
    All2 InsideSpare s.iovecsMut (s.elems.map (·.leaf)) := by
  induction s with
  | arr bs => exact All2_partsMut bs hwf
  | limited i l ih => exact All2_clamp InsideSpare InsideSpare_shrink _ _ l (ih hwf)
  | readN i k ih => exact ih hwf

/-! ### C14_len_agree: reported lengths agree with the exposed pairs -/

theorem RBuf.WF_limited {i : RBuf} {l : Nat} (h : (RBuf.limited i l).WF) : i.WF := h
theorem RBuf.Small_limited {i : RBuf} {l : Nat} (h : (RBuf.limited i l).Small) : i.Small := h
theorem MBuf.Small_limited {i : MBuf} {l : Nat} (h : (MBuf.limited i l).Small) : i.Small := h
theorem MBuf.Small_readN {i : MBuf} {k : Nat} (h : (MBuf.readN i k).Small) : i.Small := h

/-- `Buf::len` / `is_empty` agree with `parts().1`, for base buffers shorter
than 2^32 bytes and for `LimitedBuf` / `SkipBuf` around them with **any**
limit (`usize` range and beyond) and any skip. -/
theorem C14_len_agree_buf (b : RBuf) (hwf : b.WF) (hs : b.Small) :
    b.len = b.parts.len ∧ (b.isEmpty = true ↔ b.parts.len = 0) := by
  induction b with
  | base b =>
    have h1 : b.len ≤ b.mem.length := hwf
    have h2 : b.mem.length < 4294967296 := hs
    have h3 : asU32 b.len = b.len := asU32_of_lt (by omega)
    simp [RBuf.len, RBuf.isEmpty, RBuf.parts, Base.parts, h3]
  | pool o => simp [RBuf.len, RBuf.isEmpty]
  | limited i l ih =>
    obtain ⟨ih1, ih2⟩ := ih (RBuf.WF_limited hwf) (RBuf.Small_limited hs)
    have hlt := i.parts_len_lt
    have h3 : asU32 (min i.parts.len l) = min i.parts.len l := asU32_of_lt (by omega)
    have hp : (RBuf.limited i l).parts.len = min i.parts.len l := h3
    refine ⟨by rw [hp]; simp [RBuf.len, ih1], ?_⟩
    rw [hp]
    simp only [RBuf.isEmpty, Bool.or_eq_true, beq_iff_eq, ih2]
    omega
  | skip i n ih => simp [RBuf.len, RBuf.isEmpty]

/-- Without the size hypothesis the base law fails (a buffer of exactly 2^32
bytes reports `len() = 2^32` but exposes `parts().1 = 0`): the hypothesis of
`C14_len_agree_buf` is needed, it is the io_uring ABI bound on one buffer. -/
theorem C14_len_agree_needs_small (mem : List Nat) (h : mem.length = 4294967296) :
    (RBuf.base ⟨0, mem, 4294967296⟩).WF ∧
    (RBuf.base ⟨0, mem, 4294967296⟩).len = 4294967296 ∧
    (RBuf.base ⟨0, mem, 4294967296⟩).parts.len = 0 := by
  refine ⟨?_, rfl, ?_⟩
  · show 4294967296 ≤ mem.length
    omega
  · show asU32 4294967296 = 0
    unfold asU32; omega

/-- `BufMut::spare_capacity` equals `parts_mut().1` for every implementation
and wrapper, every capacity and **every limit** (no hypothesis at all). -/
theorem C14_len_agree_bufmut_spare (b : MBuf) : b.spare = b.partsMut.len := by
  induction b with
  | vec b => rfl
  | pool o => cases o <;> rfl
  | limited i l ih => simp [MBuf.spare, MBuf.partsMut, ih]
  | readN i k ih => simpa [MBuf.spare, MBuf.partsMut] using ih

/-- `BufMut::has_spare_capacity` is `parts_mut().1 != 0`, for allocations
shorter than 2^32 bytes and **every limit**. -/
theorem C14_len_agree_bufmut_has (b : MBuf) (hwf : b.WF) (hs : b.Small) :
    (b.hasSpare = true ↔ b.partsMut.len ≠ 0) := by
  induction b with
  | vec b =>
    have h1 : b.len ≤ b.mem.length := hwf
    have h2 : b.mem.length < 4294967296 := hs
    have h3 : asU32 (b.mem.length - b.len) = b.mem.length - b.len := asU32_of_lt (by omega)
    simp [MBuf.hasSpare, MBuf.partsMut, Base.hasSpare, Base.partsMut, Base.cap, h3]
    omega
  | pool o =>
    cases o with
    | none => simp [MBuf.hasSpare, MBuf.partsMut]
    | some b =>
      have h1 : b.len ≤ b.mem.length := hwf
      have h2 : b.mem.length < 4294967296 := hs
      have h3 : asU32 (b.mem.length - b.len) = b.mem.length - b.len := asU32_of_lt (by omega)
      simp [MBuf.hasSpare, MBuf.partsMut, Base.hasSpare, Base.partsMut, Base.cap, h3]
      omega
  | limited i l ih =>
    have ih := ih (MBuf.WF_limited hwf) (MBuf.Small_limited hs)
    have hlt := i.partsMut_len_lt
    have h3 : asU32 (min i.partsMut.len l) = min i.partsMut.len l := asU32_of_lt (by omega)
    have hp : (MBuf.limited i l).partsMut.len = min i.partsMut.len l := h3
    rw [hp]
    simp only [MBuf.hasSpare, Bool.and_eq_true, bne_iff_ne, ih]
    omega
  | readN i k ih => exact ih (MBuf.WF_readN hwf) (MBuf.Small_readN hs)

theorem clamp_sum (rs : List Region) (left : Nat) :
    sumLens (clamp rs left) = min (sumLens rs) left := by
  induction rs generalizing left with
  | nil => simp [clamp, sumLens]
  | cons r rs ih =>
    unfold clamp
    split
    · have := ih (left - r.len)
      simp only [sumLens, List.map_cons, List.sum_cons] at this ⊢
      omega
    · have := ih 0
      simp only [sumLens, List.map_cons, List.sum_cons] at this ⊢
      omega

theorem sum_eq_zero_iff (xs : List Nat) : xs.sum = 0 ↔ ∀ x ∈ xs, x = 0 := by
  induction xs with
  | nil => simp
  | cons x xs ih => simp [List.sum_cons, ih]

theorem len_agree_list (bs : List RBuf) (hwf : ∀ b ∈ bs, b.WF) (hs : ∀ b ∈ bs, b.Small) :
    (bs.map (·.len)).sum = (bs.map (·.parts.len)).sum ∧
    (bs.all (·.isEmpty) = true ↔ (bs.map (·.parts.len)).sum = 0) := by
  induction bs with
  | nil => simp
  | cons b bs ih =>
    obtain ⟨e1, e2⟩ := C14_len_agree_buf b (hwf b (by simp)) (hs b (by simp))
    obtain ⟨i1, i2⟩ := ih (fun x hx => hwf x (by simp [hx])) (fun x hx => hs x (by simp [hx]))
    simp only [List.map_cons, List.sum_cons, List.all_cons, Bool.and_eq_true]
    refine ⟨by omega, ?_⟩
    rw [e2, i2]; omega

/-- `BufSlice::total_len` / `is_empty` agree with the iovecs, for arrays and
tuples of every arity over buffers shorter than 2^32 bytes, and for
`LimitedBuf`s around them with **any** limit. -/
theorem C14_len_agree_slice (s : RSlice) (hwf : s.WF) (hs : s.Small) :
    s.totalLen = sumLens s.iovecs ∧ (s.isEmpty = true ↔ sumLens s.iovecs = 0) := by
  induction s with
  | arr bs =>
    have := len_agree_list bs hwf hs
    simpa [RSlice.totalLen, RSlice.isEmpty, RSlice.iovecs, sumLens, Function.comp_def] using this
  | limited i l ih =>
    obtain ⟨i1, i2⟩ := ih hwf hs
    simp only [RSlice.totalLen, RSlice.isEmpty, RSlice.iovecs, clamp_sum, Bool.or_eq_true,
      beq_iff_eq, i1, i2]
    refine ⟨trivial, ?_⟩
    omega

/-- Total the inner buffers expose, before any limit. -/
def MSlice.rawTotal (s : MSlice) : Nat := (s.elems.map (·.partsMut.len)).sum

theorem sum_spare_eq (bs : List MBuf) :
    (bs.map (·.spare)).sum = (bs.map (·.partsMut.len)).sum := by
  induction bs with
  | nil => rfl
  | cons b bs ih => simp [List.sum_cons, ← ih, C14_len_agree_bufmut_spare]

theorem foldl_satAdd (xs : List Nat) (acc : Nat) (h : acc ≤ 4294967295) :
    xs.foldl satAdd acc = min (acc + xs.sum) 4294967295 := by
  induction xs generalizing acc with
  | nil => simp; omega
  | cons x xs ih =>
    simp only [List.foldl_cons, List.sum_cons]
    rw [ih (satAdd acc x) (by unfold satAdd; omega)]
    unfold satAdd; omega

/-- The saturating sum is the true sum capped at `u32::MAX`. -/
theorem sumSatU32_eq (xs : List Nat) : sumSatU32 xs = min xs.sum 4294967295 := by
  unfold sumSatU32
  rw [foldl_satAdd xs 0 (by omega)]
  simp

/-- **`BufMutSlice::total_spare_capacity` (full statement).** For every
array / tuple / `LimitedBuf` / `ReadNBuf` of every arity, every capacity and
**every limit** — no hypothesis at all — the call never panics (it is a total
function) and reports the total length of the iovecs capped at `u32::MAX`:
exactly the total whenever that is below 2^32, `u32::MAX` (saturated) otherwise. -/
theorem C14_len_agree_mutslice_spare (s : MSlice) :
    s.totalSpare = min (sumLens s.iovecsMut) 4294967295 := by
  induction s with
  | arr bs =>
    simp only [MSlice.totalSpare, sumSatU32_eq, sum_spare_eq, MSlice.iovecsMut, sumLens,
      List.map_map, Function.comp_def]
  | limited i l ih =>
    simp only [MSlice.totalSpare, MSlice.iovecsMut, clamp_sum, ih]
    rw [asU32_of_lt (by omega)]
    omega
  | readN i k ih => exact ih

/-- The two cases spelled out. -/
theorem C14_len_agree_mutslice_spare_cases (s : MSlice) :
    (sumLens s.iovecsMut < 4294967296 → s.totalSpare = sumLens s.iovecsMut) ∧
    (4294967296 ≤ sumLens s.iovecsMut → s.totalSpare = 4294967295) := by
  rw [C14_len_agree_mutslice_spare]
  constructor <;> intro h <;> omega

theorem has_agree_list (bs : List MBuf) (hwf : ∀ b ∈ bs, b.WF) (hs : ∀ b ∈ bs, b.Small) :
    (bs.any (·.hasSpare) = true ↔ (bs.map (·.partsMut.len)).sum ≠ 0) := by
  induction bs with
  | nil => simp
  | cons b bs ih =>
    have e := C14_len_agree_bufmut_has b (hwf b (by simp)) (hs b (by simp))
    have i := ih (fun x hx => hwf x (by simp [hx])) (fun x hx => hs x (by simp [hx]))
    simp only [List.map_cons, List.sum_cons, List.any_cons, Bool.or_eq_true]
    rw [e, i]; omega

/-- `BufMutSlice::has_spare_capacity` is "the iovecs are not all empty", for
every arity, allocations shorter than 2^32 bytes and **every limit**. -/
theorem C14_len_agree_mutslice_has (s : MSlice) (hwf : s.WF) (hs : s.Small) :
    (s.hasSpare = true ↔ sumLens s.iovecsMut ≠ 0) := by
  induction s with
  | arr bs =>
    have := has_agree_list bs hwf hs
    simpa [MSlice.hasSpare, MSlice.iovecsMut, sumLens, Function.comp_def] using this
  | limited i l ih =>
    have ih := ih hwf hs
    simp only [MSlice.hasSpare, MSlice.iovecsMut, clamp_sum, Bool.and_eq_true, bne_iff_ne, ih]
    omega
  | readN i k ih => exact ih hwf hs

/-- The defect repaired by the `fix:` commit 51b2f60: the spare capacities were
added as plain `u32`s (`iter().sum()`, `0 + a + b`). For two empty vectors of
capacity 2^31 each — both below the 2^32 bound — the iovecs expose 2^32 bytes
and `has_spare_capacity()` is `true`, but the sum overflowed: a panic with
overflow checks on, `0` without. Now it saturates. -/
def sumU32Old (xs : List Nat) : Option Nat :=
  if xs.sum < 4294967296 then some xs.sum else none

example : sumU32Old [2147483648, 2147483648] = none := by decide
example : (2147483648 + 2147483648) % 4294967296 = 0 := by decide
example : sumSatU32 [2147483648, 2147483648] = 4294967295 := by decide

theorem saturated_witness (m : List Nat) (hm : m.length = 2147483648) :
    (MSlice.arr [.vec ⟨0, m, 0⟩, .vec ⟨1, m, 0⟩]).totalSpare = 4294967295 ∧
    sumLens (MSlice.arr [.vec ⟨0, m, 0⟩, .vec ⟨1, m, 0⟩]).iovecsMut = 4294967296 := by
  have hsp : asU32 (m.length - 0) = 2147483648 := by rw [hm]; rfl
  have h2 : sumLens (MSlice.arr [.vec ⟨0, m, 0⟩, .vec ⟨1, m, 0⟩]).iovecsMut = 4294967296 := by
    simp only [MSlice.iovecsMut, sumLens, List.map_cons, List.map_nil, MBuf.partsMut,
      Base.partsMut, Base.cap, hsp, List.sum_cons, List.sum_nil]
    rfl
  exact ⟨by rw [C14_len_agree_mutslice_spare, h2]; rfl, h2⟩

/-- The formulas the `caps` op of the correspondence prints for an array of
empty vectors are the model's `spare`, `parts_mut`, `total_spare_capacity` and
`has_spare_capacity` (the list model of memory cannot hold gigabytes at run
time, the theorem can). -/
theorem caps_row_sound (ms : List (List Nat)) :
    let bs : List MBuf := ms.map fun m => MBuf.vec ⟨0, m, 0⟩
    let caps := ms.map List.length
    bs.map (·.spare) = caps.map (fun c => asU32 (c - 0)) ∧
    bs.map (·.partsMut.len) = caps.map (fun c => asU32 (c - 0)) ∧
    (MSlice.arr bs).totalSpare = sumSatU32 (caps.map fun c => asU32 (c - 0)) ∧
    (MSlice.arr bs).hasSpare = caps.any (fun c => decide (c > 0)) := by
  simp only [MSlice.totalSpare, MSlice.hasSpare, List.map_map, List.any_map]
  refine ⟨?_, ?_, ?_, ?_⟩ <;> first | rfl | (congr 1)

theorem clamp_clampLens (rs : List Region) (l : Nat) :
    (clamp rs l).map (·.len) = clampLens (rs.map (·.len)) l := by
  induction rs generalizing l with
  | nil => rfl
  | cons r rs ih =>
    simp only [clamp, List.map_cons, clampLens]
    split
    · simp only [List.map_cons, ih]
    · simp only [List.map_cons, ih]

/-- The `lcaps` line of the protocol is the model: the numbers it prints for an
array / tuple of empty vectors under a `LimitedBuf` are the model's
`as_iovecs_mut` lengths, `total_spare_capacity` and `has_spare_capacity` of
`MSlice.limited (.arr …) limit` — for capacities of any size (gigabytes). -/
theorem lcaps_row_sound (ms : List (List Nat)) (limit : Nat) :
    let bs : List MBuf := ms.map fun m => MBuf.vec ⟨0, m, 0⟩
    let caps := ms.map List.length
    let spares := caps.map (fun c => asU32 (c - 0))
    ((MSlice.limited (.arr bs) limit).iovecsMut.map (·.len)) = clampLens spares limit ∧
    (MSlice.limited (.arr bs) limit).totalSpare = asU32 (min (sumSatU32 spares) limit) ∧
    (MSlice.limited (.arr bs) limit).hasSpare =
      (limit != 0 && caps.any (fun c => decide (c > 0))) := by
  intro bs caps spares
  have h := caps_row_sound ms
  simp only at h
  refine ⟨?_, ?_, ?_⟩
  · simp only [MSlice.iovecsMut]
    rw [clamp_clampLens]
    have h2 : (MSlice.arr bs).iovecsMut.map (·.len) = spares := by
      have := h.2.1
      show List.map (·.len) (List.map (·.partsMut) (ms.map fun m => MBuf.vec ⟨0, m, 0⟩)) =
        (ms.map List.length).map (fun c => asU32 (c - 0))
      rw [List.map_map]
      exact this
    exact congrArg (fun x => clampLens x limit) h2
  · simp only [MSlice.totalSpare]
    have h3 := h.2.2.1
    simp only [MSlice.totalSpare] at h3
    rw [h3]
  · simp only [MSlice.hasSpare]
    have h4 := h.2.2.2
    simp only [MSlice.hasSpare] at h4
    rw [h4]

/-- **A `LimitedBuf` over buffers of any size never exposes more than its limit**
and cuts nothing off while the limit allows it: the lengths are the buffers'
own lengths until the limit is used up, then what is left of it, then 0 —
whatever the sizes (also when the sum of the spare capacities exceeds 2^32,
where `total_spare_capacity` saturates). -/
theorem C14_limit_clamp_lens (ns : List Nat) (l : Nat) :
    (clampLens ns l).sum = min ns.sum l ∧ (clampLens ns l).length = ns.length ∧
    (ns.sum ≤ l → clampLens ns l = ns) := by
  induction ns generalizing l with
  | nil => simp [clampLens]
  | cons n ns ih =>
    simp only [clampLens]
    split
    · rename_i hle
      have := ih (l - n)
      refine ⟨by simp only [List.sum_cons, this.1]; omega, by simp [this.2.1], ?_⟩
      intro hs
      simp only [List.sum_cons] at hs
      rw [this.2.2 (by omega)]
    · rename_i hgt
      have h0 := ih 0
      refine ⟨by simp only [List.sum_cons, h0.1]; omega, by simp [h0.2.1], ?_⟩
      intro hs
      simp only [List.sum_cons] at hs
      omega

/-! ### C14_set_init: marking `n` bytes initialised appends exactly those bytes -/

theorem MBuf.leaf_setInit (b : MBuf) (n : Nat) :
    (b.setInit n).leaf = b.leaf.map (fun l => l.setInit n) := by
  induction b generalizing n with
  | vec b => rfl
  | pool o => cases o <;> rfl
  | limited i l ih => exact ih n
  | readN i k ih => exact ih n

/-- Every `parts_mut` points at the first uninitialised byte of the buffer's
own allocation. -/
theorem MBuf.partsMut_at (b : MBuf) (l : Base) (h : b.leaf = some l) :
    b.partsMut.blk = some l.blk ∧ b.partsMut.off = l.len := by
  induction b with
  | vec b => cases h; exact ⟨rfl, rfl⟩
  | pool o =>
    cases o with
    | none => cases h
    | some b => cases h; exact ⟨rfl, rfl⟩
  | limited i k ih => exact ih h
  | readN i k ih => exact ih h

theorem MBuf.partsMut_none (b : MBuf) (h : b.leaf = none) :
    b.partsMut.blk = none ∧ b.partsMut.len = 0 := by
  have := C14_inside_bufmut b (by show optAll Base.WF b.leaf; rw [h]; trivial)
  rw [h] at this
  exact this

/-- `set_init(n)` on any `BufMut` (with `n` at most what `parts_mut` exposed):
the buffer keeps its bytes and gains exactly the first `n` bytes of the region
`parts_mut` designated; the allocation itself is untouched and the buffer
stays well formed. -/
theorem C14_set_init_bufmut (b : MBuf) (hwf : b.WF) (n : Nat) (hn : n ≤ b.partsMut.len) :
    (b.setInit n).content = b.content ++ b.exposed.take n ∧
    (b.setInit n).leaf.map (·.mem) = b.leaf.map (·.mem) ∧
    (b.setInit n).WF := by
  have hin := C14_inside_bufmut b hwf
  have hl := b.leaf_setInit n
  cases hb : b.leaf with
  | none =>
    rw [hb] at hl
    simp [MBuf.content, MBuf.exposed, MBuf.WF, hl, hb, optAll]
  | some l =>
    rw [hb] at hl hin
    obtain ⟨_, hoff⟩ := b.partsMut_at l hb
    obtain ⟨_, hlo, hhi⟩ := hin
    simp only [MBuf.content, MBuf.exposed, MBuf.WF, hl, hb, optAll, Option.map_some,
      Base.content, Base.setInit, readRegion, hoff, List.take_take]
    refine ⟨?_, trivial, ?_⟩
    · rw [Nat.min_eq_left hn, List.take_add]
    · show l.len + n ≤ l.mem.length
      omega

/-! #### Arrays, tuples and their wrappers -/

/-- Distribute `n` front to back over capacities `ls`: the specification of
how `set_init(n)` must split `n` over the buffers. -/
def frontFill : List Nat → Nat → List Nat
  | [], _ => []
  | l :: ls, n => min l n :: frontFill ls (n - min l n)

/-- What the loop does, buffer by buffer: `some k` = `set_init(k)` is called on
it, `none` = the loop returned before reaching it. -/
def fills : List Nat → Nat → List (Option Nat)
  | [], _ => []
  | l :: ls, left =>
    if l < left then some l :: fills ls (left - l) else some left :: ls.map (fun _ => none)

def MBuf.touch (b : MBuf) : Option Nat → MBuf
  | none => b
  | some k => b.setInit k

theorem frontFill_zero (ls : List Nat) : frontFill ls 0 = ls.map (fun _ => 0) := by
  induction ls with
  | nil => rfl
  | cons l ls ih => simp [frontFill, ih]

theorem frontFill_length (ls : List Nat) (n : Nat) : (frontFill ls n).length = ls.length := by
  induction ls generalizing n with
  | nil => rfl
  | cons l ls ih => simp [frontFill, ih]

/-- The pieces add up to `n` (or to everything there is). -/
theorem frontFill_sum (ls : List Nat) (n : Nat) : (frontFill ls n).sum = min n ls.sum := by
  induction ls generalizing n with
  | nil => simp [frontFill]
  | cons l ls ih =>
    simp only [frontFill, List.sum_cons, ih]
    omega

/-- No buffer receives more than it exposed. -/
theorem frontFill_le (ls : List Nat) (n : Nat) : All2 (· ≤ ·) (frontFill ls n) ls := by
  induction ls generalizing n with
  | nil => simp [frontFill, All2]
  | cons l ls ih => exact ⟨Nat.min_le_left _ _, ih _⟩

theorem frontFill_frontFill (ls : List Nat) (L n : Nat) (h : n ≤ L) :
    frontFill (frontFill ls L) n = frontFill ls n := by
  induction ls generalizing L n with
  | nil => rfl
  | cons l ls ih =>
    simp only [frontFill]
    have e : min (min l L) n = min l n := by omega
    rw [e, ih (L - min l L) (n - min l n) (by omega)]

theorem fills_getD (ls : List Nat) (n : Nat) :
    (fills ls n).map (·.getD 0) = frontFill ls n := by
  induction ls generalizing n with
  | nil => rfl
  | cons l ls ih =>
    unfold fills frontFill
    split
    · rename_i h
      have e : min l n = l := by omega
      simp [ih, e]
    · rename_i h
      have e : min l n = n := by omega
      simp [e, frontFill_zero]

theorem clamp_lens (rs : List Region) (L : Nat) :
    (clamp rs L).map (·.len) = frontFill (rs.map (·.len)) L := by
  induction rs generalizing L with
  | nil => rfl
  | cons r rs ih =>
    unfold clamp
    split
    · rename_i h
      have e : min r.len L = r.len := by omega
      simp [frontFill, ih, e]
    · rename_i h
      have e : min r.len L = L := by omega
      simp [frontFill, ih, e]

theorem zipWith_touch_none (bs : List MBuf) :
    List.zipWith MBuf.touch bs (bs.map (fun _ => none)) = bs := by
  induction bs with
  | nil => rfl
  | cons b bs ih => simp [MBuf.touch, ih]

/-- The loop of arrays / tuples, as a per-buffer description. -/
theorem setInitArr_touch (bs : List MBuf) (n : Nat) :
    (setInitArr bs n).1 = List.zipWith MBuf.touch bs (fills (bs.map (·.partsMut.len)) n) := by
  induction bs generalizing n with
  | nil => rfl
  | cons b bs ih =>
    unfold setInitArr
    simp only [List.map_cons, fills]
    split
    · simp [MBuf.touch, ih]
    · have := zipWith_touch_none bs
      simp [MBuf.touch, List.map_map, Function.comp_def, this]

theorem setInitArr_panic (bs : List MBuf) (n : Nat) :
    (setInitArr bs n).2 = true ↔ bs = [] ∨ (bs.map (·.partsMut.len)).sum < n := by
  induction bs generalizing n with
  | nil => simp [setInitArr]
  | cons b bs ih =>
    unfold setInitArr
    split
    · rename_i h
      simp only [ih, List.map_cons, List.sum_cons]
      constructor
      · rintro (rfl | h2)
        · right; simp; omega
        · right; omega
      · intro h2
        rcases h2 with h2 | h2
        · simp at h2
        · cases bs with
          | nil => left; rfl
          | cons c cs => right; simp only [List.map_cons, List.sum_cons] at h2 ⊢; omega
    · rename_i h
      simp only [List.map_cons, List.sum_cons]
      constructor
      · intro h2; simp at h2
      · intro h2
        rcases h2 with h2 | h2
        · simp at h2
        · omega

/-- `BufMutSlice::set_init(n)` of every implementation (arrays, tuples,
`LimitedBuf`, `ReadNBuf`, nested): which buffer gets how much, and when the
call panics — for every `n`, including the caller errors. -/
theorem MSlice.setInit_elems (s : MSlice) (n : Nat) :
    (s.setInit n).1.elems
        = List.zipWith MBuf.touch s.elems (fills (s.elems.map (·.partsMut.len)) n) ∧
    ((s.setInit n).2 = true ↔ s.elems = [] ∨ s.rawTotal < n) := by
  induction s with
  | arr bs => exact ⟨setInitArr_touch bs n, setInitArr_panic bs n⟩
  | limited i l ih =>
    obtain ⟨ih1, ih2⟩ := ih
    have e1 : (MSlice.limited i l).elems = i.elems := rfl
    have e2 : (MSlice.limited i l).rawTotal = i.rawTotal := rfl
    rw [e1, e2]
    simp only [MSlice.setInit]
    split
    · rename_i h; exact ⟨ih1, by simpa [h] using ih2⟩
    · rename_i h; exact ⟨ih1, by simpa [h] using ih2⟩
  | readN i k ih => exact ih

/-- `set_init(n)` panics exactly when there is no buffer at all (arity 0,
outside the property's arities 1..8) or `n` exceeds what the buffers expose —
the documented caller error. -/
theorem C14_set_init_panics_iff (s : MSlice) (n : Nat) :
    (s.setInit n).2 = true ↔ s.elems = [] ∨ s.rawTotal < n :=
  (s.setInit_elems n).2

theorem sumLens_le_raw (s : MSlice) : sumLens s.iovecsMut ≤ s.rawTotal := by
  induction s with
  | arr bs => simp [MSlice.iovecsMut, MSlice.rawTotal, MSlice.elems, sumLens, Function.comp_def]
  | limited i l ih =>
    have e : (MSlice.limited i l).rawTotal = i.rawTotal := rfl
    simp only [MSlice.iovecsMut, clamp_sum, e]
    omega
  | readN i k ih => exact ih

/-- For plain arrays and tuples the iovecs are all the buffers expose. -/
theorem sumLens_arr (bs : List MBuf) :
    sumLens (MSlice.arr bs).iovecsMut = (MSlice.arr bs).rawTotal := by
  simp [MSlice.iovecsMut, MSlice.rawTotal, MSlice.elems, sumLens, Function.comp_def]

theorem lens_frontFill (s : MSlice) (n : Nat) (hn : n ≤ sumLens s.iovecsMut) :
    frontFill (s.iovecsMut.map (·.len)) n = frontFill (s.elems.map (·.partsMut.len)) n := by
  induction s generalizing n with
  | arr bs => simp [MSlice.iovecsMut, MSlice.elems, Function.comp_def]
  | limited i l ih =>
    simp only [MSlice.iovecsMut, clamp_sum] at hn
    simp only [MSlice.iovecsMut, MSlice.elems, clamp_lens]
    rw [frontFill_frontFill _ _ _ (by omega), ih n (by omega)]
  | readN i k ih => exact ih n hn

theorem MBuf.leaf_touch (b : MBuf) (o : Option Nat) :
    (b.touch o).leaf = b.leaf.map (fun l => l.setInit (o.getD 0)) := by
  cases o with
  | none =>
    show b.leaf = b.leaf.map (fun l => l.setInit 0)
    cases b.leaf <;> rfl
  | some k => exact b.leaf_setInit k

theorem map_leaf_zipWith_touch (bs : List MBuf) (fs : List (Option Nat)) :
    (List.zipWith MBuf.touch bs fs).map (·.leaf)
      = List.zipWith (fun b k => b.leaf.map (fun l => l.setInit k)) bs (fs.map (·.getD 0)) := by
  induction bs generalizing fs with
  | nil => simp
  | cons b bs ih =>
    cases fs with
    | nil => simp
    | cons f fs => simp [MBuf.leaf_touch, ih]

/-- Each iovec starts at the first uninitialised byte of its buffer. -/
def RegAt (r : Region) (o : Option Base) : Prop :=
  match o with
  | some l => r.off = l.len
  | none => True

theorem RegAt_shrink (r : Region) (o : Option Base) (k : Nat) (h : RegAt r o) (_ : k ≤ r.len) :
    RegAt { r with len := k } o := by
  cases o <;> exact h

theorem All2_RegAt (s : MSlice) : All2 RegAt s.iovecsMut (s.elems.map (·.leaf)) := by
  induction s with
  | arr bs =>
    refine All2_map_left RegAt (·.partsMut) (·.leaf) ?_ bs
    intro b
    cases hb : b.leaf with
    | none => trivial
    | some l => exact (b.partsMut_at l hb).2
  | limited i l ih => exact All2_clamp RegAt RegAt_shrink _ _ l ih
  | readN i k ih => exact ih

def leafContent : Option Base → List Nat
  | some l => l.content
  | none => []

theorem content_eq_leafContent (b : MBuf) : b.content = leafContent b.leaf := by
  unfold MBuf.content leafContent; cases b.leaf <;> rfl

theorem contents_step (ls : List (Option Base)) (rs : List Region) (ks : List Nat)
    (hat : All2 RegAt rs ls) (hk : All2 (· ≤ ·) ks (rs.map (·.len))) :
    (List.zipWith (fun (o : Option Base) k => o.map (fun l => l.setInit k)) ls ks).map leafContent
      = List.zipWith (· ++ ·) (ls.map leafContent) (List.zipWith List.take ks (readIovs rs ls)) := by
  induction ls generalizing rs ks with
  | nil => simp
  | cons o ls ih =>
    cases rs with
    | nil => cases ks <;> simp [All2] at hk hat
    | cons r rs =>
      cases ks with
      | nil => simp
      | cons k ks =>
        obtain ⟨hat1, hat2⟩ := hat
        obtain ⟨hk1, hk2⟩ := hk
        have := ih rs ks hat2 hk2
        cases o with
        | none => simp [readIovs, leafContent, this]
        | some l =>
          have hoff : r.off = l.len := hat1
          simp only [List.zipWith_cons_cons, List.map_cons, readIovs, Option.map_some]
          rw [this]
          congr 1
          simp only [leafContent, Base.content, Base.setInit, readRegion, hoff, List.take_take]
          rw [Nat.min_eq_left hk1, List.take_add]

theorem readIovs_lengths (rs : List Region) (ls : List (Option Base))
    (h : All2 InsideSpare rs ls) : (readIovs rs ls).map List.length = rs.map (·.len) := by
  induction rs generalizing ls with
  | nil => cases ls <;> simp [readIovs]
  | cons r rs ih =>
    cases ls with
    | nil => simp [All2] at h
    | cons o ls =>
      obtain ⟨h1, h2⟩ := h
      cases o with
      | none =>
        obtain ⟨_, hz⟩ := h1
        simp [readIovs, ih ls h2, hz]
      | some l =>
        obtain ⟨_, _, hhi⟩ := h1
        simp only [readIovs, List.map_cons, ih ls h2, readRegion, List.length_take,
          List.length_drop]
        congr 1
        omega

theorem flatten_take_frontFill {α : Type} (xs : List (List α)) (n : Nat) :
    (List.zipWith List.take (frontFill (xs.map List.length) n) xs).flatten = xs.flatten.take n := by
  induction xs generalizing n with
  | nil => simp [frontFill]
  | cons x xs ih =>
    simp only [List.map_cons, frontFill, List.zipWith_cons_cons, List.flatten_cons, ih,
      List.take_append]
    have e1 : List.take (min x.length n) x = List.take n x := by
      rw [Nat.min_comm, ← List.take_take, List.take_length]
    have e2 : n - min x.length n = n - x.length := by omega
    rw [e1, e2]

/-- **`set_init(n)` on arrays, tuples and their wrappers.** With at least one
buffer and `n` at most the total the iovecs expose: the call does not panic;
buffer `i` keeps its allocation and its bytes and gains `kᵢ` bytes, where
`k = frontFill lens n` fills the iovecs front to back; the bytes it gains are
the first `kᵢ` bytes of its own iovec; in order, the gained bytes are exactly
the first `n` bytes of the concatenated iovec regions; and `Σ kᵢ = n`.
All arities, capacities, fill levels and limits. -/
theorem C14_set_init_mutslice (s : MSlice) (hwf : s.WF) (n : Nat) (hne : s.elems ≠ [])
    (hn : n ≤ sumLens s.iovecsMut) :
    (s.setInit n).2 = false ∧
    (s.setInit n).1.elems.map (·.leaf)
      = List.zipWith (fun b k => b.leaf.map (fun l => l.setInit k)) s.elems
          (frontFill (s.iovecsMut.map (·.len)) n) ∧
    (s.setInit n).1.elems.map (·.content)
      = List.zipWith (· ++ ·) (s.elems.map (·.content))
          (List.zipWith List.take (frontFill (s.iovecsMut.map (·.len)) n) s.exposed) ∧
    (List.zipWith List.take (frontFill (s.iovecsMut.map (·.len)) n) s.exposed).flatten
      = s.exposed.flatten.take n ∧
    (frontFill (s.iovecsMut.map (·.len)) n).sum = n := by
  obtain ⟨he, hp⟩ := s.setInit_elems n
  have hraw := sumLens_le_raw s
  have hleaf : (s.setInit n).1.elems.map (·.leaf)
      = List.zipWith (fun b k => b.leaf.map (fun l => l.setInit k)) s.elems
          (frontFill (s.iovecsMut.map (·.len)) n) := by
    rw [he, map_leaf_zipWith_touch, fills_getD, lens_frontFill s n hn]
  have hlen := readIovs_lengths _ _ (C14_inside_mutslice s hwf)
  refine ⟨?_, hleaf, ?_, ?_, ?_⟩
  · cases hb : (s.setInit n).2 with
    | false => rfl
    | true =>
      rcases hp.mp hb with h | h
      · exact absurd h hne
      · omega
  · have hz : ∀ (bs : List MBuf) (ks : List Nat),
        List.zipWith (fun b k => b.leaf.map (fun l => l.setInit k)) bs ks
          = List.zipWith (fun (o : Option Base) k => o.map (fun l => l.setInit k))
              (bs.map (·.leaf)) ks := by
      intro bs
      induction bs with
      | nil => simp
      | cons b bs ih => intro ks; cases ks <;> simp [ih]
    have hc : ∀ bs : List MBuf, bs.map (·.content) = (bs.map (·.leaf)).map leafContent := by
      intro bs; simp [content_eq_leafContent, Function.comp_def]
    rw [hc, hleaf, hz, hc]
    exact contents_step _ _ _ (All2_RegAt s) (frontFill_le _ _)
  · have := flatten_take_frontFill s.exposed n
    unfold MSlice.exposed at this ⊢
    rw [hlen] at this
    exact this
  · rw [frontFill_sum]
    show min n (sumLens s.iovecsMut) = n
    omega

theorem wf_step (ls : List (Option Base)) (rs : List Region) (ks : List Nat)
    (hin : All2 InsideSpare rs ls) (hk : All2 (· ≤ ·) ks (rs.map (·.len))) :
    ∀ o ∈ List.zipWith (fun (o : Option Base) k => o.map (fun l => l.setInit k)) ls ks,
      optAll Base.WF o := by
  induction ls generalizing rs ks with
  | nil => simp
  | cons o ls ih =>
    cases rs with
    | nil => simp [All2] at hin
    | cons r rs =>
      cases ks with
      | nil => simp
      | cons k ks =>
        obtain ⟨hin1, hin2⟩ := hin
        obtain ⟨hk1, hk2⟩ := hk
        intro x hx
        simp only [List.zipWith_cons_cons, List.mem_cons] at hx
        rcases hx with rfl | hx
        · cases o with
          | none => trivial
          | some l =>
            obtain ⟨_, hlo, hhi⟩ := hin1
            show l.len + k ≤ l.mem.length
            have : k ≤ r.len := hk1
            omega
        · exact ih rs ks hin2 hk2 x hx

/-- … and the buffers stay well formed (no length beyond its capacity). -/
theorem C14_set_init_mutslice_wf (s : MSlice) (hwf : s.WF) (n : Nat) (hne : s.elems ≠ [])
    (hn : n ≤ sumLens s.iovecsMut) : (s.setInit n).1.WF := by
  obtain ⟨_, hleaf, _⟩ := C14_set_init_mutslice s hwf n hne hn
  have hz : ∀ (bs : List MBuf) (ks : List Nat),
      List.zipWith (fun b k => b.leaf.map (fun l => l.setInit k)) bs ks
        = List.zipWith (fun (o : Option Base) k => o.map (fun l => l.setInit k))
            (bs.map (·.leaf)) ks := by
    intro bs
    induction bs with
    | nil => simp
    | cons b bs ih => intro ks; cases ks <;> simp [ih]
  rw [hz] at hleaf
  have h := wf_step _ _ _ (C14_inside_mutslice s hwf) (frontFill_le (s.iovecsMut.map (·.len)) n)
  rw [← hleaf] at h
  intro b hb
  exact h b.leaf (List.mem_map_of_mem hb)

/-- Plain arrays and tuples of arity ≥ 1: `set_init(n)` panics exactly when `n`
exceeds the total of the iovecs (the documented caller error). -/
theorem C14_set_init_arr_panics_iff (bs : List MBuf) (hne : bs ≠ []) (n : Nat) :
    ((MSlice.arr bs).setInit n).2 = true ↔ sumLens (MSlice.arr bs).iovecsMut < n := by
  rw [C14_set_init_panics_iff, sumLens_arr]
  constructor
  · rintro (h | h)
    · exact absurd h hne
    · exact h
  · intro h; exact Or.inr h

/-! ### C14_limit_never_exceeded -/

/-- What the caller does with a write-side buffer. -/
inductive MOp where
  /-- Call `parts_mut` / `as_iovecs_mut` (and let the kernel write). -/
  | expose
  /-- Call `set_init(n)`. -/
  | init (n : Nat)

/-- Bytes marked initialised by a sequence of calls. -/
def marked : List MOp → Nat
  | [] => 0
  | .expose :: ops => marked ops
  | .init n :: ops => n + marked ops

def MBuf.run : MBuf → List MOp → MBuf
  | b, [] => b
  | b, .expose :: ops => b.run ops
  | b, .init n :: ops => (b.setInit n).run ops

/-- The caller contract of `set_init`: at most the bytes the latest
`parts_mut` exposed. -/
def MBuf.Legal : MBuf → List MOp → Prop
  | _, [] => True
  | b, .expose :: ops => b.Legal ops
  | b, .init n :: ops => n ≤ b.partsMut.len ∧ (b.setInit n).Legal ops

instance MBuf.decLegal : (b : MBuf) → (ops : List MOp) → Decidable (b.Legal ops)
  | _, [] => isTrue trivial
  | b, .expose :: ops => MBuf.decLegal b ops
  | b, .init n :: ops => @instDecidableAnd _ _ (Nat.decLe _ _) (MBuf.decLegal (b.setInit n) ops)

theorem MBuf.Legal_take (b : MBuf) (ops : List MOp) (k : Nat) (h : b.Legal ops) :
    b.Legal (ops.take k) := by
  induction ops generalizing b k with
  | nil => simpa using h
  | cons op ops ih =>
    cases k with
    | zero => trivial
    | succ k =>
      cases op with
      | expose => exact ih b k h
      | init n => exact ⟨h.1, ih _ k h.2⟩

theorem limit_bufmut_end (i : MBuf) (L : Nat) (ops : List MOp)
    (h : (MBuf.limited i L).Legal ops) :
    marked ops + ((MBuf.limited i L).run ops).partsMut.len ≤ L := by
  induction ops generalizing i L with
  | nil =>
    have h1 := asU32_le (min i.partsMut.len L)
    show 0 + asU32 (min i.partsMut.len L) ≤ L
    omega
  | cons op ops ih =>
    cases op with
    | expose => exact ih i L h
    | init n =>
      obtain ⟨h1, h2⟩ := h
      have h3 := asU32_le (min i.partsMut.len L)
      have h4 : n ≤ asU32 (min i.partsMut.len L) := h1
      have := ih (i.setInit n) (L - n) h2
      show n + marked ops + ((MBuf.limited (i.setInit n) (L - n)).run ops).partsMut.len ≤ L
      omega

/-- **A limit is never exceeded (`BufMut`).** Whatever legal sequence of
`parts_mut` / `set_init` calls is made on `LimitedBuf::new(buf, L)`, at every
point of it the bytes marked initialised so far plus the bytes exposed now are
at most `L` — for every inner buffer and every `L`. -/
theorem C14_limit_never_exceeded_bufmut (i : MBuf) (L : Nat) (ops : List MOp)
    (h : (MBuf.limited i L).Legal ops) (k : Nat) :
    marked (ops.take k) + ((MBuf.limited i L).run (ops.take k)).partsMut.len ≤ L :=
  limit_bufmut_end i L _ (MBuf.Legal_take _ ops k h)

def MSlice.run : MSlice → List MOp → MSlice
  | s, [] => s
  | s, .expose :: ops => s.run ops
  | s, .init n :: ops => (s.setInit n).1.run ops

def MSlice.Legal : MSlice → List MOp → Prop
  | _, [] => True
  | s, .expose :: ops => s.Legal ops
  | s, .init n :: ops => n ≤ sumLens s.iovecsMut ∧ (s.setInit n).1.Legal ops

instance MSlice.decLegal : (s : MSlice) → (ops : List MOp) → Decidable (s.Legal ops)
  | _, [] => isTrue trivial
  | s, .expose :: ops => MSlice.decLegal s ops
  | s, .init n :: ops =>
    @instDecidableAnd _ _ (Nat.decLe _ _) (MSlice.decLegal (s.setInit n).1 ops)

theorem MSlice.Legal_take (s : MSlice) (ops : List MOp) (k : Nat) (h : s.Legal ops) :
    s.Legal (ops.take k) := by
  induction ops generalizing s k with
  | nil => simpa using h
  | cons op ops ih =>
    cases k with
    | zero => trivial
    | succ k =>
      cases op with
      | expose => exact ih s k h
      | init n => exact ⟨h.1, ih _ k h.2⟩

/-- A legal `set_init(n)` on a limited slice lowers the limit by exactly `n`. -/
theorem limited_setInit_legal (i : MSlice) (L n : Nat)
    (hn : n ≤ sumLens (MSlice.limited i L).iovecsMut) :
    ((MSlice.limited i L).setInit n).1 = MSlice.limited (i.setInit n).1 (L - n) := by
  simp only [MSlice.setInit]
  split
  · rename_i hp
    have hraw := sumLens_le_raw (MSlice.limited i L)
    have e2 : (MSlice.limited i L).rawTotal = i.rawTotal := rfl
    rcases (C14_set_init_panics_iff i n).mp hp with he | hlt
    · have : i.rawTotal = 0 := by simp [MSlice.rawTotal, he]
      have : n = 0 := by omega
      subst this
      rfl
    · omega
  · rfl

theorem limit_mutslice_end (i : MSlice) (L : Nat) (ops : List MOp)
    (h : (MSlice.limited i L).Legal ops) :
    marked ops + sumLens ((MSlice.limited i L).run ops).iovecsMut ≤ L := by
  induction ops generalizing i L with
  | nil =>
    show 0 + sumLens (clamp i.iovecsMut L) ≤ L
    rw [clamp_sum]; omega
  | cons op ops ih =>
    cases op with
    | expose => exact ih i L h
    | init n =>
      obtain ⟨h1, h2⟩ := h
      have e := limited_setInit_legal i L n h1
      have hle : n ≤ L := by
        have : sumLens (MSlice.limited i L).iovecsMut = min (sumLens i.iovecsMut) L := clamp_sum _ _
        omega
      rw [e] at h2
      have := ih (i.setInit n).1 (L - n) h2
      show n + marked ops + sumLens (((MSlice.limited i L).setInit n).1.run ops).iovecsMut ≤ L
      rw [e]
      omega

/-- **A limit is never exceeded (`BufMutSlice`).** Same statement for
`LimitedBuf` around arrays / tuples / nested wrappers of every arity: marked
so far + total of the iovecs exposed now ≤ `L`, at every point of every legal
call sequence. -/
theorem C14_limit_never_exceeded_mutslice (i : MSlice) (L : Nat) (ops : List MOp)
    (h : (MSlice.limited i L).Legal ops) (k : Nat) :
    marked (ops.take k) + sumLens ((MSlice.limited i L).run (ops.take k)).iovecsMut ≤ L :=
  limit_mutslice_end i L _ (MSlice.Legal_take _ ops k h)

theorem MBuf.exposed_length (b : MBuf) (hwf : b.WF) : b.exposed.length = b.partsMut.len := by
  have hin := C14_inside_bufmut b hwf
  unfold MBuf.exposed
  cases hb : b.leaf with
  | none => rw [hb] at hin; simp [hin.2]
  | some l =>
    rw [hb] at hin
    obtain ⟨_, hlo, hhi⟩ := hin
    simp only [readRegion, List.length_take, List.length_drop]
    omega

/-- What was marked initialised is what the buffer grew by: after any legal
call sequence the buffer holds its old bytes plus `marked ops` more. -/
theorem C14_marked_is_growth (b : MBuf) (hwf : b.WF) (ops : List MOp) (h : b.Legal ops) :
    (b.run ops).content.length = b.content.length + marked ops := by
  induction ops generalizing b with
  | nil => rfl
  | cons op ops ih =>
    cases op with
    | expose => exact ih b hwf h
    | init n =>
      obtain ⟨h1, h2⟩ := h
      obtain ⟨hc, _, hw⟩ := C14_set_init_bufmut b hwf n h1
      have := ih (b.setInit n) hw h2
      have hl := b.exposed_length hwf
      show ((b.setInit n).run ops).content.length = b.content.length + (n + marked ops)
      rw [this, hc, List.length_append, List.length_take]
      omega

/-- Read side: a `LimitedBuf` never exposes or reports more than its limit,
and what it exposes is the front of what the inner buffer exposes. -/
theorem C14_limit_buf (i : RBuf) (l : Nat) :
    (RBuf.limited i l).parts.len ≤ l ∧ (RBuf.limited i l).len ≤ l ∧
    (RBuf.limited i l).exposed = i.exposed.take l := by
  have h1 := asU32_le (min i.parts.len l)
  have hlt := i.parts_len_lt
  have h3 : asU32 (min i.parts.len l) = min i.parts.len l := asU32_of_lt (by omega)
  refine ⟨by show asU32 (min i.parts.len l) ≤ l; omega, Nat.min_le_right _ _, ?_⟩
  unfold RBuf.exposed
  show (match i.leaf with
    | some b => readRegion b.mem { i.parts with len := asU32 (min i.parts.len l) }
    | none => []) = _
  cases i.leaf with
  | none => simp
  | some b =>
    simp only [readRegion, h3, List.take_take]
    rw [Nat.min_comm]

/-- Read side, vectored: the iovecs of a `LimitedBuf` hold at most `limit`
bytes and `total_len` reports at most `limit`. -/
theorem C14_limit_slice (i : RSlice) (l : Nat) :
    sumLens (RSlice.limited i l).iovecs ≤ l ∧ (RSlice.limited i l).totalLen ≤ l := by
  refine ⟨?_, Nat.min_le_right _ _⟩
  show sumLens (clamp i.iovecs l) ≤ l
  rw [clamp_sum]; omega

/-! ### C14_skip, C14_readn, iovec wrappers -/

/-- `SkipBuf { buf, skip }` exposes what `buf` exposes minus its first `skip`
bytes (nothing when `skip` ≥ the length), for every inner buffer and skip. -/
theorem C14_skip (i : RBuf) (n : Nat) :
    (RBuf.skip i n).exposed = i.exposed.drop n ∧
    (RBuf.skip i n).len = i.parts.len - n ∧
    InsideRead (RBuf.skip i n).parts i.leaf := by
  refine ⟨?_, ?_, C14_inside_buf (RBuf.skip i n)⟩
  · unfold RBuf.exposed
    show (match i.leaf with
      | some b => readRegion b.mem (RBuf.skip i n).parts
      | none => []) = _
    cases i.leaf with
    | none => simp
    | some b =>
      simp only [RBuf.parts, readRegion]
      split
      · rename_i h
        simp only [List.take_zero]
        symm
        apply List.drop_eq_nil_of_le
        simp only [List.length_take]
        omega
      · simp only [List.drop_take, List.drop_drop]
  · show (RBuf.skip i n).parts.len = _
    simp only [RBuf.parts]
    split <;> simp <;> omega

/-- `ReadNBuf` forwards every `BufMut` / `BufMutSlice` method unchanged and
records the last `set_init` argument. -/
theorem C14_readn (i : MBuf) (s : MSlice) (k n : Nat) :
    (MBuf.readN i k).partsMut = i.partsMut ∧ (MBuf.readN i k).spare = i.spare ∧
    (MBuf.readN i k).hasSpare = i.hasSpare ∧
    (MBuf.readN i k).setInit n = MBuf.readN (i.setInit n) n ∧
    (MSlice.readN s k).iovecsMut = s.iovecsMut ∧ (MSlice.readN s k).totalSpare = s.totalSpare ∧
    (MSlice.readN s k).hasSpare = s.hasSpare ∧
    (MSlice.readN s k).setInit n = (MSlice.readN (s.setInit n).1 n, (s.setInit n).2) :=
  ⟨rfl, rfl, rfl, rfl, rfl, rfl, rfl, rfl⟩

/-- `IoSlice::set_len` / `IoMutSlice::set_len` within the documented
precondition keep the pointer and designate the front of the old region;
`IoSlice::set_len` beyond it trips the debug assertion. -/
theorem C14_io_set_len (r : Region) (n : Nat) (mem : List Nat) :
    (n ≤ r.len → ∃ r', ioSetLen r n = some r' ∧ r'.blk = r.blk ∧ r'.off = r.off ∧ r'.len = n ∧
      readRegion mem r' = (readRegion mem r).take n) ∧
    (r.len < n → ioSetLen r n = none) := by
  constructor
  · intro h
    refine ⟨{ r with len := n }, by simp [ioSetLen, h], rfl, rfl, rfl, ?_⟩
    simp [readRegion, List.take_take, Nat.min_eq_left h]
  · intro h
    have : ¬ r.len ≥ n := by omega
    simp [ioSetLen, this]

/-- `IoSlice::skip` within its precondition designates the old region minus
its first `n` bytes and ends where the old region ended. -/
theorem C14_io_skip (r : Region) (n : Nat) (mem : List Nat) :
    (n ≤ r.len → ∃ r', ioSkip r n = some r' ∧ r'.blk = r.blk ∧
      r'.off + r'.len = r.off + r.len ∧ r'.len = r.len - n ∧
      readRegion mem r' = (readRegion mem r).drop n) ∧
    (r.len < n → ioSkip r n = none) := by
  constructor
  · intro h
    refine ⟨{ r with off := r.off + n, len := r.len - n }, by simp [ioSkip, h], rfl, ?_, rfl, ?_⟩
    · show r.off + n + (r.len - n) = r.off + r.len
      omega
    · simp [readRegion, List.drop_take, List.drop_drop]
  · intro h
    have : ¬ r.len ≥ n := by omega
    simp [ioSkip, this]

/-! ### `extend_from_slice` -/

theorem MBuf.leaf_mapLeaf (b : MBuf) (f : Base → Base) : (b.mapLeaf f).leaf = b.leaf.map f := by
  induction b with
  | vec b => rfl
  | pool o => rfl
  | limited i l ih => exact ih
  | readN i k ih => exact ih

/-- `BufMut::extend_from_slice(bytes)` on every implementation and wrapper:
copies `min(bytes.len(), exposed)` bytes, returns that count, and afterwards the
buffer holds its old bytes followed by exactly those bytes. -/
theorem C14_extend_bufmut (b : MBuf) (hwf : b.WF) (data : List Nat) :
    (b.extend data).2 = min data.length b.partsMut.len ∧
    (b.extend data).1.content = b.content ++ data.take b.partsMut.len := by
  constructor
  · show (data.take b.partsMut.len).length = _
    simp [List.length_take, Nat.min_comm]
  · show (((b.mapLeaf (fun l => l.writeMem b.partsMut.off (data.take b.partsMut.len))).setInit
        (data.take b.partsMut.len).length)).content = _
    unfold MBuf.content
    rw [MBuf.leaf_setInit, MBuf.leaf_mapLeaf]
    cases hb : b.leaf with
    | none =>
      obtain ⟨_, hz⟩ := b.partsMut_none hb
      simp [hz]
    | some l =>
      obtain ⟨_, hoff⟩ := b.partsMut_at l hb
      have hw : l.len ≤ l.mem.length := by
        have : optAll Base.WF b.leaf := hwf
        rw [hb] at this; exact this
      simp only [Option.map_some, Base.content, Base.setInit, Base.writeMem, hoff]
      have hlen : (List.take l.len l.mem).length = l.len := by
        simp [List.length_take]; omega
      have key : ∀ (A d R : List Nat), List.take (A.length + d.length) (A ++ d ++ R) = A ++ d := by
        intro A d R
        rw [List.append_assoc, List.take_length_add_append,
          List.take_append_of_le_length (Nat.le_refl _), List.take_length]
      have := key (List.take l.len l.mem) (List.take b.partsMut.len data)
        (List.drop (l.len + (List.take b.partsMut.len data).length) l.mem)
      rw [hlen] at this
      exact this

/-! ### The properties as named in the design -/

/-- **C14_inside.** Every pointer/length pair exposed by any of the four
traits lies inside the buffer's own memory. -/
theorem C14_inside :
    (∀ b : RBuf, InsideRead b.parts b.leaf) ∧
    (∀ b : MBuf, b.WF → InsideSpare b.partsMut b.leaf) ∧
    (∀ s : RSlice, All2 InsideRead s.iovecs (s.elems.map (·.leaf))) ∧
    (∀ s : MSlice, s.WF → All2 InsideSpare s.iovecsMut (s.elems.map (·.leaf))) :=
  ⟨C14_inside_buf, C14_inside_bufmut, C14_inside_slice, C14_inside_mutslice⟩

/-- **C14_len_agree.** Reported lengths and spare capacities agree with the
exposed pairs (base buffers shorter than 2^32 bytes; every limit; the vectored
spare total saturates at `u32::MAX`). -/
theorem C14_len_agree :
    (∀ b : RBuf, b.WF → b.Small → b.len = b.parts.len ∧ (b.isEmpty = true ↔ b.parts.len = 0)) ∧
    (∀ b : MBuf, b.spare = b.partsMut.len) ∧
    (∀ b : MBuf, b.WF → b.Small → (b.hasSpare = true ↔ b.partsMut.len ≠ 0)) ∧
    (∀ s : RSlice, s.WF → s.Small →
      s.totalLen = sumLens s.iovecs ∧ (s.isEmpty = true ↔ sumLens s.iovecs = 0)) ∧
    (∀ s : MSlice, s.totalSpare = min (sumLens s.iovecsMut) 4294967295) ∧
    (∀ s : MSlice, s.WF → s.Small → (s.hasSpare = true ↔ sumLens s.iovecsMut ≠ 0)) :=
  ⟨C14_len_agree_buf, C14_len_agree_bufmut_spare, C14_len_agree_bufmut_has, C14_len_agree_slice,
    C14_len_agree_mutslice_spare, C14_len_agree_mutslice_has⟩

/-! ### Non-vacuity: concrete buffers meet the hypotheses -/

/-- `Vec` of capacity 5 holding 2 bytes, limited to 2^32 + 3. -/
def exM : MBuf := .limited (.vec ⟨0, [1, 2, 238, 238, 238], 2⟩) 4294967299

example : exM.WF ∧ exM.Small := by decide
example : exM.partsMut = ⟨some 0, 2, 3⟩ ∧ exM.spare = 3 ∧ exM.hasSpare = true := by decide
example : (exM.setInit 2).content = [1, 2, 238, 238] := by decide
example : exM.Legal [.expose, .init 2, .expose, .init 1] := by decide
example : (exM.extend [7, 8, 9, 10]) = (.limited (.vec ⟨0, [1, 2, 7, 8, 9], 5⟩) 4294967296, 3) := by
  decide

/-- `LimitedBuf<(Vec, LimitedBuf<Vec>, Vec)>` with limit 5: capacities 2, 4
(limited to 1), 3. -/
def exS : MSlice :=
  .limited (.arr [.vec ⟨0, [238, 238], 0⟩, .limited (.vec ⟨1, [9, 238, 238, 238], 1⟩) 1,
    .vec ⟨2, [238, 238, 238], 0⟩]) 5

example : exS.WF ∧ exS.Small ∧ exS.elems ≠ [] := by decide
example : exS.iovecsMut = [⟨some 0, 0, 2⟩, ⟨some 1, 1, 1⟩, ⟨some 2, 0, 2⟩] := by decide
example : exS.totalSpare = 5 ∧ sumLens exS.iovecsMut = 5 := by decide
example : (exS.setInit 4).2 = false ∧
    (exS.setInit 4).1.elems.map (·.content) = [[238, 238], [9, 238], [238]] := by decide
example : exS.Legal [.expose, .init 4, .expose, .init 1] := by decide
example : (exS.setInit 7).2 = true := by decide

/-! ### What the operations hand to the kernel (`parts()` / `buffer_init()`) -/

/-- **A limited buffer never lets the kernel choose.** Whatever is inside —
also a pool `ReadBuf` that has no buffer yet — the submission of a read into a
`LimitedBuf` carries the pointer/length pair of `parts_mut()`, whose length is
at most the limit; only a bare unassigned `ReadBuf` (possibly under `ReadNBuf`)
asks for buffer selection. -/
theorem C14_limited_never_selects (i : MBuf) (l : Nat) :
    (MBuf.limited i l).kparts = .region (MBuf.limited i l).partsMut ∧
    (MBuf.limited i l).partsMut.len ≤ l := by
  refine ⟨rfl, ?_⟩
  show asU32 (min i.partsMut.len l) ≤ l
  exact Nat.le_trans (asU32_le _) (Nat.min_le_right _ _)

/-- The crate private `parts()` agrees with the public `parts_mut()` except
for selection: it is either `select` or exactly that pair. -/
theorem C14_kparts_agree (b : MBuf) : b.kparts = .select ∨ b.kparts = .region b.partsMut := by
  induction b with
  | vec b => exact Or.inr rfl
  | pool o => cases o <;> simp [MBuf.kparts]
  | limited i l _ => exact Or.inr rfl
  | readN i k ih => simpa [MBuf.kparts, MBuf.partsMut] using ih

/-- **A read through a limit stores and appends at most the limit**, for every
inner buffer, limit, pool buffer size and amount of data the kernel has: no
buffer selection, at most `l` (and at most the reported spare capacity) bytes
may be stored, and the count returned — the number of bytes marked
initialised — is at most `l`. -/
theorem C14_limited_read_within_limit (i : MBuf) (l cap : Nat) (data : List Nat) :
    (rdp (.limited i l) cap data).1 = false ∧
    (rdp (.limited i l) cap data).2.1 ≤ l ∧
    (rdp (.limited i l) cap data).2.1 = (MBuf.limited i l).spare ∧
    (rdp (.limited i l) cap data).2.2.1 ≤ l := by
  have h := (C14_limited_never_selects i l).2
  have hs := C14_len_agree_bufmut_spare (.limited i l)
  have hk : (MBuf.limited i l).kparts = .region (MBuf.limited i l).partsMut := rfl
  unfold rdp
  rw [hk]
  exact ⟨rfl, h, hs.symm, Nat.le_trans (Nat.min_le_right _ _) h⟩

/-- An unassigned pool buffer on its own asks for selection and ends up holding
exactly the bytes the kernel delivered (at most one pool buffer). -/
theorem C14_unassigned_selects (cap : Nat) (data : List Nat) :
    (rdp (.pool none) cap data).1 = true ∧
    (rdp (.pool none) cap data).2.2.1 = min data.length cap ∧
    (rdp (.pool none) cap data).2.2.2.content = data.take (min data.length cap) := by
  refine ⟨rfl, rfl, ?_⟩
  simp [rdp, MBuf.kparts, MBuf.bufferInit, MBuf.content, MBuf.leaf, Base.content]

/-- The statements are about something: 4 bytes of limit around an unassigned
buffer of a 64 byte pool with 64 bytes ready — nothing is stored (the pair of
an unassigned `ReadBuf` is `(null, 0)`); around one holding 2 bytes, 4 more. -/
example : rdp (rdpObj 64 [4] none) 64 (List.replicate 64 7) =
    (false, 0, 0, .limited (.pool none) 4) := by decide
example : (rdp (rdpObj 8 [4] (some [1, 2])) 8 [9, 9, 9, 9, 9, 9]).2.2.2.content = [1, 2, 9, 9, 9, 9] := by
  decide
example : (rdp (rdpObj 8 [] none) 8 [9, 9, 9]).2.2.2.content = [9, 9, 9] := by decide

/-- Read side: `LimitedBuf<SkipBuf<Vec>>`, and a tuple with a limit ≥ 2^32. -/
def exR : RBuf := .limited (.skip (.base ⟨0, [1, 2, 3, 4, 5], 5⟩) 2) 18446744073709551615
def exRS : RSlice := .limited (.arr [.base ⟨0, [1, 2], 2⟩, .base ⟨1, [3, 4, 5], 3⟩]) 4294967300

example : exR.WF ∧ exR.Small := by decide
example : exR.parts = ⟨some 0, 2, 3⟩ ∧ exR.len = 3 ∧ exR.exposed = [3, 4, 5] := by decide
example : exRS.WF ∧ exRS.Small := by decide
example : exRS.iovecs = [⟨some 0, 0, 2⟩, ⟨some 1, 0, 3⟩] ∧ exRS.totalLen = 5 := by decide

/-- The defect repaired by the `fix:` commit 0add0ba: `LimitedBuf` compared
the length with `self.limit as u32`. With the limit 2^32 + 3 around 10 bytes it
exposed 3 bytes while `len()` reported 10, and with the limit 2^32 it reported
`has_spare_capacity() = true` with `spare_capacity() = 0`. -/
def limitedPartsLenOld (innerLen limit : Nat) : Nat := min innerLen (asU32 limit)

example : limitedPartsLenOld 10 4294967299 = 3 ∧ min 10 4294967299 = 10 := by decide
example : limitedPartsLenOld 10 4294967296 = 0 ∧ (4294967296 != 0 && true) = true := by decide
example : (RBuf.limited (.base ⟨0, List.replicate 10 7, 10⟩) 4294967299).parts.len = 10 := by
  decide

end A10.Bufs
