/-
C01 — Kernel-shared memory outlives the operation.

Statement (properties.jsonl): every region of user memory an in-flight
operation has handed to the kernel stays allocated at the same address until
the kernel has posted that operation's final completion — no matter when, in
which order or on which thread the Future / AsyncIterator, the AsyncFd, the
SubmissionQueue handles or the Ring are dropped, also for operations that
complete in two steps (zero-copy) or are re-issued after an interruption.

Model. The memory an operation shares with the kernel is (a) the boxed
operation state (`Box<Data>`, whose address is the submission's `user_data`;
`Op.boxLive`) and (b) the resources stored inside it (buffers, iovec arrays,
message headers, out-parameters; `Op.resInit` = initialised and owned by the
state, neither dropped nor moved out to the caller). A Rust `Box` does not
move, so "stays allocated at the same address" is "stays allocated".
`OS.inflight` says the kernel holds a submission of the operation whose
final completion it has not posted yet. The theorems quantify over ALL event
sequences allowed by the kernel contract and the `Future` contract
(`validRun`): polls with any waker and any queue-full outcome, drops at any
point, completions with any result/flags, processing at any time; dropping
the AsyncFd / queue handles / Ring does not touch operation state at all
(`Model/Life.lean`: `rdrop` only consumes, cancels and processes).

The correspondence component `life` ties `Op.poll/update/dropFut` to
`src/io_uring/op.rs`; its oracle checks real addresses with the tracking
allocator under the simulated kernel.
-/
import A10Verif.Lemmas.OpInv
import A10Verif.Lemmas.LifeRefine
import A10Verif.Props.C02

namespace A10.OpSys
open A10

/-- **C01 (main invariant).** In every reachable state, while the kernel holds
an unfinished submission of the operation, the operation state box is
allocated, the resources inside it are initialised and still owned by the
state (never dropped, never moved out to the caller), the operation is
`Running` or `Dropped` (never `Done`/`Complete`/`NotStarted`, the states in
which the caller or `drop_state` may touch the resources), and the builder
setters cannot reach the resources. -/
theorem C01_inv (s : OS) (hr : Reachable s) (hin : s.inflight = true) :
    s.op.boxLive = true ∧ s.op.resInit = true ∧ s.op.resDrops = 0 ∧
    (isRunning s.op.status = true ∨ s.op.status = .dropped) ∧
    s.op.builderAccess = false := by
  have h := reachable_inv hr
  obtain ⟨b1, b2, b3⟩ := h.i1 hin
  refine ⟨b1, b2, h.i8.2.1 b2, ?_, ?_⟩
  · rcases b3 with b3 | ⟨b3, _⟩
    · exact Or.inl b3
    · exact Or.inr b3
  · rcases b3 with b3 | ⟨b3, _⟩
    · cases hst : s.op.status <;> simp_all [isRunning, Op.builderAccess]
    · simp [Op.builderAccess, b3]

/-- **No dereference after free.** `Completion::process` dereferences
`user_data`: every completion still waiting in the completion queue belongs
to an allocated operation state (and its resources are still in place). -/
theorem C01_no_deref_after_free (s : OS) (hr : Reachable s) (hc : s.cq ≠ []) :
    s.op.boxLive = true ∧ s.op.resInit = true := by
  have h := reachable_inv hr
  exact ⟨(h.i2 hc).1, (h.i2 hc).2.1⟩

/-- The state is only ever freed when the kernel holds nothing of the operation
and no completion of it is pending; and it is freed at most once. -/
theorem C01_freed_only_when_quiet (s : OS) (hr : Reachable s) (hb : s.op.boxLive = false) :
    s.inflight = false ∧ s.cq = [] ∧ s.op.frees = 1 := by
  have h := reachable_inv hr
  have hna : ¬ active s.op := by
    intro ha; rcases ha with ha | ⟨_, ha⟩
    · cases hin : s.inflight with
      | true => have := (h.i1 hin).1; rw [hb] at this; exact Bool.noConfusion this
      | false =>
        rcases h.i3 (Or.inl ha) with h3 | h3
        · rw [hin] at h3; exact Bool.noConfusion h3
        · have := (h.i2 h3).1; rw [hb] at this; exact Bool.noConfusion this
    · rw [hb] at ha; exact Bool.noConfusion ha
  obtain ⟨q1, q2⟩ := quiet_of_not_active s h hna
  refine ⟨q1, q2, ?_⟩
  have h4 := h.i4
  have hne : s.op.frees ≠ 0 := fun h0 => by
    have := h4.2.2 h0; rw [hb] at this; exact Bool.noConfusion this
  omega

/-- **Builder setters are frozen once the operation started**
(`resources_mut`/`args_mut`, op.rs:148-180): they reach the state only in
`NotStarted`, so a buffer cannot be replaced or reallocated while the kernel
references it. -/
theorem C01_builder_frozen (o : Op) : o.builderAccess = true ↔ o.status = .notStarted := by
  cases hst : o.status <;> simp [Op.builderAccess, hst]

/-- **Re-issue after an interruption uses the same box and the same
resources.** A poll (including the restart path `Done`+EINTR/ECANCELED →
`NotStarted` → fresh submission) never frees or reallocates the state; when
it publishes a submission the resources are exactly the ones that were
there before (not dropped, not moved, not re-initialised). -/
theorem C01_restart_same_box (o : Op) (w : Nat) (room : Bool) :
    (o.poll w room).1.boxLive = o.boxLive ∧ (o.poll w room).1.frees = o.frees ∧
    ((o.poll w room).2.2.contains .submit = true →
      (o.poll w room).1.resInit = o.resInit ∧ (o.poll w room).1.resDrops = o.resDrops) := by
  obtain ⟨p1, _, p3, _, psub, _⟩ := pollAux_spec o w room 2 (Or.inl (Nat.le_refl 2))
  refine ⟨p1, p3, ?_⟩
  intro hs
  obtain ⟨_, _, q3, q4, _⟩ := psub hs
  exact ⟨q3, q4⟩

/-- **Two-step (zero-copy) operations.** For a dropped operation a completion
that announces more (`F_MORE`, the first of a zero-copy send) changes nothing;
the state is released only by the completion without `F_MORE` (the
notification). -/
theorem C01_zc_two_step (o : Op) (c : Res) (hd : o.status = .dropped) :
    (fMore c.flags = true → o.update c = some (o, [])) ∧
    (fMore c.flags = false → ∃ o', o.update c = some (o', [.free]) ∧ o'.boxLive = false) := by
  cases o with
  | mk multi status waker boxLive resInit futLive frees resDrops =>
  simp at hd; subst hd
  constructor <;> intro hm <;> simp [Op.update, hm]

/-- A running operation is never freed by a completion, final or not: only its
status/result change (the future still owns the box). -/
theorem C01_running_not_freed (o : Op) (c : Res) (hr : isRunning o.status = true) :
    ∃ o' effs, o.update c = some (o', effs) ∧ o'.boxLive = o.boxLive ∧ o'.resInit = o.resInit ∧
      Eff.free ∉ effs := by
  cases o with
  | mk multi status waker boxLive resInit futLive frees resDrops =>
  cases status <;> simp [isRunning] at hr
  cases hm : fMore c.flags <;> cases multi <;> cases waker <;> simp [Op.update, hm] <;>
    exact ⟨_, _, ⟨rfl, rfl⟩, rfl, rfl, by simp⟩

/-- Dropping the future of a running operation frees nothing: the state is only
marked `Dropped` (deferred reclamation). -/
theorem C01_drop_running_defers (o : Op) (room : Bool) (hr : isRunning o.status = true) :
    (o.dropFut room).1.boxLive = o.boxLive ∧ (o.dropFut room).1.resInit = o.resInit ∧
    (o.dropFut room).1.status = .dropped ∧ Eff.free ∉ (o.dropFut room).2 := by
  cases o with
  | mk multi status waker boxLive resInit futLive frees resDrops =>
  cases status <;> simp [isRunning] at hr
  cases room <;> simp [Op.dropFut]

/-! ### Non-vacuity: concrete histories satisfy the hypotheses -/

/-- A zero-copy send dropped between its two completions: valid run, the box is
still allocated while the notification is outstanding, freed after it. -/
example :
    let es := [Ev.poll 1 true, .kpost ⟨7, 2⟩, .dropFut true, .process]
    validRun (init false) es = true ∧ (run (init false) es).inflight = true ∧
    (run (init false) es).op.boxLive = true := by decide

example :
    let es := [Ev.poll 1 true, .kpost ⟨7, 2⟩, .dropFut true, .process, .kpost ⟨0, 8⟩, .process]
    validRun (init false) es = true ∧ (run (init false) es).op.boxLive = false ∧
    (run (init false) es).op.frees = 1 := by decide

/-- Restart after EINTR: same box, resubmitted. -/
example :
    let es := [Ev.poll 1 true, .kpost ⟨-4, 0⟩, .process, .poll 1 true]
    validRun (init false) es = true ∧ (run (init false) es).inflight = true ∧
    (run (init false) es).submits = 2 ∧ (run (init false) es).op.resInit = true := by decide

end A10.OpSys

namespace A10.Life
open A10

/-! ### The same statements for EVERY reachable state of the multi-operation system

`Lemmas/LifeRefine.lean` proves that the projection of any run of `Model/Life.lean` (any number of
concurrent operations sharing the submission and completion queues, any interleaving of polls,
drops, kernel completions, `Ring::poll` calls and the drop of the Ring) on one operation is a run of
the single-operation system above; hence its invariant holds for every operation in every reachable
system state. -/

/-- **C01, system level.** In every reachable state of the multi-operation system, every
operation with a published or consumed submission whose final completion the kernel has not posted
has its state box and its resources in place, is `Running`/`Dropped`, and is out of reach of the
builder setters. -/
theorem C01_system_kernel_memory {s : Sys} (hr : Reachable s) (i : Nat) (o : Op)
    (ho : s.ops[i]? = some o) (href : SqEntry.op i ∈ s.sq ∨ i ∈ s.inflight) :
    o.boxLive = true ∧ o.resInit = true ∧ o.resDrops = 0 ∧
      (OpSys.isRunning o.status = true ∨ o.status = Status.dropped) ∧ o.builderAccess = false :=
  life_kernel_memory hr i o ho href

/-- **No dereference after free, system level.** Every completion in the completion queue or on
the kernel's overflow list that names an operation names an allocated operation state. -/
theorem C01_system_no_deref_after_free {s : Sys} (hr : Reachable s) (c : Cqe)
    (hc : c ∈ s.cq ++ s.overflow) (i : Nat) (hu : c.ud = Ud.op i) (hs : fSkip c.flags = false) :
    i < s.ops.length ∧ ∃ o, s.ops[i]? = some o ∧ o.boxLive = true ∧
      (OpSys.isRunning o.status = true ∨ o.status = Status.dropped) :=
  life_no_deref_after_free hr c hc i hu hs

/-- Started and not dropped: `Running` or `Done`. -/
def held (st : Status) : Bool := OpSys.isRunning st || OpSys.isDone st

theorem foldl_upd1_held (l : List Cqe) : ∀ (o : Op), held o.status = true →
    held (l.foldl upd1 o).status = true ∧ (l.foldl upd1 o).boxLive = o.boxLive ∧
    (l.foldl upd1 o).resInit = o.resInit ∧ (l.foldl upd1 o).frees = o.frees ∧
    (l.foldl upd1 o).resDrops = o.resDrops ∧ (l.foldl upd1 o).futLive = o.futLive := by
  induction l with
  | nil => intro o h; simp [h]
  | cons c l ih =>
    intro o h
    have hu : held (upd1 o c).status = true ∧ (upd1 o c).boxLive = o.boxLive ∧
        (upd1 o c).resInit = o.resInit ∧ (upd1 o c).frees = o.frees ∧
        (upd1 o c).resDrops = o.resDrops ∧ (upd1 o c).futLive = o.futLive := by
      cases o with
      | mk multi status waker boxLive resInit futLive frees resDrops =>
      cases status <;> simp [held, OpSys.isRunning, OpSys.isDone] at h <;>
        cases hm : fMore c.flags <;> cases multi <;> cases waker <;>
        simp [upd1, Op.update, hm, held, OpSys.isRunning, OpSys.isDone]
    obtain ⟨h1, h2, h3, h4, h5, h6⟩ := hu
    obtain ⟨i1, i2, i3, i4, i5, i6⟩ := ih (upd1 o c) h1
    simp only [List.foldl_cons]
    exact ⟨i1, i2.trans h2, i3.trans h3, i4.trans h4, i5.trans h5, i6.trans h6⟩

/-- **No batch of completions releases memory the caller's future still owns.** For an operation
that was started and whose future has not been dropped (`Running` or `Done`), after the completion
loop has processed ANY list of completions — any number, for any operations, in any order, even
completions the kernel's contract would not allow (a second final one, one after `Done`) — its
state allocation and its resources (buffers, paths, addresses) are exactly as allocated as
before, nothing was released, and it is still `Running` or `Done`: only the future's own
poll/drop ever ends the borrow. -/
theorem C01_batch_keeps_held_memory (cs : List Cqe) (s : Sys) (a : Acc) (i : Nat) (o : Op)
    (ho : s.ops[i]? = some o) (hh : held o.status = true) :
    ∃ o', (processAll s a cs).1.ops[i]? = some o' ∧ held o'.status = true ∧
      o'.boxLive = o.boxLive ∧ o'.resInit = o.resInit ∧ o'.frees = o.frees ∧
      o'.resDrops = o.resDrops ∧ o'.futLive = o.futLive := by
  refine ⟨(cs.filter (addressed i)).foldl upd1 o, ?_, foldl_upd1_held _ o hh⟩
  rw [C02_own_completions_only, ho]; rfl

/-- Non-vacuity: a running zero-copy style operation receiving its result, a notification and a
(contract-breaking) third final completion keeps its allocation. -/
example :
    let s : Sys := { ops := [{ multi := false, status := .running (.single ⟨0, 0⟩) }] }
    let cs : List Cqe := [⟨.op 0, 7, 2⟩, ⟨.op 0, 0, 8⟩, ⟨.op 0, 1, 0⟩]
    s.ops.map (fun o => held o.status) = [true] ∧
    ((processAll s {} cs).1.ops.map (fun o => (o.boxLive, o.resInit, o.frees))) = [(true, true, 0)] := by
  decide

/-- `C01_batch_keeps_held_memory` for `drainCq`, the function the `life` driver runs. -/
theorem C01_drain_keeps_held_memory (s : Sys) (a : Acc) (i : Nat) (o : Op)
    (ho : s.ops[i]? = some o) (hh : held o.status = true) :
    ∃ o', (s.drainCq a).1.ops[i]? = some o' ∧ held o'.status = true ∧
      o'.boxLive = o.boxLive ∧ o'.resInit = o.resInit ∧ o'.frees = o.frees ∧
      o'.resDrops = o.resDrops ∧ o'.futLive = o.futLive := by
  rw [drainCq_ops]; exact C01_batch_keeps_held_memory s.cq s a i o ho hh

end A10.Life
