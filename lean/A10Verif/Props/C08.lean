/-
C08 — `ReadBufPool` buffers are conserved and exclusively owned.

At every moment each buffer of a `ReadBufPool` is either offered to the kernel
or owned by exactly one `ReadBuf`, never both and never by two owners, so
bytes held in a `ReadBuf` are never overwritten by a later read. Releasing or
dropping a `ReadBuf` gives back exactly its own buffer exactly once, from any
thread, and once no `ReadBuf` is alive and no operation is in flight the
kernel can again use every buffer of the pool.

The theorems are about every run of the pool machine of `Model/Pool.lean`
(layer A): any interleaving of kernel selections, deliveries, discarded
completions, `ReadBuf` edits and the micro-steps of any number of concurrent
`release` calls, of any length (so the 16-bit tail wraps arbitrarily often),
for every pool size that `ReadBufPool::new` accepts, every buffer size ≥ 1 and
every start value of the ring counters. `C08_sys_reachable` ties the system
model that the correspondence check runs against the real code (layer B) to
that machine.

The last sentence of the property is false for the code as it is:
`C08_full_fails`. What does hold is `C08_partial`.
-/
import A10Verif.Lemmas.PoolInv

namespace A10.Pool

/-! ### The kernel's view is the ghost window -/

theorem Inv.count_real {s : St} (h : Inv s) : (s.tail + 65536 - s.khead) % 65536 = s.gN := by
  have h1 := h.tailEq
  have h2 := h.kheadEq
  have h3 := h.gN_le
  have h4 := h.wf.ps_le
  omega

theorem Inv.availIds_eq {s : St} (h : Inv s) : availIds s = gAvail s := by
  unfold availIds kAvail gAvail
  rw [h.count_real, List.range'_eq_map_range]
  simp only [List.map_map]
  apply List.map_congr_left
  intro k _
  simp only [Function.comp, List.getElem?_toArray]
  rw [h.kheadEq, slot_eq_mod h.wf, add_mod16_mod h.wf]
  rfl

theorem step_ps {s s' : St} (a : Act) (hs : step s a = some s') : s'.ps = s.ps ∧ s'.bs = s.bs := by
  cases a <;> simp only [step] at hs <;> (repeat' split at hs) <;> cases hs <;> exact ⟨rfl, rfl⟩

theorem run_ps {s s' : St} (as : List Act) (hs : run s as = some s') :
    s'.ps = s.ps ∧ s'.bs = s.bs := by
  induction as generalizing s with
  | nil => simp [run] at hs; subst hs; exact ⟨rfl, rfl⟩
  | cons a as ih =>
    unfold run at hs
    cases hst : step s a with
    | none => simp [hst] at hs
    | some s1 =>
      simp only [hst] at hs
      have := step_ps a hst
      have := ih hs
      omega

/-- Reachable states: any interleaving of any actions, from `ReadBufPool::new`. -/
def Reachable (ps bs t0 : Nat) (s : St) : Prop := ∃ acts, run (init ps bs t0) acts = some s

theorem Reachable.inv {ps bs t0 : Nat} {s : St} (hwf : WF ps bs) (hr : Reachable ps bs t0 s) :
    Inv s := by
  obtain ⟨acts, hr⟩ := hr
  exact inv_run acts (inv_init ps bs t0 hwf) hr

theorem Reachable.ps_eq {ps bs t0 : Nat} {s : St} (hr : Reachable ps bs t0 s) :
    s.ps = ps ∧ s.bs = bs := by
  obtain ⟨acts, hr⟩ := hr
  exact run_ps acts hr

/-! ### C08_partition -/

/-- **Conservation and exclusive ownership.** In every reachable state the
ids the kernel can select, the ids in completions not yet turned into a
`ReadBuf`, the buffers the `ReadBuf`s point into, the buffers in the hands of
`release` calls that have not published them yet and the lost ids are,
together, exactly `0, …, pool_size - 1`, each once: no buffer is both offered
to the kernel and owned, none has two owners, none is offered twice. -/
theorem C08_partition (ps bs t0 : Nat) (s : St) (hwf : WF ps bs) (hr : Reachable ps bs t0 s) :
    (availIds s ++ s.inCqe ++ ownedIds s ++ relIds s ++ s.lost).Perm (List.range ps) ∧
    (availIds s ++ s.inCqe ++ ownedIds s ++ relIds s ++ s.lost).Nodup := by
  have h := hr.inv hwf
  have hps := hr.ps_eq.1
  have hp : (availIds s ++ s.inCqe ++ ownedIds s ++ relIds s ++ s.lost).Perm (List.range ps) := by
    rw [List.perm_iff_count]
    intro b
    have := h.cnt b
    unfold cnt5 at this
    rw [h.availIds_eq, count_range, ← hps]
    simp only [List.count_append]
    exact this
  exact ⟨hp, hp.nodup_iff.mpr List.nodup_range⟩

/-- Two different `ReadBuf`s never point into the same buffer, and no
`ReadBuf` points into a buffer the kernel may still select. -/
theorem C08_exclusive (ps bs t0 : Nat) (s : St) (hwf : WF ps bs) (hr : Reachable ps bs t0 s) :
    (ownedIds s).Nodup ∧ (∀ b ∈ ownedIds s, b ∉ availIds s ∧ b ∉ s.inCqe ∧ b < ps) ∧
    (s.owned.map (·.rb)).Nodup := by
  have h := hr.inv hwf
  have hps := hr.ps_eq.1
  refine ⟨?_, ?_, ?_⟩
  · rw [List.nodup_iff_count]
    intro b
    have := h.cnt b
    unfold cnt5 at this
    split at this <;> omega
  · intro b hb
    have hpos : 0 < (ownedIds s).count b := List.count_pos_iff.mpr hb
    have := h.cnt b
    unfold cnt5 at this
    rw [← h.availIds_eq] at this
    have hlt : b < s.ps := by
      by_cases hlt : b < s.ps
      · exact hlt
      · simp [hlt] at this; omega
    simp only [hlt, if_true] at this
    refine ⟨?_, ?_, by omega⟩
    · intro hm
      have := List.count_pos_iff.mpr hm
      omega
    · intro hm
      have := List.count_pos_iff.mpr hm
      omega
  · rw [List.nodup_iff_count]
    exact h.rbU

/-! ### C08_no_overwrite -/

/-- **The kernel writes only into buffers it was offered.** Whenever the
kernel selects a buffer for a read (KC4: the oldest published entry) in a
reachable state, the entry names the address and length of its own id, that
id was the head of the kernel's view, and no `ReadBuf`, no pending
completion and no `release` in progress holds it: the write of the read
(KC6: at most `len` bytes at `off`) lies inside a buffer nobody owns. -/
theorem C08_no_overwrite (ps bs t0 : Nat) (s s' : St) (hwf : WF ps bs)
    (hr : Reachable ps bs t0 s) (hk : step s .kselect = some s') :
    let e := entryAt s.ring (slot s.khead s.ps)
    e.off = e.bid * bs ∧ e.len = bs ∧ e.bid < ps ∧
    availIds s = e.bid :: availIds s' ∧
    e.bid ∉ ownedIds s ∧ e.bid ∉ relIds s ∧ e.bid ∉ s.inCqe ∧ e.bid ∉ s.lost ∧
    s'.gen = bump s.gen e.bid ∧ s'.owned = s.owned := by
  have h := hr.inv hwf
  have h' := inv_step .kselect h hk
  obtain ⟨hps, hbs⟩ := hr.ps_eq
  simp only [step] at hk
  split at hk
  · cases hk
  · rename_i hne
    simp only [Option.some.injEq] at hk
    have hn : 0 < s.gN := h.nonempty_of_ne hne
    have hslot := h.khead_slot
    have hent := h.ent s.gH (Nat.le_refl _) (by omega)
    have hav := gAvail_pos hn
    have hc := h.cnt (entryAt s.ring (s.gH % s.ps)).bid
    have hsel : 0 < (gAvail s).count (entryAt s.ring (s.gH % s.ps)).bid := by
      rw [hav]; simp
    have hlt : (entryAt s.ring (s.gH % s.ps)).bid < s.ps :=
      h.lt_of_count _ (by unfold cnt5; omega)
    unfold cnt5 at hc
    simp only [hlt, if_true] at hc
    have hbpos : 0 < s.bs := by have := h.wf.2; omega
    intro e
    have he : e = entryAt s.ring (s.gH % s.ps) := by show entryAt s.ring _ = _; rw [hslot]
    rw [he]
    refine ⟨by rw [← hbs]; exact hent.1, by rw [← hbs]; exact hent.2, by rw [← hps]; exact hlt,
      ?_, ?_, ?_, ?_, ?_, ?_, ?_⟩
    · rw [h.availIds_eq, h'.availIds_eq, hav]
      subst hk
      rfl
    · intro hm; have := List.count_pos_iff.mpr hm; omega
    · intro hm; have := List.count_pos_iff.mpr hm; omega
    · intro hm; have := List.count_pos_iff.mpr hm; omega
    · intro hm; have := List.count_pos_iff.mpr hm; omega
    · subst hk
      show bump s.gen ((entryAt s.ring (slot s.khead s.ps)).off / s.bs) = _
      rw [hslot, hent.1, Nat.mul_div_cancel _ hbpos]
    · subst hk; rfl

/-- **Bytes held in a `ReadBuf` are never overwritten by a later read.** In
every reachable state, for every `ReadBuf` that owns a buffer: it points at
the start of a buffer of the pool, is no longer than the buffer, and the
kernel has not written into that buffer since the moment it was delivered
(`gen` counts the kernel's writes per buffer, `stamp` is the count at
delivery). -/
theorem C08_owned_intact (ps bs t0 : Nat) (s : St) (hwf : WF ps bs) (hr : Reachable ps bs t0 s) :
    ∀ o ∈ s.owned, o.off = o.off / bs * bs ∧ o.off / bs < ps ∧ o.len ≤ bs ∧
      (s.gen[o.off / bs]?).getD 0 = o.stamp := by
  have h := hr.inv hwf
  obtain ⟨hps, hbs⟩ := hr.ps_eq
  intro o ho
  obtain ⟨h1, h2, h3⟩ := h.own o ho
  have hpos : 0 < (ownedIds s).count (o.off / s.bs) :=
    List.count_pos_iff.mpr (List.mem_map.mpr ⟨o, ho, rfl⟩)
  have hlt : o.off / s.bs < s.ps := h.lt_of_count _ (by unfold cnt5; omega)
  rw [hbs] at h1 h2 h3 hlt
  rw [hps] at hlt
  exact ⟨h1, hlt, h2, h3⟩

/-! ### C08_release_own -/

theorem findTid_append_fresh (l : List Rel) (r : Rel) (h : ∀ x ∈ l, x.tid ≠ r.tid) :
    findTid (l ++ [r]) r.tid = some r ∧ removeTid (l ++ [r]) r.tid = l := by
  induction l with
  | nil => simp [findTid, removeTid]
  | cons x xs ih =>
    have hx : x.tid ≠ r.tid := h x List.mem_cons_self
    have := ih (fun y hy => h y (List.mem_cons_of_mem _ hy))
    simp [findTid, removeTid, hx, this]

theorem findRb_removeRb_none {l : List Owned} {rb : Nat}
    (hu : (l.map (·.rb)).count rb ≤ 1) : findRb (removeRb l rb) rb = none := by
  induction l with
  | nil => simp [removeRb, findRb]
  | cons x xs ih =>
    unfold removeRb
    by_cases hx : x.rb = rb
    · simp only [hx, if_true]
      have hz : (xs.map (·.rb)).count rb = 0 := by
        simp only [List.map_cons, List.count_cons, hx, beq_self_eq_true, if_true] at hu
        omega
      have hnm : ∀ o ∈ xs, o.rb ≠ rb := by
        intro o ho hor
        have : 0 < (xs.map (·.rb)).count rb :=
          List.count_pos_iff.mpr (List.mem_map.mpr ⟨o, ho, hor⟩)
        omega
      clear ih hu hz
      induction xs with
      | nil => rfl
      | cons y ys ih2 =>
        have hy : y.rb ≠ rb := hnm y List.mem_cons_self
        simp only [findRb, hy, if_false]
        exact ih2 (fun o ho => hnm o (List.mem_cons_of_mem _ ho))
    · simp only [hx, if_false, findRb]
      apply ih
      simp only [List.map_cons, List.count_cons, beq_iff_eq, hx, if_false] at hu
      exact hu

/-- **`release` gives back exactly the buffer's own id, exactly once.** In a
reachable state where the lock is free, the six micro-steps of
`ReadBuf::release` / `Drop` for a `ReadBuf` `rb` that owns `o`, run by a
thread `tid` that is not inside another release: all are enabled; the entry
written is `(addr = the ReadBuf's pointer, len = buf_size, bid = pointer
offset / buf_size)` — the id the buffer was delivered with, since the pointer
is `id * buf_size` — in slot `tail & mask`; the tail advances by one (mod
2^16); the kernel's view grows by exactly that id at its end; nothing else
changes; and afterwards the `ReadBuf` owns nothing, so releasing or dropping
it again does nothing (`Option::take`). -/
theorem C08_release_own (ps bs t0 : Nat) (s : St) (rb tid : Nat) (o : Owned) (hwf : WF ps bs)
    (hr : Reachable ps bs t0 s) (hfree : s.holder = none) (ho : findRb s.owned rb = some o)
    (hfresh : ∀ r ∈ s.waiting, r.tid ≠ tid) :
    ∃ s', run s (releaseSeq rb tid) = some s' ∧
      o.off = o.off / bs * bs ∧
      s'.ring = s.ring.set (slot s.tail ps) ⟨o.off, bs, o.off / bs⟩ ∧
      s'.tail = (s.tail + 1) % 65536 ∧
      availIds s' = availIds s ++ [o.off / bs] ∧
      s'.owned = removeRb s.owned rb ∧ findRb s'.owned rb = none ∧
      (∀ t, step s' (.relStart rb t) = none) ∧
      s'.khead = s.khead ∧ s'.inCqe = s.inCqe ∧ s'.lost = s.lost ∧ s'.waiting = s.waiting ∧
      s'.holder = none ∧ s'.gen = s.gen := by
  have h := hr.inv hwf
  obtain ⟨hps, hbs⟩ := hr.ps_eq
  obtain ⟨hom, _⟩ := mem_of_findRb ho
  obtain ⟨ho1, _, _⟩ := h.own o hom
  have hpos : 0 < (ownedIds s).count (o.off / s.bs) :=
    List.count_pos_iff.mpr (List.mem_map.mpr ⟨o, hom, rfl⟩)
  have hlt : o.off / s.bs < s.ps := h.lt_of_count _ (by unfold cnt5; omega)
  have h16 : o.off / s.bs % 65536 = o.off / s.bs := by
    have := h.wf.ps_le
    exact Nat.mod_eq_of_lt (by omega)
  have hft := findTid_append_fresh s.waiting ⟨tid, o.off, o.off / s.bs⟩ hfresh
  have hnone := findRb_removeRb_none (h.rbU rb)
  -- the final state, explicitly
  let s' : St := { s with
    owned := removeRb s.owned rb,
    ring := s.ring.set (slot s.tail s.ps) ⟨o.off, s.bs, o.off / s.bs⟩,
    tail := (s.tail + 1) % 65536, gN := s.gN + 1, holder := none }
  have hrun : run s (releaseSeq rb tid) = some s' := by
    simp only [releaseSeq, run, step, ho, hfree, h16, hft.1, hft.2]
    rfl
  have hinv' : Inv s' := inv_run _ h hrun
  refine ⟨s', hrun, by rw [← hbs]; exact ho1, by rw [← hps, ← hbs], rfl, ?_, rfl, hnone, ?_,
    rfl, rfl, rfl, rfl, rfl, rfl⟩
  · rw [hinv'.availIds_eq, h.availIds_eq]
    show List.map _ (List.range' s.gH (s.gN + 1)) = _
    rw [List.range'_concat, List.map_append]
    have hroom : s.gN < s.ps := by
      have := h.total
      have : 0 < s.owned.length := List.length_pos_of_mem hom
      omega
    have hslot := h.tail_slot
    have hpspos := h.wf.ps_pos
    congr 1
    · apply List.map_congr_left
      intro k hk
      rw [List.mem_range'_1] at hk
      show (entryAt (s.ring.set _ _) (k % s.ps)).bid = _
      rw [entryAt_set_ne]
      rw [hslot]
      exact (mod_ne_of_lt (by omega) (by omega)).symm
    · simp only [List.map_cons, List.map_nil, Nat.one_mul]
      show [(entryAt (s.ring.set _ _) ((s.gH + s.gN) % s.ps)).bid] = _
      rw [← hslot, entryAt_set_self _ _ _ (by rw [hslot, h.ringLen]; exact Nat.mod_lt _ hpspos),
        hbs]
  · intro t
    simp only [step]
    show (match findRb (removeRb s.owned rb) rb with | none => none | some o => _) = none
    rw [hnone]

/-- **`release` never overwrites an entry the kernel has not consumed.** In
every reachable state in which a thread is about to write its ring entry, the
slot `tail & mask` it will write is different from the slot of every published,
unconsumed entry. -/
theorem C08_release_no_overwrite (ps bs t0 : Nat) (s : St) (r : Rel) (t : Nat) (hwf : WF ps bs)
    (hr : Reachable ps bs t0 s) (hh : s.holder = some ⟨r, .loaded, t⟩) :
    t = s.tail ∧
    ∀ k, k < (s.tail + 65536 - s.khead) % 65536 →
      slot ((s.khead + k) % 65536) s.ps ≠ slot t s.ps := by
  have h := hr.inv hwf
  obtain ⟨_, h2, _⟩ := h.hold _ hh
  have ht : t = s.tail := h2 (Or.inl rfl)
  refine ⟨ht, ?_⟩
  intro k hk
  rw [h.count_real] at hk
  have hid : holderIds s = [r.bid] := holderIds_of s _ hh (by simp)
  have hroom : s.gN < s.ps := by
    have := h.total
    unfold relIds at this
    rw [hid] at this
    simp only [List.length_append, List.length_singleton] at this
    omega
  rw [ht, h.tail_slot, slot_eq_mod h.wf, h.kheadEq, add_mod16_mod h.wf]
  exact mod_ne_of_lt (by omega) (by omega)

/-- The ring always has room for every buffer that is out: published entries
plus buffers held anywhere else are exactly `pool_size`
(`tail - khead ≤ pool_size - |owned| - |inCqe|`). -/
theorem C08_release_bound (ps bs t0 : Nat) (s : St) (hwf : WF ps bs) (hr : Reachable ps bs t0 s) :
    (s.tail + 65536 - s.khead) % 65536 + s.inCqe.length + s.owned.length + (relIds s).length
      + s.lost.length = ps := by
  have h := hr.inv hwf
  rw [h.count_real, ← hr.ps_eq.1]
  exact h.total

/-! ### Quiescence: `C08_partial` -/

def isLose : Act → Bool
  | .lose _ => true
  | _ => false

theorem step_lost {s s' : St} (a : Act) (hs : step s a = some s') (ha : isLose a = false) :
    s'.lost = s.lost := by
  cases a <;> simp only [step] at hs <;> (try simp [isLose] at ha) <;> (repeat' split at hs) <;>
    cases hs <;> rfl

theorem run_lost {s s' : St} (as : List Act) (hs : run s as = some s')
    (ha : ∀ a ∈ as, isLose a = false) : s'.lost = s.lost := by
  induction as generalizing s with
  | nil => simp [run] at hs; subst hs; rfl
  | cons a as ih =>
    unfold run at hs
    cases hst : step s a with
    | none => simp [hst] at hs
    | some s1 =>
      simp only [hst] at hs
      rw [ih hs (fun b hb => ha b (List.mem_cons_of_mem _ hb)),
        step_lost a hst (ha a List.mem_cons_self)]

/-- **What holds of the last sentence.** In a run in which no completion
carrying a buffer id is discarded (no `lose` action: every selected buffer
reaches a `ReadBuf`), nothing is ever lost, and once no `ReadBuf` owns a
buffer, no `release` is in progress and no completion is pending, the kernel
can again select every buffer of the pool. -/
theorem C08_partial (ps bs t0 : Nat) (acts : List Act) (s : St) (hwf : WF ps bs)
    (hr : run (init ps bs t0) acts = some s) (hn : ∀ a ∈ acts, isLose a = false) :
    s.lost = [] ∧
    (s.owned = [] → s.waiting = [] → s.holder = none → s.inCqe = [] →
      (availIds s).Perm (List.range ps) ∧ (availIds s).length = ps) := by
  have hl : s.lost = [] := by rw [run_lost acts hr hn]; rfl
  refine ⟨hl, ?_⟩
  intro h1 h2 h3 h4
  have hp := (C08_partition ps bs t0 s hwf ⟨acts, hr⟩).1
  have hrel : relIds s = [] := by unfold relIds holderIds; rw [h2, h3]; rfl
  have hown : ownedIds s = [] := by unfold ownedIds; rw [h1]; rfl
  rw [hl, h4, hown, hrel] at hp
  simp only [List.append_nil] at hp
  exact ⟨hp, by rw [hp.length_eq, List.length_range]⟩

/-- With lost buffers: in a quiescent state the kernel can select exactly the
buffers that were not lost. -/
theorem C08_quiescent (ps bs t0 : Nat) (s : St) (hwf : WF ps bs) (hr : Reachable ps bs t0 s)
    (h1 : s.owned = []) (h2 : s.waiting = []) (h3 : s.holder = none) (h4 : s.inCqe = []) :
    (availIds s ++ s.lost).Perm (List.range ps) := by
  have hp := (C08_partition ps bs t0 s hwf hr).1
  have hrel : relIds s = [] := by unfold relIds holderIds; rw [h2, h3]; rfl
  have hown : ownedIds s = [] := by unfold ownedIds; rw [h1]; rfl
  rw [h4, hown, hrel] at hp
  simpa using hp

/-! ### Non-vacuity -/

theorem wf_4_8 : WF 4 8 := ⟨⟨2, by decide, by decide⟩, by decide⟩
theorem wf_2_8 : WF 2 8 := ⟨⟨1, by decide, by decide⟩, by decide⟩
theorem wf_max : WF 32768 1 := ⟨⟨15, by decide, by decide⟩, by decide⟩

/-- A run with two reads, two `ReadBuf`s released by two threads whose
critical sections are serialised by the lock while a third buffer is selected
in between, starting just below the 16-bit wrap. -/
def demoActs : List Act :=
  [.kselect, .kselect, .deliver 3 0 5, .deliver 2 1 8, .edit 0 2,
   .relStart 0 7, .relStart 1 9, .relLock 9, .relLoad, .kselect, .relWrite, .relStore,
   .relUnlock, .relLock 7, .relLoad, .relWrite, .relStore, .relUnlock, .deliver 0 2 1]

example : (run (init 4 8 65534) demoActs).map (fun s => (s.tail, s.khead, availIds s))
    = some (4, 1, [1, 2, 3]) := by decide

example : (run (init 4 8 65534) demoActs).map (fun s => (ownedIds s, s.inCqe, s.lost))
    = some ([0], [], []) := by decide

example : Reachable 4 8 65534 ((run (init 4 8 65534) demoActs).getD (init 4 8 0)) :=
  ⟨demoActs, by decide⟩

/-- A thread about to write its entry while the kernel's view is not empty
(hypothesis of `C08_release_no_overwrite`). -/
example : (run (init 4 8 65534) (demoActs.take 9)).map (fun s => (s.holder, availIds s))
    = some (some ⟨⟨9, 16, 2⟩, .loaded, 2⟩, [0, 1]) := by decide

/-- Hypotheses of `C08_release_own`: a free lock, an owning `ReadBuf`, nobody waiting. -/
example : (run (init 4 8 65534) (demoActs.take 5)).map
      (fun s => (s.holder, findRb s.owned 0, s.waiting))
    = some (none, some ⟨0, 24, 2, 1⟩, []) := by decide

/-- `C08_partial`'s quiescence hypotheses are met after everything is released. -/
example : (run (init 2 8 0) ([.kselect, .deliver 0 0 8] ++ releaseSeq 0 1)).map
      (fun s => (s.owned, s.waiting, s.holder))
    = some ([], [], none) := by decide

example : (run (init 2 8 0) ([.kselect, .deliver 0 0 8] ++ releaseSeq 0 1)).map
      (fun s => (s.inCqe, availIds s))
    = some ([], [1, 0]) := by decide

/-! ### The system model only ever performs actions of the pool machine -/

theorem run_append (s : St) (as bs : List Act) :
    run s (as ++ bs) = (run s as).bind (fun s' => run s' bs) := by
  induction as generalizing s with
  | nil => simp [run]
  | cons a as ih =>
    simp only [List.cons_append, run]
    cases step s a with
    | none => simp
    | some s1 => simp [ih]

theorem Reachable.step {ps bs t0 : Nat} {s s' : St} {a : Act} (hr : Reachable ps bs t0 s)
    (hs : step s a = some s') : Reachable ps bs t0 s' := by
  obtain ⟨acts, hr⟩ := hr
  refine ⟨acts ++ [a], ?_⟩
  rw [run_append, hr]
  simp [run, hs]

theorem Reachable.act {ps bs t0 : Nat} {s : St} (a : Act) (hr : Reachable ps bs t0 s) :
    Reachable ps bs t0 (s.act a) := by
  unfold St.act
  cases hst : Pool.step s a with
  | none => exact hr
  | some s1 => exact hr.step hst

theorem Reachable.acts {ps bs t0 : Nat} {s : St} (as : List Act) (hr : Reachable ps bs t0 s) :
    Reachable ps bs t0 (s.acts as) := by
  unfold St.acts
  induction as generalizing s with
  | nil => exact hr
  | cons a as ih => exact ih (hr.act a)

theorem Reachable.release {ps bs t0 : Nat} {s : St} (rb tid : Nat) (hr : Reachable ps bs t0 s) :
    Reachable ps bs t0 (s.release rb tid) := hr.acts _

/-- The system state's pool is a reachable state of the pool machine. -/
def SysOk (ps bs t0 : Nat) (s : Sys) : Prop := Reachable ps bs t0 s.pool

theorem ok_loseAll {ps bs t0 : Nat} {s : Sys} (bids : List Nat) (h : SysOk ps bs t0 s) :
    SysOk ps bs t0 (s.loseAll bids) := Reachable.acts _ h

theorem ok_dropResources {ps bs t0 : Nat} {s : Sys} (o : POp) (h : SysOk ps bs t0 s) :
    SysOk ps bs t0 (s.dropResources o) := by
  unfold Sys.dropResources
  split
  · exact h
  · exact Reachable.release _ _ h

@[simp] theorem pool_setOp (s : Sys) (i : Nat) (o : POp) : (s.setOp i o).pool = s.pool := rfl
@[simp] theorem pool_setRb (s : Sys) (j : Nat) (st : RbSt) : (s.setRb j st).pool = s.pool := rfl
theorem pool_loseAll (s : Sys) (b : List Nat) :
    (s.loseAll b).pool = s.pool.acts (b.map .lose) := rfl
theorem pool_dropResources (s : Sys) (o : POp) :
    (s.dropResources o).pool = if o.kind.multi then s.pool else s.pool.release o.rb MAIN := by
  unfold Sys.dropResources; split <;> rfl

macro "reach_tac" h:ident : tactic => `(tactic| (
  repeat (first
    | exact $h
    | apply Reachable.act
    | apply Reachable.acts
    | apply Reachable.release)))

macro "sys_tac" h:ident : tactic => `(tactic| (
  (repeat' split) <;>
  (simp only [SysOk, pool_setOp, pool_setRb, pool_loseAll, pool_dropResources,
    apply_ite Sys.pool] at $h:ident ⊢) <;>
  (repeat' split) <;> reach_tac $h))

theorem ok_poll {ps bs t0 : Nat} {s : Sys} (i : Nat) (h : SysOk ps bs t0 s) :
    SysOk ps bs t0 (s.poll i).1 := by
  unfold Sys.poll
  sys_tac h

theorem ok_dropOp {ps bs t0 : Nat} {s : Sys} (i : Nat) (h : SysOk ps bs t0 s) :
    SysOk ps bs t0 (s.dropOp i).1 := by
  unfold Sys.dropOp
  sys_tac h

theorem ok_kpost {ps bs t0 : Nat} {s : Sys} (i : Nat) (res : Int) (more buf : Bool)
    (h : SysOk ps bs t0 s) : SysOk ps bs t0 (s.kpost i res more buf).1 := by
  unfold Sys.kpost
  repeat' split
  all_goals (simp only [SysOk] at h ⊢)
  all_goals (repeat' split)
  all_goals first
    | exact h
    | (apply Reachable.step h; assumption)

theorem foldl_pool_eq {α : Type} (f : Sys → α → Sys) (hf : ∀ s a, (f s a).pool = s.pool)
    (l : List α) (s : Sys) : (l.foldl f s).pool = s.pool := by
  induction l generalizing s with
  | nil => rfl
  | cons a as ih => simp only [List.foldl_cons]; rw [ih, hf]

theorem pool_consumeAll (s : Sys) : s.consumeAll.pool = s.pool := by
  unfold Sys.consumeAll
  show (List.foldl _ s s.sq).pool = s.pool
  apply foldl_pool_eq
  intro s e
  cases e with
  | op i => rfl
  | cancel i => simp only []; split <;> rfl

theorem ok_process {ps bs t0 : Nat} (acc : Sys × List Nat) (c : Cqe)
    (h : SysOk ps bs t0 acc.1) : SysOk ps bs t0 (Sys.process acc c).1 := by
  obtain ⟨s, frees⟩ := acc
  simp only [Sys.process]
  simp only [] at h
  sys_tac h

theorem ok_foldl_process {ps bs t0 : Nat} (l : List Cqe) (acc : Sys × List Nat)
    (h : SysOk ps bs t0 acc.1) : SysOk ps bs t0 (l.foldl Sys.process acc).1 := by
  induction l generalizing acc with
  | nil => exact h
  | cons c cs ih => exact ih _ (ok_process acc c h)

theorem ok_rpoll {ps bs t0 : Nat} {s : Sys} (h : SysOk ps bs t0 s) :
    SysOk ps bs t0 s.rpoll.1 := by
  unfold Sys.rpoll
  simp only []
  split
  · show SysOk ps bs t0 { (List.foldl Sys.process (s.consumeAll, []) s.consumeAll.cq).1 with cq := [] }
    apply ok_foldl_process (ps := ps) (bs := bs) (t0 := t0)
    show Reachable ps bs t0 s.consumeAll.pool
    rw [pool_consumeAll]; exact h
  · exact ok_foldl_process (ps := ps) (bs := bs) (t0 := t0) s.cq (s, []) h

theorem ok_edit {ps bs t0 : Nat} {s : Sys} (j : Nat) (e : Edit) (h : SysOk ps bs t0 s) :
    SysOk ps bs t0 (s.edit j e).1 := by
  unfold Sys.edit
  sys_tac h

theorem ok_releaseRb {ps bs t0 : Nat} {s : Sys} (j : Nat) (d : Bool) (h : SysOk ps bs t0 s) :
    SysOk ps bs t0 (s.releaseRb j d).1 := by
  unfold Sys.releaseRb
  sys_tac h

theorem ok_prel {ps bs t0 : Nat} {s : Sys} (js : List Nat) (h : SysOk ps bs t0 s) :
    SysOk ps bs t0 (s.prel js).1 := by
  unfold Sys.prel
  sys_tac h

theorem reach_foldl_crit {ps bs t0 : Nat} (bids : List Nat) (p : St) (h : Reachable ps bs t0 p) :
    Reachable ps bs t0 (bids.foldl (fun (p : St) b =>
      match p.waiting.find? (fun r => r.bid = b) with
      | some r => p.acts (critSeq r.tid)
      | none => p) p) := by
  induction bids generalizing p with
  | nil => exact h
  | cons b bs ih =>
    simp only [List.foldl_cons]
    apply ih
    split
    · exact h.acts _
    · exact h

theorem ok_order {ps bs t0 : Nat} {s : Sys} (bids : List Nat) (h : SysOk ps bs t0 s) :
    SysOk ps bs t0 (s.order bids).1 := by
  unfold Sys.order
  split
  · exact h
  · simp only []
    split
    · exact h
    · exact reach_foldl_crit bids s.pool h

theorem reach_cycleLoop {ps bs t0 : Nat} (n j ok nobufs last : Nat) (p : St)
    (h : Reachable ps bs t0 p) : Reachable ps bs t0 (cycleLoop p n j ok nobufs last).1 := by
  induction n generalizing p ok nobufs last with
  | zero => exact h
  | succ n ih =>
    unfold cycleLoop
    split
    · exact ih _ _ _ _ h
    · rename_i p1 hk
      apply ih
      exact ((h.step hk).act _).release _ _

theorem ok_cycle {ps bs t0 : Nat} {s : Sys} (n : Nat) (h : SysOk ps bs t0 s) :
    SysOk ps bs t0 (s.cycle n).1 := by
  unfold Sys.cycle
  split
  · exact h
  · exact reach_cycleLoop n _ 0 0 0 s.pool h

theorem ok_foldl {ps bs t0 : Nat} {α : Type} (f : Sys → α → Sys)
    (hf : ∀ s a, SysOk ps bs t0 s → SysOk ps bs t0 (f s a)) (l : List α) (s : Sys)
    (h : SysOk ps bs t0 s) : SysOk ps bs t0 (l.foldl f s) := by
  induction l generalizing s with
  | nil => exact h
  | cons a as ih => exact ih _ (hf s a h)

theorem ok_finish {ps bs t0 : Nat} {s : Sys} (h : SysOk ps bs t0 s) :
    SysOk ps bs t0 s.finish.1 := by
  unfold Sys.finish
  simp only []
  apply ok_foldl
  · intro s j hs
    split
    · exact ok_releaseRb j true hs
    · exact hs
  · apply ok_rpoll
    show SysOk ps bs t0 { (_ : Sys) with cq := _, inflight := [] }
    show Reachable ps bs t0 (Sys.rpoll (Sys.rpoll _).1).1.pool
    apply ok_rpoll
    apply ok_rpoll
    apply ok_foldl
    · intro s i hs
      split
      · split
        · exact ok_dropOp i hs
        · exact hs
      · exact hs
    · exact h

theorem sysStep_eq (s : Sys) (op : SOp) :
    sysStep s op = sysCore s op ∨ sysStep s op = (s, ["bad-op"]) := by
  unfold sysStep
  split
  · exact Or.inr rfl
  · exact Or.inl rfl

theorem ok_sysCore {ps bs t0 : Nat} {s : Sys} (op : SOp) (h : SysOk ps bs t0 s) :
    SysOk ps bs t0 (sysCore s op).1 := by
  cases op with
  | get => exact h
  | new i k rb =>
    simp only [sysCore]
    repeat' split
    all_goals exact h
  | poll i => exact ok_poll i h
  | drop i => exact ok_dropOp i h
  | kpost i res more buf => exact ok_kpost i res more buf h
  | rpoll => exact ok_rpoll h
  | edit j e => exact ok_edit j e h
  | release j => exact ok_releaseRb j false h
  | rbdrop j => exact ok_releaseRb j true h
  | prel js => exact ok_prel js h
  | order bids => exact ok_order bids h
  | cycle n => exact ok_cycle n h
  | ring => exact h
  | finish => exact ok_finish h

theorem ok_sysStep {ps bs t0 : Nat} {s : Sys} (op : SOp) (h : SysOk ps bs t0 s) :
    SysOk ps bs t0 (sysStep s op).1 := by
  cases sysStep_eq s op with
  | inl e => rw [e]; exact ok_sysCore op h
  | inr e => rw [e]; exact h

/-- **The correspondence runs inside the theorems.** Whatever script of
operations the system model (the model the harness compares the real code
with, step by step) executes, its pool is a reachable state of the pool
machine: every change the system makes to the buffer ring, to the `ReadBuf`s'
buffers and to the pending ids is one of the machine's actions. So
`C08_partition`, `C08_no_overwrite`, `C08_owned_intact` and
`C08_release_bound` hold after every op of every script. -/
theorem C08_sys_reachable (ps bs t0 : Nat) (script : List SOp) :
    Reachable ps bs t0 (runSys (initSys ps bs t0) script).pool := by
  have h0 : SysOk ps bs t0 (initSys ps bs t0) := ⟨[], rfl⟩
  generalize initSys ps bs t0 = s at h0
  induction script generalizing s with
  | nil => exact h0
  | cons op ops ih =>
    unfold runSys
    exact ih _ (ok_sysStep op h0)

/-- Conservation and exclusive ownership after every op of every script of the
system model (corollary of `C08_sys_reachable` and `C08_partition`). -/
theorem C08_sys_partition (ps bs t0 : Nat) (script : List SOp) (hwf : WF ps bs) :
    let p := (runSys (initSys ps bs t0) script).pool
    (availIds p ++ p.inCqe ++ ownedIds p ++ relIds p ++ p.lost).Perm (List.range ps) :=
  (C08_partition ps bs t0 _ hwf (C08_sys_reachable ps bs t0 script)).1

/-! ### The full statement and why it fails -/

/-- No `ReadBuf` is alive, no release is in progress, no completion is pending
anywhere, nothing is queued or in flight and every future has been dropped. -/
def Quiescent (s : Sys) : Prop :=
  s.pool.owned = [] ∧ s.pool.waiting = [] ∧ s.pool.holder = none ∧ s.pool.inCqe = [] ∧
  s.sq = [] ∧ s.inflight = [] ∧ s.cq = [] ∧ ∀ po ∈ s.ops, po.op.futLive = false

instance (s : Sys) : Decidable (Quiescent s) := by unfold Quiescent; infer_instance

/-- **The full statement**: for every script of reads, receives, multishot
reads, edits, releases and drops, once nothing is alive and nothing is in
flight, the kernel can again use every buffer of the pool. -/
def C08_full : Prop :=
  ∀ (ps bs t0 : Nat) (script : List SOp), WF ps bs →
    Quiescent (runSys (initSys ps bs t0) script) →
    (availIds (runSys (initSys ps bs t0) script).pool).Perm (List.range ps)

/-- F11: a pool-backed read is submitted, its future is dropped while it is in
flight, the read then completes with a buffer: `Shared::update` in status
`Dropped` (op.rs:300-309) ignores the buffer id. -/
def lostAfterDrop : List SOp :=
  [.get, .new 0 .read 0, .poll 0, .rpoll, .drop 0, .kpost 0 8 false true, .rpoll, .rpoll]

/-- The sibling: a multishot read has two results queued (processed, not yet
polled) when the iterator is dropped; the queued results are dropped with the
status (op.rs:194-196, 243-261). -/
def lostUnpolled : List SOp :=
  [.new 0 .mread 0, .poll 0, .rpoll, .kpost 0 8 true true, .kpost 0 3 false true, .rpoll,
   .drop 0, .rpoll]

example : (runSys (initSys 2 8 0) lostAfterDrop).pool.lost = [0] := by decide
example : Quiescent (runSys (initSys 2 8 0) lostAfterDrop) := by decide
example : availIds (runSys (initSys 2 8 0) lostAfterDrop).pool = [1] := by decide
example : (runSys (initSys 4 8 0) lostUnpolled).pool.lost = [0, 1] := by decide
example : Quiescent (runSys (initSys 4 8 0) lostUnpolled) := by decide
example : availIds (runSys (initSys 4 8 0) lostUnpolled).pool = [2, 3] := by decide

/-- **The code as it is violates the full statement.** After `lostAfterDrop`
on a pool of two buffers everything is quiescent and the kernel can select
only buffer 1: buffer 0 is gone for as long as the pool lives. -/
theorem C08_full_fails : ¬ C08_full := by
  intro h
  have hp := h 2 8 0 lostAfterDrop wf_2_8 (by decide)
  have hl := hp.length_eq
  revert hl
  decide

/-- The same for the system model: a script after which nothing is lost ends,
when quiescent, with every buffer available again; and the lost ids are
exactly what is missing (`C08_quiescent`). -/
theorem C08_sys_partial (ps bs t0 : Nat) (script : List SOp) (hwf : WF ps bs)
    (hq : Quiescent (runSys (initSys ps bs t0) script)) :
    let p := (runSys (initSys ps bs t0) script).pool
    (availIds p ++ p.lost).Perm (List.range ps) ∧
    (p.lost = [] → (availIds p).Perm (List.range ps)) := by
  intro p
  obtain ⟨h1, h2, h3, h4, _⟩ := hq
  have hq := C08_quiescent ps bs t0 p hwf (C08_sys_reachable ps bs t0 script) h1 h2 h3 h4
  refine ⟨hq, ?_⟩
  intro hl
  rw [hl] at hq
  simpa using hq

/-! ### The ring tail shares its memory with `resv` of the first ring entry

`io_uring_buf_ring`: the 16-bit tail is the `resv` field of entry 0. In the model the tail is a
separate word that only `relStore` writes — faithful since fix ddd8274, where the entry write for
slot 0 carries the current tail in `resv`. Before, `release` wrote `resv: 0`: between `relWrite` and
`relStore` of a release into slot 0 the tail word read 0. The kernel selects whenever
`tail ≠ head` (`kselect`; probed on the real kernel by `a10h kc`). -/

/-- The entry write of the old code: for slot 0 it also zeroes the tail word. -/
def stepOldWrite (s : St) : Act → Option St
  | .relWrite =>
    match s.holder with
    | some ⟨r, .loaded, t⟩ =>
      some { s with ring := s.ring.set (slot t s.ps) ⟨r.off, s.bs, r.bid⟩,
                    holder := some ⟨r, .written, t⟩,
                    tail := if slot t s.ps = 0 then 0 else s.tail }
    | _ => none
  | a => step s a

def runOldWrite (s : St) : List Act → Option St
  | [] => some s
  | a :: as => match stepOldWrite s a with
    | none => none
    | some s' => runOldWrite s' as

/-- Two buffers, both handed out to `ReadBuf`s 0 and 1 (tail = head = 2); `ReadBuf` 0 is being
released, parked between its entry write and its tail store. -/
def resvRun : List Act :=
  [.kselect, .deliver 0 0 3, .kselect, .deliver 1 1 3, .relStart 0 7, .relLock 7, .relLoad, .relWrite]

/-- With the old entry write the kernel can select twice at that moment and is handed buffer 1,
which `ReadBuf` 1 still owns (two owners); with the real one (`step`) the ring is empty for the
kernel until `relStore`: `kselect` is not enabled. -/
theorem C08_resv_zero_hands_out_owned_buffer :
    (∃ s, runOldWrite (init 2 8 0) (resvRun ++ [.kselect, .kselect]) = some s ∧
      s.inCqe = [0, 1] ∧ ownedIds s = [1]) ∧
    (∃ s, run (init 2 8 0) resvRun = some s ∧ s.tail = s.khead ∧ step s .kselect = none ∧
      ownedIds s = [1]) := by
  refine ⟨⟨_, rfl, by decide, by decide⟩, ⟨_, rfl, by decide, by decide, by decide⟩⟩

/-! ### Buffer group ids: a failed creation touches no live pool -/

/-- **A creation the kernel refuses changes nothing on the ring**: no group is registered and
none is unregistered (the half-built pool has no `Drop` to run). -/
theorem C08_failed_creation_keeps_registry (r : Reg) (c m : Nat)
    (h : (newPool r c m).2.2 = none) : (newPool r c m).1 = r := by
  unfold newPool Reg.register at *
  by_cases hm : c % m ∈ r.live
  · simp [hm]
  · simp [hm] at h

/-- Dropping a pool unregisters its own group and no other. -/
theorem C08_drop_unregisters_only_own (r : Reg) (id a : Nat) (h : a ≠ id) :
    a ∈ (r.unregister id).live ↔ a ∈ r.live := by
  unfold Reg.unregister
  exact List.mem_erase_of_ne h

/-- **A live pool survives any amount of pool creation and destruction on its ring** —
including the creation that is handed its own id after the 16-bit counter wrapped: for every
counter value, modulus and number of rounds, a group that is registered stays registered. -/
theorem C08_churn_keeps_live_pool (m a : Nat) (fuel : Nat) :
    ∀ (r : Reg) (c k : Nat), a ∈ r.live → a ∈ (churn r c m fuel k).1.live := by
  induction fuel with
  | zero => intro r c k h; exact h
  | succ fuel ih =>
    intro r c k h
    unfold churn newPool Reg.register
    by_cases hm : c % m ∈ r.live
    · simp [hm, h]
    · simp only [hm, ↓reduceIte]
      apply ih
      have hne : a ≠ c % m := fun e => hm (e ▸ h)
      exact (C08_drop_unregisters_only_own _ _ _ hne).2 (List.mem_cons_of_mem _ h)

/-- With an 8-value counter: 7 creations succeed, the 8th is refused, the first pool is still
registered (the line `pool idwrap` prints, for the real modulus, is computed the same way). -/
example : idwrapLine 8 = "idwrap created=7 collided=1 errno=EEXIST live=1 read=ok" := by decide

/-- What the red-team change C08j did — build the pool value first, so that `Drop`
(unregister the id) also runs when registration failed — removes the LIVE pool's group. -/
example :
    let r : Reg := { live := [5] }
    (newPool r 5 65536).2.2 = none ∧ (r.unregister 5).live = [] := by decide

end A10.Pool
