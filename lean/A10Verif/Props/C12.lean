/-
C12 — Teardown in any order is safe and releases everything.

Statement (properties.jsonl): dropping the Ring with operations queued, in
flight, abandoned or finished submits the queued clean-up requests, cancels
what is still running, reclaims every abandoned operation's state and unmaps
exactly the memory it mapped. SubmissionQueue clones, AsyncFds, pending
operations, ReadBufPools and ReadBufs may be dropped before or after the Ring
in any order without crashing, touching unmapped memory, or leaving their
descriptors, registrations or allocations behind. Quantifier: all permutations
of dropping {Ring, queue clones, AsyncFds, pending/abandoned operations, pools,
pool buffers} and all states those objects are in at that moment.

Model: `A10Verif/Model/Teardown.lean` (tied to src/lib.rs, src/io_uring/{mod,
cq,sq,fd,io,op}.rs by the `teardown` correspondence component). A script is
any list of `Step`s — creating operations, polling them, kernel completions,
`Ring::poll`, and the drop of any object at any point — from any population
(`Cfg`: queue sizes, number of clones and descriptors, which descriptors are
DIRECT descriptors and the size of the ring's registered-file table, pool or
not; no bound on any of them). All theorems quantify over every population and every script;
the invariants they rest on are proved by induction over the script in
`Lemmas/TeardownInv.lean` (operations and their tokens — single-shot, multishot
and zero-copy —, owners, regular descriptors, ledger) and
`Lemmas/TeardownSlot.lean` (the slots of the registered-file table).
-/
import A10Verif.Lemmas.TeardownSlot

set_option linter.unusedSimpArgs false

namespace A10.Teardown
open A10 A10.OpSys

/-! ### The invariant holds along every script -/

structure Inv (s : St) : Prop where
  d : InvD s
  a : InvA s.toObjs
  c : InvC s
  b : InvB s
  l : InvL s
  p : s.panicked = false

theorem inv_init (c : Cfg) (hc : 1 ≤ c.cq) : Inv (init c) := by
  refine ⟨⟨?_, ?_, fun _ => trivial, ?_, hc⟩, ⟨⟨?_, ?_, rfl, rfl, rfl, rfl, rfl⟩, ?_, ?_⟩, ⟨?_, ?_⟩,
    ⟨⟨rfl, ?_, ?_⟩, ?_⟩,
    ⟨fun _ t ht => by simp [init] at ht, fun _ t ht => by simp [init] at ht⟩, rfl⟩
  · intro t ht; simp [init] at ht
  · intro _ i; simp [init, tokQ, want]
  · intro hr; simp [init] at hr
  · intro hs; simp [init] at hs
  · intro hp
    have hp' : c.pool = false := hp
    simp [init, poolRefs, hp']
  · intro hh
    simp [init, handles] at hh
  · intro hr
    cases hp : c.pool with
    | false => simp [init, hp]
    | true => simp [init, poolRefs, hp] at hr
  · simp [init]
  · intro k hk
    have hk' : k < c.fds := by simpa [init] using hk
    cases hd : c.direct.getD k false <;>
      simp [init, List.getD_eq_getElem?_getD, hk'] <;>
      simp [List.getD_eq_getElem?_getD] at hd <;> simp [hd]
  · cases hp : c.pool <;> simp [init, poolLog, hp]
  · intro hh; exact hh
  · intro hs; simp [init] at hs

theorem inv_step (s : St) (e : Step) (h : Inv s) : Inv (step s e) :=
  ⟨invD_step s e h.d, invA_step s e h.a h.d.ok, invC_step s e h.c, invB_step s e h.b h.a,
   invL_step s e h.l h.d, step_np s e h.d h.p⟩

theorem inv_run (s : St) (es : List Step) (h : Inv s) : Inv (run s es) := by
  induction es generalizing s with
  | nil => exact h
  | cons e es ih => exact ih _ (inv_step s e h)

/-- States reachable by a script from a population whose completion queue has
at least one entry (`io_uring_setup` never grants less). -/
def Reach (s : St) : Prop := ∃ (c : Cfg) (es : List Step), 1 ≤ c.cq ∧ s = run (init c) es

theorem reach_inv (s : St) (h : Reach s) : Inv s := by
  obtain ⟨c, es, hc, rfl⟩ := h
  exact inv_run _ es (inv_init c hc)

theorem reach_step (s : St) (e : Step) (h : Reach s) : Reach (step s e) := by
  obtain ⟨c, es, hc, rfl⟩ := h
  refine ⟨c, es ++ [e], hc, ?_⟩
  have : ∀ (s0 : St) (l : List Step), run s0 (l ++ [e]) = step (run s0 l) e := by
    intro s0 l
    induction l generalizing s0 with
    | nil => rfl
    | cons x xs ih => simp [run, ih]
  rw [this]

/-! ### The slot invariant holds along every script -/

theorem replicate_getD_zero (n j : Nat) : (List.replicate n 0).getD j 0 = 0 := by
  rw [List.getD_eq_getElem?_getD]
  cases hg : (List.replicate n 0)[j]? with
  | none => rfl
  | some b =>
    have := List.mem_of_getElem? hg
    simp at this
    rw [this.2]; rfl

theorem invS_init (c : Cfg) (hd : c.directOk) : InvS (init c) := by
  obtain ⟨hd1, hd2⟩ := hd
  have hdir : ∀ j, c.direct.getD j false = true → j < c.direct.length := by
    intro j hj
    cases hlt : decide (j < c.direct.length) with
    | true => simpa using hlt
    | false =>
      have : c.direct.length ≤ j := by simpa using hlt
      rw [List.getD_eq_getElem?_getD, List.getElem?_eq_none this] at hj
      simp at hj
  refine ⟨?_, ?_, ?_, ?_, rfl, ?_⟩
  · simp [init]; omega
  · simpa [init] using hd1
  · intro j hj
    have := hdir j hj
    simp [init]; omega
  · intro j
    show (List.replicate c.dtab 0).getD j 0 + ([] : List SqEntry).count _
      + b2n ((List.replicate c.fds true).getD j false && c.direct.getD j false) = b2n (c.direct.getD j false)
    rw [replicate_getD_zero]
    cases hj : c.direct.getD j false with
    | false => simp
    | true =>
      have h1 := hdir j hj
      have h2 : j < c.fds := by omega
      simp [List.getD_eq_getElem?_getD, h2]
  · intro j
    show (c.direct ++ List.replicate (c.dtab - c.direct.length) false).getD j false
        = (c.direct.getD j false && ((List.replicate c.dtab 0).getD j 0 == 0))
    by_cases hl : j < c.direct.length
    · have h2 : j < c.dtab := by omega
      simp [List.getD_eq_getElem?_getD, List.getElem?_append_left hl, h2]
    · have hge : c.direct.length ≤ j := Nat.le_of_not_lt hl
      have h0 : c.direct.getD j false = false := by
        rw [List.getD_eq_getElem?_getD, List.getElem?_eq_none hge]; rfl
      rw [h0]
      simp only [List.getD_eq_getElem?_getD, List.getElem?_append_right hge, Bool.false_and]
      cases hg : (List.replicate (c.dtab - c.direct.length) false)[j - c.direct.length]? with
      | none => rfl
      | some b =>
        have := List.mem_of_getElem? hg
        simp at this
        rw [this.2]; rfl

theorem invS_run (s : St) (es : List Step) (h : InvS s) : InvS (run s es) := by
  induction es generalizing s with
  | nil => exact h
  | cons e es ih => exact ih _ (invS_step s e h)

/-! ### The theorems -/

/-- **No step reads or writes a ring mapping after its `munmap`, or uses the
ring descriptor after its `close`.** Every access a10 makes to the SQ ring, the
SQE array or the ring descriptor (`useSq`: `Submissions::add`, `Shared::enter`,
`Shared::register`, `Drop for Shared`) and to the CQ ring (`useCq`:
`Completions::poll`, `Completions::drop`) is counted in `bad` when the mapping
is gone; it stays 0 along every script. -/
theorem C12_no_unmapped_access (c : Cfg) (hc : 1 ≤ c.cq) (es : List Step) :
    (run (init c) es).bad = 0 :=
  (inv_run _ es (inv_init c hc)).a.bad

/-- The reason: the mappings live exactly as long as their owners. The CQ ring
is mapped iff the `Ring` exists; the SQ ring, the SQE array and the ring
descriptor exist iff at least one holder of `Shared` exists (the Ring, a
clone, an `AsyncFd`, the pool, a future owning a `SubmissionQueue`). -/
theorem C12_mapped_while_held (c : Cfg) (hc : 1 ≤ c.cq) (es : List Step) :
    let s := run (init c) es
    s.cqMapped = s.ringLive ∧ s.sqMapped = s.sharedLive ∧ s.sqesMapped = s.sharedLive ∧
    s.ringFdOpen = s.sharedLive ∧ (s.sharedLive = true ↔ 0 < handles s.toObjs) := by
  intro s
  have h := (inv_run _ es (inv_init c hc)).a
  refine ⟨h.m4, h.m1, h.m2, h.m3, ⟨fun hs => ?_, fun hp => shared_of_handles _ h.toInvA' hp⟩⟩
  cases hz : handles s.toObjs with
  | zero => have := h.a1 hz; rw [hs] at this; exact absurd this (by simp)
  | succ n => omega

/-- **The three `munmap`s are exactly the three `mmap`s, the ring descriptor is
closed last, once.** At every point of every script the ring part of the
ledger is determined by what is alive: nothing while the Ring exists; the CQ
ring once the Ring is gone; then, when the last holder goes, the SQE array, the
SQ ring and finally the descriptor. (Each `munmap` passes the pointer and
length stored by the `mmap`, cq.rs:161-173, mod.rs:281-296.) -/
theorem C12_unmap_exact (c : Cfg) (hc : 1 ≤ c.cq) (es : List Step) :
    let s := run (init c) es
    ringLog s.log =
      if s.ringLive then []
      else if s.sharedLive then [LEv.munmap .cq]
      else [LEv.munmap .cq, LEv.munmap .sqes, LEv.munmap .sq, LEv.closeRing] :=
  (inv_run _ es (inv_init c hc)).b.log.ring

/-- **The pool unregisters its group and frees its two allocations once, after
the last `ReadBuf` / operation referencing it**: it exists exactly while
something references it, its part of the ledger is empty while it exists and
`[unregister, free, free]` afterwards, and the unregistration is made on a
live ring descriptor. -/
theorem C12_pool (c : Cfg) (hc : 1 ≤ c.cq) (es : List Step) :
    let s := run (init c) es
    (s.poolLive = true ↔ 0 < poolRefs s.toObjs) ∧
    poolLog s.log = (if s.poolLive || !s.hadPool then []
      else [LEv.unregister, LEv.poolFree, LEv.poolFree]) ∧
    (s.poolLive = true → s.sharedLive = true ∧ s.ringFdOpen = true) := by
  intro s
  have h := inv_run _ es (inv_init c hc)
  refine ⟨⟨fun hp => ?_, fun hp => pool_of_refs _ h.a.toInvA' hp⟩, h.b.log.pool, fun hp => ?_⟩
  · cases hz : poolRefs s.toObjs with
    | zero => have := h.a.a3 hz; rw [hp] at this; exact absurd this (by simp)
    | succ n => omega
  · have hs := shared_of_handles _ h.a.toInvA' (handles_pos_of_pool _ hp)
    exact ⟨hs, by rw [h.a.m3]; exact hs⟩

/-- **Every regular descriptor is closed exactly once.** At every point: close
requests executed + CLOSE entries still queued + (1 if the `AsyncFd` still
exists) = 1. And no `close(2)` / CLOSE-by-number is ever made with the number of
a DIRECT descriptor (it would hit an unrelated regular descriptor). -/
theorem C12_fd_closed_once (c : Cfg) (hc : 1 ≤ c.cq) (es : List Step) :
    let s := run (init c) es
    (∀ k, k < s.fdLive.length → s.fdDir.getD k false = false →
      s.fdCloses.getD k 0 + s.sq.count (SqEntry.close k) + b2n (s.fdLive.getD k false) = 1) ∧
    (∀ k, k < s.fdLive.length → s.fdDir.getD k false = true →
      s.fdCloses.getD k 0 = 0 ∧ s.sq.count (SqEntry.close k) = 0) := by
  intro s
  have h := (inv_run _ es (inv_init c hc)).c.eq
  refine ⟨fun k hk hd => ?_, fun k hk hd => ?_⟩
  · have := h k hk
    rw [hd] at this
    simpa using this
  · have := h k hk
    rw [hd] at this
    simp at this
    exact this

/-- **Every slot of the registered-file table that holds a direct descriptor is
released exactly once, by its own `AsyncFd`; no other slot is ever touched.** At
every point of every script, per slot `j`: release requests executed (a CLOSE
with `file_index = j + 1` consumed by the kernel, or the synchronous
`FILES_UPDATE(offset j, -1)` of the queue-full fallback) + such CLOSE entries
still queued + (1 if a live direct `AsyncFd` has index `j`) = 1 if slot `j`
belongs to a direct descriptor of the population, = 0 otherwise (so every
request targets the index of the `AsyncFd` that made it); `file_index = 0` is
never used; and the kernel's table holds a file in slot `j` exactly while a
live owner or one queued CLOSE stands for it (the table lives as long as the
ring descriptor: nothing relies on its destruction). -/
theorem C12_direct_slot_released_once (c : Cfg) (hd : c.directOk) (es : List Step) :
    let s := run (init c) es
    (∀ j, s.fdDir.getD j false = true →
      s.slotRel.getD j 0 + s.sq.count (SqEntry.closeIdx (j + 1)) + b2n (s.fdLive.getD j false) = 1) ∧
    (∀ j, s.fdDir.getD j false = false →
      s.slotRel.getD j 0 = 0 ∧ s.sq.count (SqEntry.closeIdx (j + 1)) = 0) ∧
    s.sq.count (SqEntry.closeIdx 0) = 0 ∧
    (∀ j, s.slotReg.getD j false = true ↔
      s.fdDir.getD j false = true ∧
        s.sq.count (SqEntry.closeIdx (j + 1)) + b2n (s.fdLive.getD j false) = 1) := by
  intro s
  have h : InvS s := invS_run _ es (invS_init c hd)
  clear_value s
  refine ⟨fun j hj => ?_, fun j hj => ?_, h.zero, fun j => ?_⟩
  · have := h.eq j
    rw [hj] at this
    simpa using this
  · have := h.eq j
    rw [hj] at this
    simp at this
    exact this
  · have he := h.eq j
    rw [h.reg j]
    cases hj : s.fdDir.getD j false with
    | false => simp
    | true =>
      rw [hj] at he
      simp only [Bool.and_true, b2n_true] at he
      simp only [Bool.true_and, beq_iff_eq, true_and]
      omega

/-- **The synchronous fallback is only ever issued on an open ring descriptor,
for the `AsyncFd`'s own registered slot.** Whenever a direct `AsyncFd` exists —
in particular at the moment its drop finds the submission queue full and calls
`io_uring_register(FILES_UPDATE)` — the ring descriptor is open (and the SQ
mappings its drop touches first are mapped), its index lies inside the table
and the table still holds its file there; this holds before and after the
Ring's drop alike. -/
theorem C12_direct_owner_sees_live_ring (c : Cfg) (hc : 1 ≤ c.cq) (hd : c.directOk) (es : List Step)
    (k : Nat) :
    let s := run (init c) es
    s.fdLive[k]? = some true → s.fdDir.getD k false = true →
      s.ringFdOpen = true ∧ s.sqMapped = true ∧ s.sqesMapped = true ∧
      k < s.slotReg.length ∧ s.slotReg.getD k false = true ∧ s.slotRel.getD k 0 = 0 := by
  intro s
  have h : Inv s := inv_run _ es (inv_init c hc)
  have hs : InvS s := invS_run _ es (invS_init c hd)
  clear_value s
  intro hl hk
  have hsl := shared_of_handles _ h.a.toInvA' (handles_pos_of_fd _ k hl)
  have hkt : s.fdLive.getD k false = true := by rw [List.getD_eq_getElem?_getD, hl]; rfl
  have he := hs.eq k
  rw [hk, hkt] at he
  simp only [Bool.and_true, b2n_true] at he
  have h0 : s.slotRel.getD k 0 = 0 := by omega
  refine ⟨by rw [h.a.m3]; exact hsl, by rw [h.a.m1]; exact hsl, by rw [h.a.m2]; exact hsl,
    by rw [← hs.rlen]; exact hs.tab k hk, ?_, h0⟩
  rw [hs.reg k, hk, h0]; rfl

/-- **The synchronous fallback releases exactly the owner's slot**: dropping a
live, unborrowed direct `AsyncFd` `k` while the submission queue is full is one
`FILES_UPDATE(offset k, -1)`: afterwards slot `k` is empty and counts one
release, every other slot is as before, nothing is queued. -/
theorem C12_direct_sync_fallback_exact (s : St) (k : Nat) (hl : s.fdLive[k]? = some true)
    (hb : fdBorrowed s k = false) (hk : fdDir s k = true) (hfull : s.sqRoom = false)
    (hin : k < s.slotReg.length) (hrl : s.slotRel.length = s.slotReg.length) :
    let s' := core s (.dropDfd k)
    s'.sq = s.sq ∧ s'.slotReg.getD k false = false ∧ s'.slotRel.getD k 0 = s.slotRel.getD k 0 + 1 ∧
    (∀ j, j ≠ k → s'.slotReg.getD j false = s.slotReg.getD j false ∧
      s'.slotRel.getD j 0 = s.slotRel.getD j 0) ∧
    s'.fdCloses = s.fdCloses := by
  intro s'
  have hroom : ({ s.useSq with fdLive := s.fdLive.set k false } : St).sqRoom = false := hfull
  have hs' : s' = (({ s.useSq with fdLive := s.fdLive.set k false } : St).useSq.releaseSlot k).emit
      s!"register files-update slot{k} {if k < s.slotReg.length then "ok" else "EINVAL"}" := by
    show s.dropDfd k = _
    unfold St.dropDfd
    rw [if_pos (by simp [hl, hb, hk])]
    simp only []
    rw [if_neg (by rw [hroom]; simp)]
  obtain ⟨_, _, r3⟩ := releaseSlot_slot
    ({ s.useSq with fdLive := s.fdLive.set k false } : St).useSq k hrl
  have hkl : k < s.slotRel.length := by rw [hrl]; exact hin
  rw [hs']
  refine ⟨rfl, ?_, ?_, fun j hj => ⟨?_, ?_⟩, rfl⟩
  · rw [emit_slotReg, (r3 k).2]
    have : decide (k = k ∧ k < s.slotRel.length) = true := by simpa using hkl
    show (_ && !decide (k = k ∧ k < s.slotRel.length)) = false
    rw [this]; simp
  · rw [emit_slotRel, (r3 k).1]
    show s.slotRel.getD k 0 + (if k = k ∧ k < s.slotRel.length then 1 else 0) = _
    simp [hkl]
  · rw [emit_slotReg, (r3 j).2]
    have : decide (k = j ∧ j < s.slotRel.length) = false := by
      simp; intro e; exact absurd e.symm hj
    show (s.slotReg.getD j false && !decide (k = j ∧ j < s.slotRel.length)) = _
    rw [this]; simp
  · rw [emit_slotRel, (r3 j).1]
    show s.slotRel.getD j 0 + (if k = j ∧ j < s.slotRel.length then 1 else 0) = _
    have : ¬ (k = j ∧ j < s.slotRel.length) := fun e => hj e.1.symm
    simp [this]

/-- **No operation state is freed twice or while its future exists.** -/
theorem C12_state_freed_at_most_once (c : Cfg) (hc : 1 ≤ c.cq) (es : List Step) :
    ∀ t ∈ (run (init c) es).ops,
      t.op.frees ≤ 1 ∧ (t.op.boxLive = true ↔ t.op.frees = 0) ∧
      (t.op.futLive = true → t.op.boxLive = true) := by
  intro t ht
  have h := (inv_run _ es (inv_init c hc)).d.ok t ht
  exact ⟨h.f1, h.f2, fun hf => (h.l1 hf).1⟩

/-- **No crash while processing completions**: every completion `Ring::poll` or
the Ring's drop processes belongs to an existing operation that is `Running`
or was dropped while running and is not yet reclaimed — the `unreachable!()`
arms of `Shared::update` (op.rs:310) are never taken, no freed state box is
dereferenced. -/
theorem C12_no_panic (c : Cfg) (hc : 1 ≤ c.cq) (es : List Step) :
    (run (init c) es).panicked = false :=
  (inv_run _ es (inv_init c hc)).p

/-- **Dropping the Ring** — whatever is queued, in flight, abandoned or finished,
and however many completions sit on the overflow list — submits everything
queued, finalises everything in flight and processes every completion: no
operation is owed anything afterwards (abandoned states are reclaimed, running
ones are `Done`), all queues are empty. -/
theorem C12_ring_drop_reclaims (s : St) (hr : Reach s) (hl : s.ringLive = true) :
    let s' := step s .dropRing
    (∀ t ∈ s'.ops, activeB t.op = false) ∧
    s'.sq = [] ∧ s'.inflight = [] ∧ s'.cq = [] ∧ s'.overflow = [] ∧ s'.ringLive = false := by
  intro s'
  have h := reach_inv s hr
  have t0 : TokEq s.useSq.useCq := tokEq_of_eq s _ ⟨h.d.ok, h.d.tok hl, h.d.suf hl⟩ rfl rfl
  obtain ⟨t1, e1, e2, e3, e4⟩ := cqDrop_spec s.useSq.useCq t0 h.d.cq1
  -- the state after the call itself
  have hcore : core s .dropRing = { s.useSq.useCq.cqDrop with
      ringLive := false, cqMapped := false,
      log := s.useSq.useCq.cqDrop.log ++ [LEv.munmap .cq],
      out := s.useSq.useCq.cqDrop.out ++
        [s!"cqhead={s.useSq.useCq.cqDrop.cqHead} lost={s.useSq.useCq.cqDrop.overflow.length}",
         "munmap cq"] } := by
    simp [core, St.dropRing, hl]
  have hsq : (core s .dropRing).sq = [] := by rw [hcore]; exact e3
  have hq : ∀ i, tokQ (core s .dropRing).toQueues i = 0 := by
    intro i; rw [hcore]; simp [tokQ, e1, e2, e3, e4]
  obtain ⟨f1, f2, _, f4⟩ := settle_frameD (core s .dropRing)
  have hd' := invD_step s .dropRing h.d
  have hb' := invB_step s .dropRing h.b h.a
  have hrl : s'.ringLive = false := by
    show (core s .dropRing).settle.ringLive = false
    rw [f2, hcore]
  refine ⟨fun t ht => ?_, ?_, ?_, ?_, ?_, hrl⟩
  · -- nobody is owed anything
    obtain ⟨i, hi⟩ := List.getElem?_of_mem ht
    have hi' : (core s .dropRing).ops[i]? = some t := by
      have : s'.ops = (core s .dropRing).ops := f1
      rw [← this]; exact hi
    have hw : want (core s .dropRing).ops i = 0 := by
      have := t1.2.1 i
      rw [hcore]
      show want s.useSq.useCq.cqDrop.ops i = 0
      rw [← this]; simp [tokQ, e1, e2, e3, e4]
    rw [want_of_getElem? _ _ _ hi'] at hw
    cases ha : activeB t.op with
    | false => rfl
    | true => rw [ha] at hw; simp at hw
  all_goals
    -- the queues stay empty through the final `settle`
    have hsettle : ∀ (x : St), x.sq = [] → x.settle.sq = [] ∧ x.settle.inflight = x.inflight ∧
        x.settle.cq = x.cq ∧ x.settle.overflow = x.overflow := by
      intro x hx
      unfold St.settle St.settleShared
      have hp : x.settlePool.toQueues = x.toQueues := settlePool_queues x
      have hp1 : x.settlePool.sq = x.sq := congrArg Queues.sq hp
      have hp2 : x.settlePool.inflight = x.inflight := congrArg Queues.inflight hp
      have hp3 : x.settlePool.cq = x.cq := congrArg Queues.cq hp
      have hp4 : x.settlePool.overflow = x.overflow := congrArg Queues.overflow hp
      split
      · have he : x.settlePool.useSq.sq.isEmpty = true := by
          show x.settlePool.sq.isEmpty = true
          rw [hp1, hx]; rfl
        refine ⟨sharedDrop_sq _, ?_, ?_, ?_⟩ <;>
          (unfold St.sharedDrop; simp only [he, if_true]) <;> simp [St.emit, St.useSq, hp2, hp3, hp4]
      · exact ⟨by rw [hp1, hx], hp2, hp3, hp4⟩
    obtain ⟨g1, g2, g3, g4⟩ := hsettle (core s .dropRing) hsq
  · exact g1
  · show (core s .dropRing).settle.inflight = []
    rw [g2, hcore]; exact e4
  · show (core s .dropRing).settle.cq = []
    rw [g3, hcore]; exact e1
  · show (core s .dropRing).settle.overflow = []
    rw [g4, hcore]; exact e2

/-! ### The full ledger after the last drop -/

/-- Every object of the population has been dropped. -/
def allDropped (s : St) : Prop :=
  s.ringLive = false ∧ (∀ c ∈ s.clones, c = false) ∧ (∀ f ∈ s.fdLive, f = false) ∧
  s.poolHandle = false ∧ (∀ b ∈ s.bufs, b = false) ∧ (∀ t ∈ s.ops, t.op.futLive = false)

instance (s : St) : Decidable (allDropped s) := by unfold allDropped; infer_instance

/-- Nothing is left behind: the three mappings are unmapped (exactly once each,
in the order CQ ring, SQE array, SQ ring), the ring descriptor is closed (once,
last), every queued clean-up request was submitted, every regular descriptor
was closed exactly once, every slot of the registered-file table that held a
direct descriptor was released exactly once (and no regular close was made
with its number), no other slot was touched, the table was EMPTY when the ring
descriptor — with which the kernel destroys it — was closed ("left behind" for a
direct descriptor = its slot still holds the file at that moment or, before
it, while neither an owner nor a queued CLOSE stands for it), the pool's group
is unregistered and its two allocations freed (once), every operation state box
was freed exactly once. -/
def ledgerEmpty (s : St) : Prop :=
  s.cqMapped = false ∧ s.sqesMapped = false ∧ s.sqMapped = false ∧ s.ringFdOpen = false ∧
  ringLog s.log = [LEv.munmap .cq, LEv.munmap .sqes, LEv.munmap .sq, LEv.closeRing] ∧
  s.sq = [] ∧
  (∀ k, k < s.fdLive.length → s.fdDir.getD k false = false → s.fdCloses.getD k 0 = 1) ∧
  (∀ k, s.fdDir.getD k false = true → s.slotRel.getD k 0 = 1 ∧ s.fdCloses.getD k 0 = 0) ∧
  (∀ j, s.fdDir.getD j false = false → s.slotRel.getD j 0 = 0) ∧
  (∀ j, s.slotReg.getD j false = false) ∧
  s.poolLive = false ∧
  poolLog s.log = (if s.hadPool then [LEv.unregister, LEv.poolFree, LEv.poolFree] else []) ∧
  (∀ t ∈ s.ops, t.op.boxLive = false ∧ t.op.frees = 1)

/-- No operation was (re)submitted after the Ring had been dropped. -/
def noLate (s : St) : Prop := ∀ t ∈ s.ops, t.late = false

instance (s : St) : Decidable (noLate s) := by unfold noLate; infer_instance

/-- The full statement: for every population, every script (= every order of
drops, every state of the objects at that moment), once everything is dropped
the ledger is empty. -/
def C12_full : Prop :=
  ∀ (c : Cfg) (es : List Step), 1 ≤ c.cq → c.directOk →
    allDropped (run (init c) es) → ledgerEmpty (run (init c) es)

theorem count_true_eq_zero (l : List Bool) (h : ∀ b ∈ l, b = false) : l.count true = 0 :=
  List.count_eq_zero.mpr (fun hm => by have := h true hm; simp at this)

/-- **The full ledger, with the one exception named as a hypothesis.** For every
population, every script: if everything has been dropped and no operation was
(re)submitted after the Ring had been dropped, nothing is left behind. -/
theorem C12_partial (c : Cfg) (hc : 1 ≤ c.cq) (hdo : c.directOk) (es : List Step)
    (hall : allDropped (run (init c) es)) (hnl : noLate (run (init c) es)) :
    ledgerEmpty (run (init c) es) := by
  have h := inv_run _ es (inv_init c hc)
  have hS := invS_run _ es (invS_init c hdo)
  generalize run (init c) es = s at h hS hall hnl
  obtain ⟨hr, hcl, hfd, hph, hbu, hop⟩ := hall
  -- every operation state has been freed
  have hbox : ∀ t ∈ s.ops, t.op.boxLive = false ∧ t.op.frees = 1 := by
    intro t ht
    have ok := h.d.ok t ht
    have hfl := hop t ht
    have hbl : t.op.boxLive = false := by
      cases hb : t.op.boxLive with
      | false => rfl
      | true =>
        rcases ok.l2 hfl with hd | hd
        · obtain ⟨i, hi⟩ := List.getElem?_of_mem ht
          have := h.d.late hr i t hi (by simp [activeB, hd, hb, isDropped])
          rw [hnl t ht] at this; exact absurd this (by simp)
        · rw [hb] at hd; exact absurd hd (by simp)
    refine ⟨hbl, ?_⟩
    have := ok.f1
    have h0 : t.op.frees ≠ 0 := fun h0 => by
      have := ok.f2.mpr h0; rw [hbl] at this; exact absurd this (by simp)
    omega
  -- nothing references the pool
  have hrefs : poolRefs s.toObjs = 0 := by
    have h1 : s.bufs.count true = 0 := count_true_eq_zero _ hbu
    have h2 : s.ops.countP (fun t => t.kind.pool && t.op.resInit) = 0 := by
      rw [List.countP_eq_zero]
      intro t ht
      have := (h.d.ok t ht).r2 (hbox t ht).1
      simp [this]
    simp [poolRefs, hph, h1, h2]
  have hpl : s.poolLive = false := h.a.a3 hrefs
  -- nobody holds `Shared`
  have hh : handles s.toObjs = 0 := by
    have h1 : s.clones.count true = 0 := count_true_eq_zero _ hcl
    have h2 : s.fdLive.count true = 0 := count_true_eq_zero _ hfd
    have h3 : s.ops.countP (fun t => t.kind == .unlink && t.op.futLive) = 0 := by
      rw [List.countP_eq_zero]
      intro t ht
      simp [hop t ht]
    simp [handles, hr, hpl, h1, h2, h3]
  have hsl : s.sharedLive = false := h.a.a1 hh
  have hsq := h.b.sq hsl
  have hdead : ∀ k, s.fdLive.getD k false = false := by
    intro k
    rw [List.getD_eq_getElem?_getD]
    cases hg : s.fdLive[k]? with
    | none => rfl
    | some b => exact hfd b (List.mem_of_getElem? hg)
  have hrel : ∀ j, s.slotRel.getD j 0 = b2n (s.fdDir.getD j false) := by
    intro j
    have := hS.eq j
    rw [hsq, hdead j] at this
    simpa using this
  refine ⟨by rw [h.a.m4, hr], by rw [h.a.m2, hsl], by rw [h.a.m1, hsl], by rw [h.a.m3, hsl], ?_,
    hsq, ?_, ?_, ?_, ?_, hpl, ?_, hbox⟩
  · have := h.b.log.ring
    rw [hr, hsl] at this; simpa using this
  · intro k hk hd
    have := h.c.eq k hk
    rw [hsq, hdead k, hd] at this; simpa using this
  · intro k hd
    have hk : k < s.fdLive.length := by
      have : k < s.fdDir.length := by
        cases hlt : decide (k < s.fdDir.length) with
        | true => simpa using hlt
        | false =>
          have hge : s.fdDir.length ≤ k := by simpa using hlt
          rw [List.getD_eq_getElem?_getD, List.getElem?_eq_none hge] at hd
          simp at hd
      exact Nat.lt_of_lt_of_le this hS.dlen
    have := h.c.eq k hk
    rw [hsq, hdead k, hd] at this
    refine ⟨by rw [hrel k, hd]; rfl, ?_⟩
    simpa using this
  · intro j hd
    rw [hrel j, hd]; rfl
  · intro j
    rw [hS.reg j, hrel j]
    cases s.fdDir.getD j false <;> rfl
  · have := h.b.log.pool
    rw [hpl] at this
    cases hh : s.hadPool <;> simpa [hh] using this

/-- The counterexample population and script: one descriptor, one read. The
Ring is dropped, then the read is polled for the first time (it is submitted:
the queue has room), its future is dropped while `Running`, then the
`AsyncFd` — the last holder — is dropped. -/
def lateCfg : Cfg := { sq := 2, cq := 2, fds := 1 }
def lateScript : List Step :=
  [.newOp 0 .read 0, .dropRing, .poll 0 7, .dropOp 0, .dropFd 0]

/-- **The full statement fails on the code as it is**: an operation first
submitted after the Ring was dropped, whose future is dropped while `Running`,
leaks its state box — nobody processes completions any more. (Everything else
of the ledger is released even here.) -/
theorem C12_full_fails : ¬ C12_full := by
  intro h
  have hl := h lateCfg lateScript (by decide) (by decide) (by decide)
  obtain ⟨_, _, _, _, _, _, _, _, _, _, _, _, this⟩ := hl
  revert this
  decide

/-- **The exception is exactly that case.** An operation that was (re)submitted
after the Ring had been dropped is owed a completion nobody will ever process:
once its future is dropped its state box stays allocated for good. -/
theorem C12_late_leaks (c : Cfg) (hc : 1 ≤ c.cq) (es : List Step)
    (hall : allDropped (run (init c) es)) :
    ∀ t ∈ (run (init c) es).ops, t.late = true → t.op.boxLive = true ∧ t.op.frees = 0 := by
  have h := inv_run _ es (inv_init c hc)
  generalize run (init c) es = s at h hall
  intro t ht hl
  have ha := h.l.act hall.1 t ht hl
  have ok := h.d.ok t ht
  have hfl := hall.2.2.2.2.2 t ht
  have hnr : isRunning t.op.status = false := by
    cases hr : isRunning t.op.status with
    | false => rfl
    | true => have := ok.rn hr; rw [hfl] at this; exact absurd this (by simp)
  have hb : t.op.boxLive = true := by
    simp only [activeB, hnr, Bool.false_or, Bool.and_eq_true] at ha
    exact ha.2
  exact ⟨hb, ok.f2.mp hb⟩

/-- After the last drop the ledger is empty **if and only if** no operation was
(re)submitted after the Ring had been dropped. -/
theorem C12_exact (c : Cfg) (hc : 1 ≤ c.cq) (hdo : c.directOk) (es : List Step)
    (hall : allDropped (run (init c) es)) :
    ledgerEmpty (run (init c) es) ↔ noLate (run (init c) es) := by
  constructor
  · intro hl t ht
    cases hlate : t.late with
    | false => rfl
    | true =>
      have := (C12_late_leaks c hc es hall t ht hlate).1
      obtain ⟨_, _, _, _, _, _, _, _, _, _, _, _, hbox⟩ := hl
      rw [(hbox t ht).1] at this
      exact absurd this (by simp)
  · exact C12_partial c hc hdo es hall

/-! ### Non-vacuity -/

/-- A population with everything: two clones, two descriptors, a pool. Four
operations of all kinds reach every status (complete with a `ReadBuf` handed
out, abandoned in flight, done-unpolled, never polled); the Ring is dropped
first, then every other object in an order that makes the pool's shared part
(through the last `ReadBuf`) the last holder. Everything is dropped, nothing
was submitted late — the hypotheses of `C12_partial` — and the ledger is
empty. -/
def demoCfg : Cfg := { sq := 2, cq := 2, clones := 2, fds := 2, pool := true }
def demoScript : List Step :=
  [.newOp 0 .pread 0, .newOp 1 .read 1, .newOp 2 .unlink 0, .newOp 3 .write 1,
   .poll 0 1, .poll 1 2, .rpoll [], .kpost 0 5, .rpoll [], .poll 0 1,   -- op0 complete, buf 0
   .poll 2 3, .dropOp 1,                                               -- op1 abandoned in flight
   .dropRing,
   .dropOp 3, .dropFd 1, .dropClone 0, .dropOp 0, .dropPool, .dropFd 0, .dropOp 2, .dropClone 1,
   .dropBuf 0]

set_option maxRecDepth 8192 in
example : 1 ≤ demoCfg.cq ∧ allDropped (run (init demoCfg) demoScript) ∧
    noLate (run (init demoCfg) demoScript) := by decide

set_option maxRecDepth 8192 in
example : (run (init demoCfg) demoScript).ops.map (fun t => t.op.frees) = [1, 1, 1, 1] ∧
    (run (init demoCfg) demoScript).fdCloses = [1, 1] ∧
    (run (init demoCfg) demoScript).log =
      [.munmap .cq, .unregister, .poolFree, .poolFree, .munmap .sqes, .munmap .sq, .closeRing] := by
  decide

/-- A population with direct descriptors: descriptor 0 is regular, 1-3 are
direct (slots 1-3 of a table of 5), the submission queue has ONE entry. One
direct `AsyncFd` is dropped before the Ring while the queue is full (the
synchronous `FILES_UPDATE`), one after the Ring with room (CLOSE with
`file_index = 3` queued, submitted when the last holder goes), one after the
Ring with the queue full (synchronous release on the still-open ring
descriptor); the regular descriptor goes last, through `close(2)`. Everything is
dropped, nothing was submitted late, `directOk` holds: the hypotheses of
`C12_partial`, `C12_direct_slot_released_once`. Each owned slot counts one
release, slots 0 and 4 none, the table is empty. -/
def directCfg : Cfg := { sq := 1, cq := 2, fds := 4, direct := [false, true, true, true], dtab := 5 }
def directScript : List Step :=
  [.newOp 0 .read 0, .poll 0 1,        -- the queue is full
   .dropDfd 1,                         -- sync fallback, the Ring exists
   .dropRing,                          -- flushes, cancels op0
   .dropDfd 2,                         -- queued CLOSE, file_index 3
   .dropDfd 3,                         -- queue full again: sync fallback after the Ring
   .dropOp 0, .dropFd 0]               -- last holder: `Drop for Shared` submits the CLOSE

set_option maxRecDepth 8192 in
example : 1 ≤ directCfg.cq ∧ directCfg.directOk ∧ allDropped (run (init directCfg) directScript) ∧
    noLate (run (init directCfg) directScript) := by decide

set_option maxRecDepth 8192 in
example : (run (init directCfg) directScript).slotRel = [0, 1, 1, 1, 0] ∧
    (run (init directCfg) directScript).slotReg = [false, false, false, false, false] ∧
    (run (init directCfg) directScript).fdCloses = [1, 0, 0, 0] ∧
    (run (init directCfg) directScript).bad = 0 ∧
    (run (init directCfg) directScript).log = [.munmap .cq, .munmap .sqes, .munmap .sq, .closeRing] := by
  decide

/-- In the middle of that script (after the Ring's drop and the queued CLOSE of
descriptor 2): slot 2 is still registered because one CLOSE is queued for it,
slot 3 because its owner lives, slot 1 was released by the fallback; the ring
descriptor is open although the Ring is gone; the hypotheses of
`C12_direct_sync_fallback_exact` hold for descriptor 3. -/
example :
    let s := run (init directCfg) (directScript.take 5)
    s.ringLive = false ∧ s.ringFdOpen = true ∧ s.slotReg = [false, false, true, true, false] ∧
    s.slotRel = [0, 1, 0, 0, 0] ∧ s.sq = [.closeIdx 3] ∧
    s.fdLive[3]? = some true ∧ fdBorrowed s 3 = false ∧ fdDir s 3 = true ∧ s.sqRoom = false ∧
    3 < s.slotReg.length ∧ s.slotRel.length = s.slotReg.length := by
  decide

/-- Multishot and zero-copy state machines at the Ring's drop: a multishot pool
read that has delivered one item, has another one queued and is still in
flight, and a zero-copy send abandoned between its result and its notification
(the kernel still owes the final completion). The Ring's drop cancels both, the
abandoned state is reclaimed; everything is dropped, nothing was submitted late
(the hypotheses of `C12_partial`), every state box is freed once and the pool
goes with the last `ReadBuf`. -/
def multiCfg : Cfg := { sq := 2, cq := 4, fds := 1, pool := true }
def multiScript : List Step :=
  [.newOp 0 .mread 0, .newOp 1 .sendzc 0, .poll 0 1, .poll 1 2, .rpoll [],
   .kpost 0 5 2, .kpost 0 7 2, .kpost 1 64 2,      -- two items, the send's result: all with F_MORE
   .rpoll [], .poll 0 1,                           -- first item: `ReadBuf` 0
   .dropOp 1,                                      -- the notification is still owed
   .dropRing,
   .dropOp 0, .dropPool, .dropFd 0, .dropBuf 0]

set_option maxRecDepth 8192 in
example : 1 ≤ multiCfg.cq ∧ multiCfg.directOk ∧ allDropped (run (init multiCfg) multiScript) ∧
    noLate (run (init multiCfg) multiScript) := by decide

set_option maxRecDepth 8192 in
example :
    -- right before the Ring's drop
    (run (init multiCfg) (multiScript.take 11)).inflight = [0, 1] ∧
    (run (init multiCfg) (multiScript.take 11)).ops.map (fun t => (t.op.multi, activeB t.op, t.op.futLive))
      = [(true, true, true), (false, true, false)] ∧
    (run (init multiCfg) (multiScript.take 11)).bufs = [true] ∧
    -- after the last drop
    (run (init multiCfg) multiScript).ops.map (fun t => t.op.frees) = [1, 1] ∧
    (run (init multiCfg) multiScript).panicked = false ∧
    (run (init multiCfg) multiScript).log =
      [.munmap .cq, .unregister, .poolFree, .poolFree, .munmap .sqes, .munmap .sq, .closeRing] := by
  decide

/-- The hypotheses of `C12_ring_drop_reclaims` are met by a state with an
abandoned operation, an operation in flight and more completions than
completion-queue entries. -/
example : Reach (run (init { sq := 4, cq := 1, fds := 1 })
    [.newOp 0 .read 0, .newOp 1 .write 0, .newOp 2 .read 0, .poll 0 1, .poll 1 2, .poll 2 3,
     .rpoll [], .dropOp 0]) ∧
    (run (init { sq := 4, cq := 1, fds := 1 })
    [.newOp 0 .read 0, .newOp 1 .write 0, .newOp 2 .read 0, .poll 0 1, .poll 1 2, .poll 2 3,
     .rpoll [], .dropOp 0]).ringLive = true :=
  ⟨⟨_, _, by decide, rfl⟩, by decide⟩

/-- The counterexample of `C12_full_fails` concretely: everything is dropped,
the read was submitted late, its box is still allocated; a late pool read
additionally keeps the pool, `Shared`, the SQ mappings, the ring descriptor and
the queued CLOSE alive. -/
example : allDropped (run (init lateCfg) lateScript) ∧
    (run (init lateCfg) lateScript).ops.map (fun t => (t.late, t.op.boxLive)) = [(true, true)] := by
  decide

example :
    let s := run (init { sq := 4, cq := 4, fds := 1, pool := true })
      [.newOp 0 .pread 0, .dropRing, .poll 0 7, .dropOp 0, .dropPool, .dropFd 0]
    allDropped s ∧ s.sharedLive = true ∧ s.sqMapped = true ∧ s.ringFdOpen = true ∧
    s.poolLive = true ∧ s.fdCloses = [0] ∧ s.sq = [.op 0, .cancel 0, .close 0] := by
  decide

/-! ### Ring drop with a kernel submission thread -/

/-- **Everything queued or in flight when a kernel-thread Ring is dropped is released by that
drop** (repair c481592: the drop lets the thread take the queue before it cancels and collects):
for every set of abandoned operations still queued, already started, or already completed. -/
theorem C12_kernel_thread_ring_drop (q f p : List Nat) :
    let s := KtDrop.run { queued := q, inflight := f, posted := p } ktDropFixed
    s.released = p ++ f ++ q ∧ s.queued = [] ∧ s.inflight = [] ∧ s.posted = [] := by
  simp [KtDrop.run, ktDropFixed, KtDrop.step, List.append_assoc]

/-- The order before the repair, with a thread slower than the drop: an operation that is still
queued at the cancellation sweep starts afterwards; its completion is posted when the Ring is gone
and its state is never released: exactly the queued ones are left posted and unreleased. -/
theorem C12_kernel_thread_ring_drop_old_order_leaks (q f p : List Nat) :
    let s := KtDrop.run { queued := q, inflight := f, posted := p } ktDropOld
    s.released = p ++ f ∧ s.posted = q ∧ s.gone = true := by
  simp [KtDrop.run, ktDropOld, KtDrop.step]

example : (KtDrop.run { queued := [0] } ktDropFixed).released = [0] ∧
    (KtDrop.run { queued := [0] } ktDropOld).released = [] ∧
    (KtDrop.run { queued := [0] } ktDropOld).posted = [0] := by decide

end A10.Teardown
