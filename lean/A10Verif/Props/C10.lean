/-
C10 — All-or-error composite I/O is exact under arbitrary short transfers.

Statement (properties.jsonl): write_all, write_all_vectored, send_all and
send_all_vectored return success only after every byte of every input buffer
has been handed to the kernel exactly once and in order (continuing at the
right file offset for positional writes, with the flags and zero-copy mode the
caller chose on every continuation), and fail with WriteZero if the kernel
accepts nothing. read_n, read_n_vectored, recv_n and recv_n_vectored return
only once at least n bytes have been appended in arrival order, and fail with
UnexpectedEof only if the stream ends first, for every kind of read buffer; the
extract variants return the caller's original buffers.

Quantifier: all buffer shapes (any number ≥ 1 of buffers, empty buffers in any
position), all target counts, all offsets, all flag settings, all transfer
scripts (what the kernel returns per request, `0` included).

Model: `A10Verif/Model/Composite.lean` (tied to src/io/mod.rs, src/net.rs by the
`composite` correspondence component). Lemmas: `A10Verif/Lemmas/Composite.lean`.

How to read the theorems. A run of a future over a script `ks` yields the
answered requests `es : List Exch` and a result. Bytes are identified by
positions `(buffer index, offset)`; `iovPos 0 r.iov` lists the positions a
request offers, in the order the kernel transfers them.
* `RunOk op flags positional off input 0 es` — every request uses opcode `op`
  (hence the zero-copy mode) and `flags`, is issued at offset
  `off + (bytes transferred before)` (positional futures; `NO_OFFSET` and socket
  futures keep their offset), and offers exactly the part of `input` not yet
  transferred: nothing is offered twice, nothing is skipped, order is kept.
* `amounts`/`outcome` tie the run to the executable specifications `specW` /
  `specR`: an ideal all-or-error writer / read-at-least-n reader over the same
  script. Their meaning is spelled out by `C10_spec_*` (WriteZero ⇔ the kernel
  accepts nothing before everything was written; UnexpectedEof ⇔ the stream
  ends before `n` bytes; Ok ⇔ everything / at least `n`).
-/
import A10Verif.Lemmas.Composite

namespace A10.Composite

/-! ## Vocabulary -/

/-- The kind of a result. -/
inductive Outcome where
  | ok | writeZero | eof | panic | pending
  deriving DecidableEq, Repr

def Res.kind {β : Type} : Res β → Outcome
  | .ok _ => .ok
  | .writeZero => .writeZero
  | .eof => .eof
  | .panic => .panic
  | .pending _ => .pending

/-- The ideal all-or-error writer with `rem` bytes left over a script: the
amounts transferred per request and the outcome. The kernel never takes more
than is offered (`min k rem`). -/
def specW (rem : Nat) : List Nat → List Nat × Outcome
  | [] => ([], .pending)
  | k :: ks =>
    if min k rem = 0 then ([0], .writeZero)
    else if min k rem = rem then ([rem], .ok)
    else ((min k rem) :: (specW (rem - min k rem) ks).1, (specW (rem - min k rem) ks).2)

/-- The ideal read-at-least-`left` reader with `cap` bytes of space. -/
def specR (cap left : Nat) : List Nat → List Nat × Outcome
  | [] => ([], .pending)
  | k :: ks =>
    if min k cap = 0 then ([0], .eof)
    else if min k cap ≥ left then ([min k cap], .ok)
    else ((min k cap) :: (specR (cap - min k cap) (left - min k cap) ks).1,
          (specR (cap - min k cap) (left - min k cap) ks).2)

/-- The positions the kernel transferred for one answered request: the first
`res` positions offered. -/
def Exch.bytes (e : Exch) : List Pos := (iovPos 0 e.req.iov).take e.res

/-- All positions transferred, in order of transfer. -/
def transferred : List Exch → List Pos
  | [] => []
  | e :: es => e.bytes ++ transferred es

/-- Total number of bytes transferred. -/
def sumRes : List Exch → Nat
  | [] => 0
  | e :: es => e.res + sumRes es

/-- The offset of a request issued after `acc` bytes were transferred. -/
def offAfter (positional : Bool) (off acc : Nat) : Nat :=
  if positional = true ∧ off ≠ NO_OFFSET then off + acc else off

/-- A request issued after `acc` bytes: the caller's opcode and flags, the
right offset, and exactly the rest of `input`. -/
def ReqOk (op : Opc) (flags : Nat) (positional : Bool) (off : Nat) (input : List Pos)
    (acc : Nat) (r : Req) : Prop :=
  r.op = op ∧ r.flags = flags ∧ r.off = offAfter positional off acc ∧
    iovPos 0 r.iov = input.drop acc

/-- Every request of the run is `ReqOk` at the count reached before it. -/
def RunOk (op : Opc) (flags : Nat) (positional : Bool) (off : Nat) (input : List Pos) :
    Nat → List Exch → Prop
  | _, [] => True
  | acc, e :: es =>
    ReqOk op flags positional off input acc e.req ∧
      RunOk op flags positional off input (acc + e.res) es

/-! ## What the specifications mean -/

theorem specW_sum (rem : Nat) (ks : List Nat) : (specW rem ks).1.sum ≤ rem := by
  induction ks generalizing rem with
  | nil => simp [specW]
  | cons k ks ih =>
    unfold specW
    by_cases h0 : min k rem = 0
    · rw [if_pos h0]; simp
    · rw [if_neg h0]
      by_cases h1 : min k rem = rem
      · rw [if_pos h1]; simp
      · rw [if_neg h1]
        have := ih (rem - min k rem)
        simp only [List.sum_cons]
        omega

/-- `Ok` only when the amounts add up to everything; every amount of a
successful run is positive. -/
theorem C10_spec_write_ok (rem : Nat) (ks : List Nat) (h : (specW rem ks).2 = .ok) :
    (specW rem ks).1.sum = rem ∧ ∀ a ∈ (specW rem ks).1, 0 < a := by
  induction ks generalizing rem with
  | nil => simp [specW] at h
  | cons k ks ih =>
    unfold specW at h ⊢
    by_cases h0 : min k rem = 0
    · rw [if_pos h0] at h; simp at h
    · rw [if_neg h0] at h ⊢
      by_cases h1 : min k rem = rem
      · rw [if_pos h1]
        simp only [List.sum_cons, List.sum_nil, Nat.add_zero, List.mem_singleton, forall_eq, true_and]
        omega
      · rw [if_neg h1] at h ⊢
        obtain ⟨ih1, ih2⟩ := ih (rem - min k rem) h
        simp only [List.sum_cons, List.mem_cons, forall_eq_or_imp]
        refine ⟨by omega, by omega, ih2⟩

/-- With at least one byte to write: `WriteZero` ⇔ the script has a `0` before
the amounts before it add up to everything ("the kernel accepts nothing before
completion"). -/
theorem C10_spec_write_zero_iff (rem : Nat) (ks : List Nat) (hrem : 1 ≤ rem) :
    (specW rem ks).2 = .writeZero ↔
      ∃ pre post, ks = pre ++ 0 :: post ∧ (∀ k ∈ pre, 0 < k) ∧ pre.sum < rem := by
  induction ks generalizing rem with
  | nil => simp [specW]
  | cons k ks ih =>
    unfold specW
    by_cases h0 : min k rem = 0
    · have hk : k = 0 := by omega
      subst hk
      rw [if_pos h0]
      simp only [true_iff]
      exact ⟨[], ks, rfl, by simp, by simp; omega⟩
    · rw [if_neg h0]
      by_cases h1 : min k rem = rem
      · rw [if_pos h1]
        simp only [reduceCtorEq, false_iff]
        rintro ⟨pre, post, hks, hpos, hsum⟩
        cases pre with
        | nil => simp at hks; omega
        | cons p pre =>
          simp only [List.cons_append, List.cons.injEq] at hks
          simp only [List.sum_cons] at hsum
          omega
      · rw [if_neg h1]
        have hk : min k rem = k := by omega
        simp only []
        rw [ih (rem - min k rem) (by omega)]
        constructor
        · rintro ⟨pre, post, hks, hpos, hsum⟩
          refine ⟨k :: pre, post, by simp [hks], ?_, ?_⟩
          · intro x hx
            simp only [List.mem_cons] at hx
            rcases hx with rfl | hx
            · omega
            · exact hpos x hx
          · simp only [List.sum_cons]; omega
        · rintro ⟨pre, post, hks, hpos, hsum⟩
          cases pre with
          | nil => simp at hks; omega
          | cons p pre =>
            simp only [List.cons_append, List.cons.injEq] at hks
            obtain ⟨rfl, hks⟩ := hks
            simp only [List.sum_cons] at hsum
            refine ⟨pre, post, hks, fun x hx => hpos x (by simp [hx]), by omega⟩

/-- `Ok` ⇔ the script reaches the total with positive counts only. -/
theorem C10_spec_write_ok_iff (rem : Nat) (ks : List Nat) (hrem : 1 ≤ rem) :
    (specW rem ks).2 = .ok ↔
      ∃ pre k post, ks = pre ++ k :: post ∧ (∀ x ∈ pre, 0 < x) ∧ pre.sum < rem ∧
        rem ≤ pre.sum + k := by
  induction ks generalizing rem with
  | nil => simp [specW]
  | cons k ks ih =>
    unfold specW
    by_cases h0 : min k rem = 0
    · have hk : k = 0 := by omega
      subst hk
      rw [if_pos h0]
      simp only [reduceCtorEq, false_iff]
      rintro ⟨pre, k', post, hks, hpos, hsum, hge⟩
      cases pre with
      | nil => simp at hks; omega
      | cons p pre =>
        simp only [List.cons_append, List.cons.injEq] at hks
        have := hpos p (by simp)
        omega
    · rw [if_neg h0]
      by_cases h1 : min k rem = rem
      · rw [if_pos h1]
        simp only [true_iff]
        exact ⟨[], k, ks, rfl, by simp, by simp; omega, by simp; omega⟩
      · rw [if_neg h1]
        have hk : min k rem = k := by omega
        simp only []
        rw [ih (rem - min k rem) (by omega)]
        constructor
        · rintro ⟨pre, k', post, hks, hpos, hsum, hge⟩
          refine ⟨k :: pre, k', post, by simp [hks], ?_, ?_, ?_⟩
          · intro x hx
            simp only [List.mem_cons] at hx
            rcases hx with rfl | hx
            · omega
            · exact hpos x hx
          · simp only [List.sum_cons]; omega
          · simp only [List.sum_cons]; omega
        · rintro ⟨pre, k', post, hks, hpos, hsum, hge⟩
          cases pre with
          | nil => simp at hks; simp at hge; omega
          | cons p pre =>
            simp only [List.cons_append, List.cons.injEq] at hks
            obtain ⟨rfl, hks⟩ := hks
            simp only [List.sum_cons] at hsum hge
            refine ⟨pre, k', post, hks, fun x hx => hpos x (by simp [hx]), by omega, by omega⟩


theorem specR_sum (cap left : Nat) (ks : List Nat) : (specR cap left ks).1.sum ≤ cap := by
  induction ks generalizing cap left with
  | nil => simp [specR]
  | cons k ks ih =>
    unfold specR
    by_cases h0 : min k cap = 0
    · rw [if_pos h0]; simp
    · rw [if_neg h0]
      by_cases h1 : min k cap ≥ left
      · rw [if_pos h1]; simp; omega
      · rw [if_neg h1]
        have := ih (cap - min k cap) (left - min k cap)
        simp only [List.sum_cons]
        omega

/-- `Ok` only once at least `left` bytes arrived — and not before: the
amounts before the last one stay below `left`; all amounts are positive. -/
theorem C10_spec_read_ok (cap left : Nat) (ks : List Nat) (hleft : 1 ≤ left)
    (h : (specR cap left ks).2 = .ok) :
    ∃ init last, (specR cap left ks).1 = init ++ [last] ∧ init.sum < left ∧
      left ≤ init.sum + last ∧ ∀ a ∈ (specR cap left ks).1, 0 < a := by
  induction ks generalizing cap left with
  | nil => simp [specR] at h
  | cons k ks ih =>
    unfold specR at h ⊢
    by_cases h0 : min k cap = 0
    · rw [if_pos h0] at h; simp at h
    · rw [if_neg h0] at h ⊢
      by_cases h1 : min k cap ≥ left
      · rw [if_pos h1]
        exact ⟨[], min k cap, by simp, by simp; omega, by simpa using h1, by simp; omega⟩
      · rw [if_neg h1] at h ⊢
        obtain ⟨init, last, e, hs, hl, hp⟩ := ih (cap - min k cap) (left - min k cap) (by omega) h
        refine ⟨min k cap :: init, last, by simp [e], by simp only [List.sum_cons]; omega,
          by simp only [List.sum_cons]; omega, ?_⟩
        intro a ha
        simp only [List.mem_cons] at ha
        rcases ha with rfl | ha
        · omega
        · exact hp a ha

/-- With `1 ≤ left ≤ cap` (the buffers have room for what is asked):
`UnexpectedEof` ⇔ the script has a `0` before the counts before it reach
`left` ("the stream ends first"). -/
theorem C10_spec_read_eof_iff (cap left : Nat) (ks : List Nat) (hleft : 1 ≤ left)
    (hcap : left ≤ cap) :
    (specR cap left ks).2 = .eof ↔
      ∃ pre post, ks = pre ++ 0 :: post ∧ (∀ k ∈ pre, 0 < k) ∧ pre.sum < left := by
  induction ks generalizing cap left with
  | nil => simp [specR]
  | cons k ks ih =>
    unfold specR
    by_cases h0 : min k cap = 0
    · have hk : k = 0 := by omega
      subst hk
      rw [if_pos h0]
      simp only [true_iff]
      exact ⟨[], ks, rfl, by simp, by simp; omega⟩
    · rw [if_neg h0]
      by_cases h1 : min k cap ≥ left
      · rw [if_pos h1]
        simp only [reduceCtorEq, false_iff]
        rintro ⟨pre, post, hks, hpos, hsum⟩
        cases pre with
        | nil => simp at hks; omega
        | cons p pre =>
          simp only [List.cons_append, List.cons.injEq] at hks
          simp only [List.sum_cons] at hsum
          omega
      · rw [if_neg h1]
        have hk : min k cap = k := by omega
        simp only []
        rw [ih (cap - min k cap) (left - min k cap) (by omega) (by omega)]
        constructor
        · rintro ⟨pre, post, hks, hpos, hsum⟩
          refine ⟨k :: pre, post, by simp [hks], ?_, ?_⟩
          · intro x hx
            simp only [List.mem_cons] at hx
            rcases hx with rfl | hx
            · omega
            · exact hpos x hx
          · simp only [List.sum_cons]; omega
        · rintro ⟨pre, post, hks, hpos, hsum⟩
          cases pre with
          | nil => simp at hks; omega
          | cons p pre =>
            simp only [List.cons_append, List.cons.injEq] at hks
            obtain ⟨rfl, hks⟩ := hks
            simp only [List.sum_cons] at hsum
            refine ⟨pre, post, hks, fun x hx => hpos x (by simp [hx]), by omega⟩

/-- `Ok` ⇔ the script reaches `left` with positive counts only. -/
theorem C10_spec_read_ok_iff (cap left : Nat) (ks : List Nat) (hleft : 1 ≤ left)
    (hcap : left ≤ cap) :
    (specR cap left ks).2 = .ok ↔
      ∃ pre k post, ks = pre ++ k :: post ∧ (∀ x ∈ pre, 0 < x) ∧ pre.sum < left ∧
        left ≤ pre.sum + k := by
  induction ks generalizing cap left with
  | nil => simp [specR]
  | cons k ks ih =>
    unfold specR
    by_cases h0 : min k cap = 0
    · have hk : k = 0 := by omega
      subst hk
      rw [if_pos h0]
      simp only [reduceCtorEq, false_iff]
      rintro ⟨pre, k', post, hks, hpos, hsum, hge⟩
      cases pre with
      | nil => simp at hks; simp at hge; omega
      | cons p pre =>
        simp only [List.cons_append, List.cons.injEq] at hks
        have := hpos p (by simp)
        omega
    · rw [if_neg h0]
      by_cases h1 : min k cap ≥ left
      · rw [if_pos h1]
        simp only [true_iff]
        exact ⟨[], k, ks, rfl, by simp, by simp; omega, by simp; omega⟩
      · rw [if_neg h1]
        have hk : min k cap = k := by omega
        simp only []
        rw [ih (cap - min k cap) (left - min k cap) (by omega) (by omega)]
        constructor
        · rintro ⟨pre, k', post, hks, hpos, hsum, hge⟩
          refine ⟨k :: pre, k', post, by simp [hks], ?_, ?_, ?_⟩
          · intro x hx
            simp only [List.mem_cons] at hx
            rcases hx with rfl | hx
            · omega
            · exact hpos x hx
          · simp only [List.sum_cons]; omega
          · simp only [List.sum_cons]; omega
        · rintro ⟨pre, k', post, hks, hpos, hsum, hge⟩
          cases pre with
          | nil => simp at hks; simp at hge; omega
          | cons p pre =>
            simp only [List.cons_append, List.cons.injEq] at hks
            obtain ⟨rfl, hks⟩ := hks
            simp only [List.sum_cons] at hsum hge
            refine ⟨pre, k', post, hks, fun x hx => hpos x (by simp [hx]), by omega, by omega⟩

/-- The ideal writer never reports `eof`/`panic`, the ideal reader never
`writeZero`/`panic`. -/
theorem specW_kinds (rem : Nat) (ks : List Nat) :
    (specW rem ks).2 = .ok ∨ (specW rem ks).2 = .writeZero ∨ (specW rem ks).2 = .pending := by
  induction ks generalizing rem with
  | nil => simp [specW]
  | cons k ks ih =>
    unfold specW
    by_cases h0 : min k rem = 0
    · rw [if_pos h0]; simp
    · rw [if_neg h0]
      by_cases h1 : min k rem = rem
      · rw [if_pos h1]; simp
      · rw [if_neg h1]; exact ih _

theorem specR_kinds (cap left : Nat) (ks : List Nat) :
    (specR cap left ks).2 = .ok ∨ (specR cap left ks).2 = .eof ∨
      (specR cap left ks).2 = .pending := by
  induction ks generalizing cap left with
  | nil => simp [specR]
  | cons k ks ih =>
    unfold specR
    by_cases h0 : min k cap = 0
    · rw [if_pos h0]; simp
    · rw [if_neg h0]
      by_cases h1 : min k cap ≥ left
      · rw [if_pos h1]; simp
      · rw [if_neg h1]; exact ih _ _

/-! ## Consequences of `RunOk` -/

theorem sumRes_eq (es : List Exch) : sumRes es = (es.map (·.res)).sum := by
  induction es with
  | nil => rfl
  | cons e es ih => simp [sumRes, ih]

/-- What was transferred is, in order, the part of `input` between `acc` and
`acc + sumRes es`: nothing twice, nothing skipped. -/
theorem transferred_of_runOk (op : Opc) (flags : Nat) (p : Bool) (off : Nat) (input : List Pos)
    (acc : Nat) (es : List Exch) (h : RunOk op flags p off input acc es) :
    transferred es = (input.drop acc).take (sumRes es) := by
  induction es generalizing acc with
  | nil => simp [transferred, sumRes]
  | cons e es ih =>
    obtain ⟨⟨_, _, _, hpos⟩, hrest⟩ := h
    rw [transferred, sumRes, ih (acc + e.res) hrest, Exch.bytes, hpos, List.take_add,
      List.drop_drop]

/-- Closed form: the `i`-th request is issued at `acc + (bytes transferred by
the requests before it)`. -/
theorem runOk_index (op : Opc) (flags : Nat) (p : Bool) (off : Nat) (input : List Pos)
    (acc : Nat) (es : List Exch) (h : RunOk op flags p off input acc es)
    (i : Nat) (hi : i < es.length) :
    ReqOk op flags p off input (acc + sumRes (es.take i)) es[i].req := by
  induction es generalizing acc i with
  | nil => simp at hi
  | cons e es ih =>
    obtain ⟨hreq, hrest⟩ := h
    cases i with
    | zero => simpa [sumRes] using hreq
    | succ i =>
      have := ih (acc + e.res) hrest i (by simpa using hi)
      simpa [sumRes, Nat.add_assoc] using this

/-! ## Writing futures: the run invariants -/

theorem skipParts_snd (size skip : Nat) : (skipParts size skip).2 = size - skip := by
  unfold skipParts
  split <;> simp <;> omega

theorem iovPos_skipParts (size skip : Nat) :
    iovPos 0 [skipParts size skip] = (rangePos 0 0 size).drop skip := by
  unfold skipParts
  split
  · rename_i h
    rw [List.drop_of_length_le (by simpa using h)]
    simp [iovPos]
  · simp [iovPos, rangePos_drop]

theorem offAfter_zero (p : Bool) (off : Nat) : offAfter p off 0 = off := by
  unfold offAfter
  split <;> simp

theorem advOff_offAfter (p : Bool) (off0 acc n size : Nat)
    (hoff : p = false ∨ off0 = NO_OFFSET ∨ off0 + size < U64) (hn : 1 ≤ n)
    (hle : acc + n ≤ size) :
    advOff p (offAfter p off0 acc) n = some (offAfter p off0 (acc + n)) := by
  unfold advOff offAfter
  by_cases hp : p = true ∧ off0 ≠ NO_OFFSET
  · have h3 : off0 + size < U64 := by
      rcases hoff with h | h | h
      · simp [h] at hp
      · exact absurd h hp.2
      · exact h
    have hne : off0 + acc ≠ NO_OFFSET := by
      simp only [NO_OFFSET, U64] at *
      omega
    have hlt : off0 + (acc + n) < U64 := by omega
    simp only [hp, and_self, ↓reduceIte, hne, ne_eq, not_false_eq_true, hlt, Nat.add_assoc]
  · simp only [hp, ↓reduceIte]

theorem wGo_run (c : WCfg) (size off0 : Nat) (hsz : size < U32)
    (hoff : c.positional = false ∨ off0 = NO_OFFSET ∨ off0 + size < U64)
    (ks : List Nat) (skip : Nat) (hskip : skip ≤ size) :
    RunOk c.op c.flags c.positional off0 (rangePos 0 0 size) skip
        (wGo c size skip (offAfter c.positional off0 skip) ks).1 ∧
    (wGo c size skip (offAfter c.positional off0 skip) ks).1.map (·.res)
        = (specW (size - skip) ks).1 ∧
    (wGo c size skip (offAfter c.positional off0 skip) ks).2.kind = (specW (size - skip) ks).2 ∧
    (∀ q, (wGo c size skip (offAfter c.positional off0 skip) ks).2 = .pending q →
      ReqOk c.op c.flags c.positional off0 (rangePos 0 0 size)
        (skip + sumRes (wGo c size skip (offAfter c.positional off0 skip) ks).1) q) := by
  induction ks generalizing skip with
  | nil =>
    simp only [wGo, RunOk, List.map_nil, specW, Res.kind, sumRes, Nat.add_zero, Res.pending.injEq,
      forall_eq', true_and]
    exact ⟨rfl, rfl, rfl, iovPos_skipParts size skip⟩
  | cons k ks ih =>
    have hreq : ReqOk c.op c.flags c.positional off0 (rangePos 0 0 size) skip
        (wReq c (offAfter c.positional off0 skip) [skipParts size skip]) :=
      ⟨rfl, rfl, rfl, iovPos_skipParts size skip⟩
    simp only [wGo, specW, skipParts_snd]
    have hnle : min k (size - skip) ≤ size - skip := Nat.min_le_right _ _
    generalize min k (size - skip) = n at hnle ⊢
    by_cases h0 : n = 0
    · simp only [h0, ↓reduceIte, RunOk, hreq, and_self, List.map_cons, List.map_nil, Res.kind,
        reduceCtorEq, false_implies, implies_true]
    · have hU : ¬ skip + n ≥ U32 := by
        simp only [U32] at *
        omega
      have hadv := advOff_offAfter c.positional off0 skip n size hoff (by omega) (by omega)
      simp only [h0, ↓reduceIte, hU, hadv]
      by_cases h1 : n = size - skip
      · have hz : size - (skip + n) = 0 := by omega
        simp only [hz, ↓reduceIte, RunOk, hreq, and_self, List.map_cons, List.map_nil, Res.kind,
          reduceCtorEq, false_implies, implies_true, h1.symm]
      · have hz : ¬ size - (skip + n) = 0 := by omega
        obtain ⟨i1, i2, i3, i4⟩ := ih (skip + n) (by omega)
        simp only [hz, ↓reduceIte, h1, RunOk, hreq, true_and, List.map_cons, i1, i2, i3, sumRes,
          Nat.sub_sub]
        intro q hq
        have := i4 q hq
        simpa [Nat.add_assoc] using this

theorem wvGo_run (c : WCfg) (base : List Iov) (off0 : Nat)
    (hoff : c.positional = false ∨ off0 = NO_OFFSET ∨ off0 + iovTotal base < U64)
    (ks : List Nat) (skip : Nat) (hskip : skip ≤ iovTotal base) :
    RunOk c.op c.flags c.positional off0 (iovPos 0 base) skip
        (wvGo c base (skipIov base skip) skip (offAfter c.positional off0 skip) ks).1 ∧
    (wvGo c base (skipIov base skip) skip (offAfter c.positional off0 skip) ks).1.map (·.res)
        = (specW (iovTotal base - skip) ks).1 ∧
    (wvGo c base (skipIov base skip) skip (offAfter c.positional off0 skip) ks).2.kind
        = (specW (iovTotal base - skip) ks).2 ∧
    (∀ q, (wvGo c base (skipIov base skip) skip (offAfter c.positional off0 skip) ks).2 = .pending q →
      ReqOk c.op c.flags c.positional off0 (iovPos 0 base)
        (skip + sumRes (wvGo c base (skipIov base skip) skip
          (offAfter c.positional off0 skip) ks).1) q) := by
  induction ks generalizing skip with
  | nil =>
    simp only [wvGo, RunOk, List.map_nil, specW, Res.kind, sumRes, Nat.add_zero, Res.pending.injEq,
      forall_eq', true_and]
    exact ⟨rfl, rfl, rfl, iovPos_skipIov 0 base skip⟩
  | cons k ks ih =>
    have hreq : ReqOk c.op c.flags c.positional off0 (iovPos 0 base) skip
        (wReq c (offAfter c.positional off0 skip) (skipIov base skip)) :=
      ⟨rfl, rfl, rfl, iovPos_skipIov 0 base skip⟩
    simp only [wvGo, specW, iovTotal_skipIov]
    have hnle : min k (iovTotal base - skip) ≤ iovTotal base - skip := Nat.min_le_right _ _
    generalize min k (iovTotal base - skip) = n at hnle ⊢
    by_cases h0 : n = 0
    · simp only [h0, ↓reduceIte, RunOk, hreq, and_self, List.map_cons, List.map_nil, Res.kind,
        reduceCtorEq, false_implies, implies_true]
    · have hadv := advOff_offAfter c.positional off0 skip n (iovTotal base) hoff (by omega) (by omega)
      have hE : allEmpty (skipIov base (skip + n)) = true ↔ iovTotal base - (skip + n) = 0 := by
        rw [allEmpty_iff, iovTotal_skipIov]
      simp only [h0, ↓reduceIte, hadv, hE]
      by_cases h1 : n = iovTotal base - skip
      · have hz : iovTotal base - (skip + n) = 0 := by omega
        simp only [hz, ↓reduceIte, RunOk, hreq, and_self, List.map_cons, List.map_nil, Res.kind,
          reduceCtorEq, false_implies, implies_true, h1.symm]
      · have hz : ¬ iovTotal base - (skip + n) = 0 := by omega
        obtain ⟨i1, i2, i3, i4⟩ := ih (skip + n) (by omega)
        simp only [hz, ↓reduceIte, h1, RunOk, hreq, true_and, List.map_cons, i1, i2, i3, sumRes,
          Nat.sub_sub]
        intro q hq
        have := i4 q hq
        simpa [Nat.add_assoc] using this

/-! ## Reading futures: the run invariants -/

theorem rReq_total (c : RCfg) (b : RBuf) (off : Nat) : iovTotal (rReq c b off).iov = b.avail := by
  rw [rReq_iov]; rfl

theorem rReq_ok (c : RCfg) (b b0 : RBuf) (off0 acc : Nat)
    (hA : b.avail = b0.avail - acc) (hL : b.initLen = b0.initLen + acc) :
    ReqOk c.op c.flags c.positional off0 (iovPos 0 b0.reqIov) acc
      (rReq c b (offAfter c.positional off0 acc)) := by
  obtain ⟨h1, h2, h3⟩ := rReq_cfg c b (offAfter c.positional off0 acc)
  refine ⟨h1, h2, h3, ?_⟩
  rw [rReq_iov, RBuf.iovPos_reqIov, RBuf.iovPos_reqIov, rangePos_drop, hA, hL]

theorem rGo_run (c : RCfg) (b0 : RBuf) (off0 bound : Nat)
    (hoff : c.positional = false ∨ off0 = NO_OFFSET ∨ off0 + bound < U64)
    (ks : List Nat) (b : RBuf) (left acc : Nat)
    (hA : b.avail = b0.avail - acc) (hL : b.initLen = b0.initLen + acc)
    (hacc : acc ≤ b0.avail) (hb : acc + left ≤ bound) :
    RunOk c.op c.flags c.positional off0 (iovPos 0 b0.reqIov) acc
        (rGo c b left (offAfter c.positional off0 acc) ks).1 ∧
    (rGo c b left (offAfter c.positional off0 acc) ks).1.map (·.res)
        = (specR (b0.avail - acc) left ks).1 ∧
    (rGo c b left (offAfter c.positional off0 acc) ks).2.kind
        = (specR (b0.avail - acc) left ks).2 ∧
    (∀ q, (rGo c b left (offAfter c.positional off0 acc) ks).2 = .pending q →
      ReqOk c.op c.flags c.positional off0 (iovPos 0 b0.reqIov)
        (acc + sumRes (rGo c b left (offAfter c.positional off0 acc) ks).1) q) ∧
    (∀ b', (rGo c b left (offAfter c.positional off0 acc) ks).2 = .ok b' →
      b'.initLen = b0.initLen + (acc + sumRes (rGo c b left (offAfter c.positional off0 acc) ks).1) ∧
      b'.avail = b0.avail - (acc + sumRes (rGo c b left (offAfter c.positional off0 acc) ks).1)) := by
  induction ks generalizing b left acc with
  | nil =>
    simp only [rGo, RunOk, List.map_nil, specR, Res.kind, sumRes, Nat.add_zero, Res.pending.injEq,
      forall_eq', true_and, reduceCtorEq, false_implies, implies_true, and_true]
    exact rReq_ok c b b0 off0 acc hA hL
  | cons k ks ih =>
    have hreq := rReq_ok c b b0 off0 acc hA hL
    simp only [rGo, specR, rReq_total, hA]
    have hnle : min k (b0.avail - acc) ≤ b0.avail - acc := Nat.min_le_right _ _
    generalize min k (b0.avail - acc) = n at hnle ⊢
    obtain ⟨hL', hA'⟩ := RBuf.reqIov_afterRead b n (by omega)
    by_cases h0 : n = 0
    · simp only [h0, ↓reduceIte, RunOk, hreq, and_self, List.map_cons, List.map_nil, Res.kind,
        reduceCtorEq, false_implies, implies_true]
    · by_cases h1 : n ≥ left
      · simp only [h0, h1, ↓reduceIte, RunOk, hreq, and_self, List.map_cons, List.map_nil, Res.kind,
          reduceCtorEq, false_implies, implies_true, Res.ok.injEq, forall_eq', sumRes, Nat.add_zero,
          true_and]
        constructor
        · rw [hL', hL]; omega
        · rw [hA', hA]; omega
      · have hadv := advOff_offAfter c.positional off0 acc n bound hoff (by omega) (by omega)
        obtain ⟨i1, i2, i3, i4, i5⟩ := ih (b.afterRead n) (left - n) (acc + n)
          (by rw [hA', hA]; omega) (by rw [hL', hL]; omega) (by omega) (by omega)
        simp only [h0, h1, ↓reduceIte, hadv, RunOk, hreq, true_and, List.map_cons, i1, i2, i3, sumRes,
          Nat.sub_sub]
        refine ⟨?_, ?_⟩
        · intro q hq
          have := i4 q hq
          simpa [Nat.add_assoc] using this
        · intro b' hb'
          have := i5 b' hb'
          simpa [Nat.add_assoc] using this

theorem rvGo_run (c : RCfg) (b0 : RBufs) (hne : b0.elems ≠ []) (off0 bound : Nat)
    (hoff : c.positional = false ∨ off0 = NO_OFFSET ∨ off0 + bound < U64)
    (ks : List Nat) (b : RBufs) (left acc : Nat)
    (hS : b0.setInit acc = some b) (hacc : acc ≤ iovTotal b0.iovecs) (hb : acc + left ≤ bound) :
    RunOk c.op c.flags c.positional off0 (iovPos 0 b0.iovecs) acc
        (rvGo c b left (offAfter c.positional off0 acc) ks).1 ∧
    (rvGo c b left (offAfter c.positional off0 acc) ks).1.map (·.res)
        = (specR (iovTotal b0.iovecs - acc) left ks).1 ∧
    (rvGo c b left (offAfter c.positional off0 acc) ks).2.kind
        = (specR (iovTotal b0.iovecs - acc) left ks).2 ∧
    (∀ q, (rvGo c b left (offAfter c.positional off0 acc) ks).2 = .pending q →
      ReqOk c.op c.flags c.positional off0 (iovPos 0 b0.iovecs)
        (acc + sumRes (rvGo c b left (offAfter c.positional off0 acc) ks).1) q) ∧
    (∀ b', (rvGo c b left (offAfter c.positional off0 acc) ks).2 = .ok b' →
      b0.setInit (acc + sumRes (rvGo c b left (offAfter c.positional off0 acc) ks).1) = some b') := by
  induction ks generalizing b left acc with
  | nil =>
    simp only [rvGo, RunOk, List.map_nil, specR, Res.kind, sumRes, Nat.add_zero, Res.pending.injEq,
      forall_eq', true_and, reduceCtorEq, false_implies, implies_true, and_true]
    exact ⟨rfl, rfl, rfl, (RBufs.setInit_spec b0 b acc hS hacc).1⟩
  | cons k ks ih =>
    have hreq : ReqOk c.op c.flags c.positional off0 (iovPos 0 b0.iovecs) acc
        (rvReq c b (offAfter c.positional off0 acc)) :=
      ⟨rfl, rfl, rfl, (RBufs.setInit_spec b0 b acc hS hacc).1⟩
    have htot : iovTotal (rvReq c b (offAfter c.positional off0 acc)).iov
        = iovTotal b0.iovecs - acc := RBufs.total_setInit b0 b acc hS hacc
    have hne' : b.elems ≠ [] := by
      have := RBufs.elems_length_setInit b0 b acc hS
      intro h
      rw [h] at this
      exact hne (List.eq_nil_of_length_eq_zero this.symm)
    simp only [rvGo, specR, htot]
    have hnle : min k (iovTotal b0.iovecs - acc) ≤ iovTotal b0.iovecs - acc := Nat.min_le_right _ _
    generalize min k (iovTotal b0.iovecs - acc) = n at hnle ⊢
    have htot' : iovTotal b.iovecs = iovTotal b0.iovecs - acc := htot
    obtain ⟨b', hS'⟩ := RBufs.setInit_some b n hne' (by omega)
    have hC := RBufs.setInit_comp b0 b b' acc n hS hS'
    simp only [hS']
    by_cases h0 : n = 0
    · simp only [h0, ↓reduceIte, RunOk, hreq, and_self, List.map_cons, List.map_nil, Res.kind,
        reduceCtorEq, false_implies, implies_true]
    · by_cases h1 : n ≥ left
      · simp only [h0, h1, ↓reduceIte, RunOk, hreq, and_self, List.map_cons, List.map_nil, Res.kind,
          reduceCtorEq, false_implies, implies_true, Res.ok.injEq, forall_eq', sumRes, Nat.add_zero,
          true_and]
        exact hC
      · have hadv := advOff_offAfter c.positional off0 acc n bound hoff (by omega) (by omega)
        obtain ⟨i1, i2, i3, i4, i5⟩ := ih b' (left - n) (acc + n) hC (by omega) (by omega)
        simp only [h0, h1, ↓reduceIte, hadv, RunOk, hreq, true_and, List.map_cons, i1, i2, i3, sumRes,
          Nat.sub_sub]
        refine ⟨?_, ?_⟩
        · intro q hq
          have := i4 q hq
          simpa [Nat.add_assoc] using this
        · intro b'' hb''
          have := i5 b'' hb''
          simpa [Nat.add_assoc] using this

/-! ## The property, future by future -/

/-- What C10 demands of a run `(es, res)` of a writing future whose input is
the positions `input`, over the script `ks`. -/
structure WriteExact {β : Type} (op : Opc) (flags : Nat) (positional : Bool) (off : Nat)
    (input : List Pos) (ks : List Nat) (orig : β) (run : List Exch × Res β) : Prop where
  /-- Opcode (zero-copy mode), flags, offset and offered bytes of every request. -/
  requests : RunOk op flags positional off input 0 run.1
  /-- The amounts transferred are those of the ideal writer… -/
  amounts : run.1.map (·.res) = (specW input.length ks).1
  /-- …and so is the outcome (`Ok` / `WriteZero` / still pending; never a panic). -/
  outcome : run.2.kind = (specW input.length ks).2
  /-- A request still in flight when the script ends is the right one too. -/
  pending : ∀ q, run.2 = .pending q → ReqOk op flags positional off input (sumRes run.1) q
  /-- `Ok` hands back the caller's buffers (the extracting variants). -/
  extract : ∀ b, run.2 = .ok b → b = orig

/-- What C10 demands of a run of a reading future: `space` is the spare
capacity of the buffers (positions, in the order the kernel fills them). -/
structure ReadExact {β : Type} (op : Opc) (flags : Nat) (positional : Bool) (off : Nat)
    (space : List Pos) (n : Nat) (ks : List Nat) (run : List Exch × Res β) : Prop where
  requests : RunOk op flags positional off space 0 run.1
  amounts : run.1.map (·.res) = (specR space.length n ks).1
  outcome : run.2.kind = (specR space.length n ks).2
  pending : ∀ q, run.2 = .pending q → ReqOk op flags positional off space (sumRes run.1) q

theorem Res.kind_map {β γ : Type} (f : β → γ) (r : Res β) : (r.map f).kind = r.kind := by
  cases r <;> rfl

theorem Res.map_pending {β γ : Type} (f : β → γ) (r : Res β) (q : Req)
    (h : r.map f = .pending q) : r = .pending q := by
  cases r <;> simp_all [Res.map]

theorem Res.map_ok {β γ : Type} (f : β → γ) (r : Res β) (b : γ) (h : r.map f = .ok b) :
    ∃ a, r = .ok a ∧ f a = b := by
  cases r <;> simp_all [Res.map]

/-- `write_all`: for every buffer (length below 2^32), offset (not overflowing
`u64` over the length of the buffer) and script. -/
theorem C10_write_all_exact (b : WBuf) (off : Nat) (ks : List Nat) (hsz : b.size < U32)
    (hoff : off = NO_OFFSET ∨ off + b.size < U64) :
    WriteExact .write 0 true off (rangePos 0 0 b.size) ks b (writeAll b off ks) := by
  obtain ⟨h1, h2, h3, h4⟩ := wGo_run ⟨.write, 0, true⟩ b.size off hsz (Or.inr hoff) ks 0
    (Nat.zero_le _)
  simp only [offAfter_zero, Nat.sub_zero, Nat.zero_add] at h1 h2 h3 h4
  refine ⟨h1, by simpa [writeAll] using h2, by simpa [writeAll, Res.kind_map] using h3, ?_, ?_⟩
  · intro q hq
    exact h4 q (Res.map_pending _ _ q hq)
  · intro b' hb'
    obtain ⟨_, _, rfl⟩ := Res.map_ok _ _ b' hb'
    rfl

/-- `send_all`: every request is a `SEND` (or `SEND_ZC` with `.zc()`) carrying
the caller's flags. -/
theorem C10_send_all_exact (b : WBuf) (flags : Nat) (zc : Bool) (ks : List Nat)
    (hsz : b.size < U32) :
    WriteExact (if zc then .sendZc else .send) flags false 0 (rangePos 0 0 b.size) ks b
      (sendAll b flags zc ks) := by
  obtain ⟨h1, h2, h3, h4⟩ := wGo_run ⟨if zc then .sendZc else .send, flags, false⟩ b.size 0 hsz
    (Or.inl rfl) ks 0 (Nat.zero_le _)
  simp only [offAfter_zero, Nat.sub_zero, Nat.zero_add] at h1 h2 h3 h4
  refine ⟨h1, by simpa [sendAll] using h2, by simpa [sendAll, Res.kind_map] using h3, ?_, ?_⟩
  · intro q hq
    exact h4 q (Res.map_pending _ _ q hq)
  · intro b' hb'
    obtain ⟨_, _, rfl⟩ := Res.map_ok _ _ b' hb'
    rfl

/-- `write_all_vectored`: any number of buffers, empty ones anywhere. -/
theorem C10_write_all_vectored_exact (b : WBufs) (off : Nat) (ks : List Nat)
    (hoff : off = NO_OFFSET ∨ off + iovTotal b.iovecs < U64) :
    WriteExact .writev 0 true off (iovPos 0 b.iovecs) ks b (writeAllV b off ks) := by
  obtain ⟨h1, h2, h3, h4⟩ := wvGo_run ⟨.writev, 0, true⟩ b.iovecs off (Or.inr hoff) ks 0
    (Nat.zero_le _)
  simp only [offAfter_zero, Nat.sub_zero, Nat.zero_add, skipIov_zero] at h1 h2 h3 h4
  refine ⟨h1, by simpa [writeAllV] using h2, by simpa [writeAllV, Res.kind_map] using h3, ?_, ?_⟩
  · intro q hq
    exact h4 q (Res.map_pending _ _ q hq)
  · intro b' hb'
    obtain ⟨_, _, rfl⟩ := Res.map_ok _ _ b' hb'
    rfl

/-- `send_all_vectored`: the caller's flags and zero-copy mode on every
request, continuations included. -/
theorem C10_send_all_vectored_exact (b : WBufs) (flags : Nat) (zc : Bool) (ks : List Nat) :
    WriteExact (if zc then .sendmsgZc else .sendmsg) flags false 0 (iovPos 0 b.iovecs) ks b
      (sendAllV b flags zc ks) := by
  obtain ⟨h1, h2, h3, h4⟩ := wvGo_run ⟨if zc then .sendmsgZc else .sendmsg, flags, false⟩ b.iovecs 0
    (Or.inl rfl) ks 0 (Nat.zero_le _)
  simp only [offAfter_zero, Nat.sub_zero, Nat.zero_add, skipIov_zero] at h1 h2 h3 h4
  refine ⟨h1, by simpa [sendAllV] using h2, by simpa [sendAllV, Res.kind_map] using h3, ?_, ?_⟩
  · intro q hq
    exact h4 q (Res.map_pending _ _ q hq)
  · intro b' hb'
    obtain ⟨_, _, rfl⟩ := Res.map_ok _ _ b' hb'
    rfl

/-- `read_n`, for every kind of read buffer (`Vec`, pool `ReadBuf`,
`LimitedBuf` of them): `space` is the spare capacity after the `initLen`
bytes already in the buffer; the returned buffer has grown by exactly the
bytes delivered. -/
theorem C10_read_n_exact (b : RBuf) (n off : Nat) (ks : List Nat)
    (hoff : off = NO_OFFSET ∨ off + n < U64) :
    ReadExact .read 0 true off (rangePos 0 b.initLen b.avail) n ks (readN b n off ks) ∧
    ∀ b', (readN b n off ks).2 = .ok b' →
      b'.initLen = b.initLen + sumRes (readN b n off ks).1 ∧
      b'.avail = b.avail - sumRes (readN b n off ks).1 := by
  obtain ⟨h1, h2, h3, h4, h5⟩ := rGo_run ⟨.read, 0, true⟩ b off n (Or.inr hoff) ks b n 0
    (by simp) (by simp) (Nat.zero_le _) (by simp)
  simp only [offAfter_zero, Nat.sub_zero, Nat.zero_add, RBuf.iovPos_reqIov] at h1 h2 h3 h4 h5
  exact ⟨⟨h1, by simpa [readN] using h2, by simpa [readN] using h3, h4⟩, h5⟩

/-- `recv_n`: the caller's flags on every `RECV`. -/
theorem C10_recv_n_exact (b : RBuf) (n flags : Nat) (ks : List Nat) :
    ReadExact .recv flags false 0 (rangePos 0 b.initLen b.avail) n ks (recvN b n flags ks) ∧
    ∀ b', (recvN b n flags ks).2 = .ok b' →
      b'.initLen = b.initLen + sumRes (recvN b n flags ks).1 ∧
      b'.avail = b.avail - sumRes (recvN b n flags ks).1 := by
  obtain ⟨h1, h2, h3, h4, h5⟩ := rGo_run ⟨.recv, flags, false⟩ b 0 n (Or.inl rfl) ks b n 0
    (by simp) (by simp) (Nat.zero_le _) (by simp)
  simp only [offAfter_zero, Nat.sub_zero, Nat.zero_add, RBuf.iovPos_reqIov] at h1 h2 h3 h4 h5
  exact ⟨⟨h1, by simpa [recvN] using h2, by simpa [recvN] using h3, h4⟩, h5⟩

/-- `read_n_vectored` over arrays/tuples of buffers (optionally inside a
`LimitedBuf`), at least one buffer: the returned buffers are the originals
after `set_init(total)`, they have grown — buffer by buffer — by exactly the
positions filled, in arrival order, and what they still offer is the rest. -/
theorem C10_read_n_vectored_exact (b : RBufs) (hne : b.elems ≠ []) (n off : Nat) (ks : List Nat)
    (hoff : off = NO_OFFSET ∨ off + n < U64) :
    ReadExact .readv 0 true off (iovPos 0 b.iovecs) n ks (readNV b n off ks) ∧
    ∀ b', (readNV b n off ks).2 = .ok b' →
      grown 0 b.elems b'.elems = transferred (readNV b n off ks).1 ∧
      iovPos 0 b'.iovecs = (iovPos 0 b.iovecs).drop (sumRes (readNV b n off ks).1) := by
  obtain ⟨h1, h2, h3, h4, h5⟩ := rvGo_run ⟨.readv, 0, true⟩ b hne off n (Or.inr hoff) ks b n 0
    (RBufs.setInit_zero b hne) (Nat.zero_le _) (by simp)
  simp only [offAfter_zero, Nat.sub_zero, Nat.zero_add] at h1 h2 h3 h4 h5
  refine ⟨⟨h1, by simpa [readNV] using h2, by simpa [readNV] using h3, h4⟩, ?_⟩
  intro b' hb'
  have hS := h5 b' hb'
  have hle : sumRes (readNV b n off ks).1 ≤ iovTotal b.iovecs := by
    have := specR_sum (iovTotal b.iovecs) n ks
    rw [sumRes_eq]
    simp only [readNV]
    rw [h2]
    exact this
  obtain ⟨s1, s2⟩ := RBufs.setInit_spec b b' _ hS hle
  refine ⟨?_, s1⟩
  have ht := transferred_of_runOk _ _ _ _ _ 0 _ h1
  rw [s2]
  simpa [readNV] using ht.symm

/-- `recv_n_vectored`. -/
theorem C10_recv_n_vectored_exact (b : RBufs) (hne : b.elems ≠ []) (n flags : Nat)
    (ks : List Nat) :
    ReadExact .recvmsg flags false 0 (iovPos 0 b.iovecs) n ks (recvNV b n flags ks) ∧
    ∀ b', (recvNV b n flags ks).2 = .ok b' →
      grown 0 b.elems b'.elems = transferred (recvNV b n flags ks).1 ∧
      iovPos 0 b'.iovecs = (iovPos 0 b.iovecs).drop (sumRes (recvNV b n flags ks).1) := by
  obtain ⟨h1, h2, h3, h4, h5⟩ := rvGo_run ⟨.recvmsg, flags, false⟩ b hne 0 n (Or.inl rfl) ks b n 0
    (RBufs.setInit_zero b hne) (Nat.zero_le _) (by simp)
  simp only [offAfter_zero, Nat.sub_zero, Nat.zero_add] at h1 h2 h3 h4 h5
  refine ⟨⟨h1, by simpa [recvNV] using h2, by simpa [recvNV] using h3, h4⟩, ?_⟩
  intro b' hb'
  have hS := h5 b' hb'
  have hle : sumRes (recvNV b n flags ks).1 ≤ iovTotal b.iovecs := by
    have := specR_sum (iovTotal b.iovecs) n ks
    rw [sumRes_eq]
    simp only [recvNV]
    rw [h2]
    exact this
  obtain ⟨s1, s2⟩ := RBufs.setInit_spec b b' _ hS hle
  refine ⟨?_, s1⟩
  have ht := transferred_of_runOk _ _ _ _ _ 0 _ h1
  rw [s2]
  simpa [recvNV] using ht.symm

/-! ## What `WriteExact` / `ReadExact` give, in plain terms -/

/-- At any point — success, failure or still pending — the bytes handed to the
kernel are a prefix of the input: each byte at most once, in order. -/
theorem C10_write_prefix {β : Type} {op : Opc} {flags : Nat} {p : Bool} {off : Nat}
    {input : List Pos} {ks : List Nat} {orig : β} {run : List Exch × Res β}
    (h : WriteExact op flags p off input ks orig run) :
    transferred run.1 = input.take (sumRes run.1) := by
  simpa using transferred_of_runOk _ _ _ _ _ 0 _ h.requests

/-- Success only after every byte of every input buffer was handed to the
kernel exactly once and in order; the caller's buffers come back. -/
theorem C10_write_exact {β : Type} {op : Opc} {flags : Nat} {p : Bool} {off : Nat}
    {input : List Pos} {ks : List Nat} {orig : β} {run : List Exch × Res β}
    (h : WriteExact op flags p off input ks orig run) (b : β) (hok : run.2 = .ok b) :
    transferred run.1 = input ∧ b = orig ∧ ∀ e ∈ run.1, 0 < e.res := by
  have hk : (specW input.length ks).2 = .ok := by rw [← h.outcome, hok]; rfl
  obtain ⟨hsum, hpos⟩ := C10_spec_write_ok input.length ks hk
  refine ⟨?_, h.extract b hok, ?_⟩
  · rw [C10_write_prefix h, sumRes_eq, h.amounts, hsum]
    exact List.take_of_length_le (Nat.le_refl _)
  · intro e he
    apply hpos
    rw [← h.amounts]
    exact List.mem_map.mpr ⟨e, he, rfl⟩

/-- Every request — first or continuation — carries the caller's opcode
(zero-copy mode) and flags, continues at `off + Σ previous results`
(positional writes) and offers exactly the rest of the input. -/
theorem C10_write_requests {β : Type} {op : Opc} {flags : Nat} {p : Bool} {off : Nat}
    {input : List Pos} {ks : List Nat} {orig : β} {run : List Exch × Res β}
    (h : WriteExact op flags p off input ks orig run) (i : Nat) (hi : i < run.1.length) :
    run.1[i].req.op = op ∧ run.1[i].req.flags = flags ∧
    run.1[i].req.off = (if p = true ∧ off ≠ NO_OFFSET then off + sumRes (run.1.take i) else off) ∧
    iovPos 0 run.1[i].req.iov = input.drop (sumRes (run.1.take i)) := by
  simpa [ReqOk, offAfter] using runOk_index _ _ _ _ _ 0 _ h.requests i hi

/-- `WriteZero` ⇔ the kernel accepts nothing before completion (for a
non-empty input). -/
theorem C10_write_zero_iff {β : Type} {op : Opc} {flags : Nat} {p : Bool} {off : Nat}
    {input : List Pos} {ks : List Nat} {orig : β} {run : List Exch × Res β}
    (h : WriteExact op flags p off input ks orig run) (hne : 1 ≤ input.length) :
    run.2 = .writeZero ↔
      ∃ pre post, ks = pre ++ 0 :: post ∧ (∀ k ∈ pre, 0 < k) ∧ pre.sum < input.length := by
  rw [← C10_spec_write_zero_iff input.length ks hne, ← h.outcome]
  cases run.2 <;> simp [Res.kind]

/-- `Ok` ⇔ the script reaches the total with positive counts; otherwise the
result is `WriteZero` or the future is still pending — never a panic. -/
theorem C10_write_ok_iff {β : Type} {op : Opc} {flags : Nat} {p : Bool} {off : Nat}
    {input : List Pos} {ks : List Nat} {orig : β} {run : List Exch × Res β}
    (h : WriteExact op flags p off input ks orig run) (hne : 1 ≤ input.length) :
    ((∃ b, run.2 = .ok b) ↔
      ∃ pre k post, ks = pre ++ k :: post ∧ (∀ x ∈ pre, 0 < x) ∧ pre.sum < input.length ∧
        input.length ≤ pre.sum + k) ∧
    run.2 ≠ .panic ∧ run.2 ≠ .eof := by
  refine ⟨?_, ?_, ?_⟩
  · rw [← C10_spec_write_ok_iff input.length ks hne, ← h.outcome]
    cases run.2 <;> simp [Res.kind]
  · intro hp
    have := h.outcome
    rw [hp] at this
    rcases specW_kinds input.length ks with k | k | k <;> rw [k] at this <;> simp [Res.kind] at this
  · intro hp
    have := h.outcome
    rw [hp] at this
    rcases specW_kinds input.length ks with k | k | k <;> rw [k] at this <;> simp [Res.kind] at this

/-- The bytes delivered fill the spare capacity from its start, in arrival
order, whatever the outcome. -/
theorem C10_read_prefix {β : Type} {op : Opc} {flags : Nat} {p : Bool} {off : Nat}
    {space : List Pos} {n : Nat} {ks : List Nat} {run : List Exch × Res β}
    (h : ReadExact op flags p off space n ks run) :
    transferred run.1 = space.take (sumRes run.1) := by
  simpa using transferred_of_runOk _ _ _ _ _ 0 _ h.requests

/-- A reading future returns only once at least `n` bytes arrived — and as
soon as they did: before its last request fewer than `n` had arrived. -/
theorem C10_read_n {β : Type} {op : Opc} {flags : Nat} {p : Bool} {off : Nat}
    {space : List Pos} {n : Nat} {ks : List Nat} {run : List Exch × Res β}
    (h : ReadExact op flags p off space n ks run) (hn : 1 ≤ n) (b : β) (hok : run.2 = .ok b) :
    n ≤ sumRes run.1 ∧ transferred run.1 = space.take (sumRes run.1) ∧
    (∀ e ∈ run.1, 0 < e.res) ∧
    ∃ init last, run.1.map (·.res) = init ++ [last] ∧ init.sum < n := by
  have hk : (specR space.length n ks).2 = .ok := by rw [← h.outcome, hok]; rfl
  obtain ⟨init, last, e, hs, hl, hp⟩ := C10_spec_read_ok space.length n ks hn hk
  refine ⟨?_, C10_read_prefix h, ?_, init, last, by rw [h.amounts, e], hs⟩
  · rw [sumRes_eq, h.amounts, e]
    simp only [List.sum_append, List.sum_cons, List.sum_nil]
    omega
  · intro x hx
    apply hp
    rw [← h.amounts]
    exact List.mem_map.mpr ⟨x, hx, rfl⟩

theorem C10_read_requests {β : Type} {op : Opc} {flags : Nat} {p : Bool} {off : Nat}
    {space : List Pos} {n : Nat} {ks : List Nat} {run : List Exch × Res β}
    (h : ReadExact op flags p off space n ks run) (i : Nat) (hi : i < run.1.length) :
    run.1[i].req.op = op ∧ run.1[i].req.flags = flags ∧
    run.1[i].req.off = (if p = true ∧ off ≠ NO_OFFSET then off + sumRes (run.1.take i) else off) ∧
    iovPos 0 run.1[i].req.iov = space.drop (sumRes (run.1.take i)) := by
  simpa [ReqOk, offAfter] using runOk_index _ _ _ _ _ 0 _ h.requests i hi

/-- With room for `n` bytes (`n ≤ spare capacity`): `UnexpectedEof` ⇔ the
stream ends (a `0`) before `n` bytes arrived; `Ok` ⇔ it does not; never a
panic or another error. -/
theorem C10_read_eof_iff {β : Type} {op : Opc} {flags : Nat} {p : Bool} {off : Nat}
    {space : List Pos} {n : Nat} {ks : List Nat} {run : List Exch × Res β}
    (h : ReadExact op flags p off space n ks run) (hn : 1 ≤ n) (hcap : n ≤ space.length) :
    (run.2 = .eof ↔
      ∃ pre post, ks = pre ++ 0 :: post ∧ (∀ k ∈ pre, 0 < k) ∧ pre.sum < n) ∧
    ((∃ b, run.2 = .ok b) ↔
      ∃ pre k post, ks = pre ++ k :: post ∧ (∀ x ∈ pre, 0 < x) ∧ pre.sum < n ∧ n ≤ pre.sum + k) ∧
    run.2 ≠ .panic ∧ run.2 ≠ .writeZero := by
  refine ⟨?_, ?_, ?_, ?_⟩
  · rw [← C10_spec_read_eof_iff space.length n ks hn hcap, ← h.outcome]
    cases run.2 <;> simp [Res.kind]
  · rw [← C10_spec_read_ok_iff space.length n ks hn hcap, ← h.outcome]
    cases run.2 <;> simp [Res.kind]
  · intro hp
    have := h.outcome
    rw [hp] at this
    rcases specR_kinds space.length n ks with k | k | k <;> rw [k] at this <;> simp [Res.kind] at this
  · intro hp
    have := h.outcome
    rw [hp] at this
    rcases specR_kinds space.length n ks with k | k | k <;> rw [k] at this <;> simp [Res.kind] at this

/-! ## The input and the capacity, spelled out -/

/-- Every byte position of buffers with the given lengths, buffer by buffer. -/
def bufPositions : Nat → List Nat → List Pos
  | _, [] => []
  | i, l :: ls => rangePos i 0 l ++ bufPositions (i + 1) ls

theorem iovPos_full (i : Nat) (es : List WBuf) :
    iovPos i (es.map (fun e => (0, e.size))) = bufPositions i (es.map WBuf.size) := by
  induction es generalizing i with
  | nil => rfl
  | cons e es ih => simp [iovPos, bufPositions, ih]

/-- The `input` of the vectored writers is every byte of every buffer, in
order (cut after `l` bytes when the caller wrapped the buffers in a
`LimitedBuf` of `l`). -/
theorem C10_input_is_every_byte (b : WBufs) :
    iovPos 0 b.iovecs =
      match b.outer with
      | none => bufPositions 0 (b.elems.map WBuf.size)
      | some l => (bufPositions 0 (b.elems.map WBuf.size)).take l := by
  unfold WBufs.iovecs
  cases b.outer with
  | none => simp [iovPos_full]
  | some l => simp [iovPos_limitIov, iovPos_full]

/-- The capacity `avail` the read theorems talk about is what
`BufMut::spare_capacity` reports, except for a pool `ReadBuf` that was not yet
assigned a buffer, where it is the size of the pool's buffers. -/
theorem C10_read_capacity (b : RBuf) :
    b.avail = match b.selSize with
      | some size => size
      | none => b.spare := by
  unfold RBuf.avail RBuf.reqIov
  cases b.selSize with
  | some size => simp [iovTotal]
  | none => simp [iovTotal, RBuf.spare_eq]

/-! ## Non-vacuity and regression witnesses -/

/-- Three buffers with an empty *last* one, the kernel takes 1 then 2 then the
rest: three requests, `Ok` only after all 8 bytes (before the fix of
`iovecs[N-1].len() == 0` this returned `Ok` after the first byte). -/
example :
    (writeAllV ⟨[⟨3, none⟩, ⟨5, none⟩, ⟨0, none⟩], none⟩ 100 [1, 2, 9]).1.map
        (fun e => (e.req.off, e.req.iov, e.res))
      = [(100, [(0, 3), (0, 5), (0, 0)], 1), (101, [(1, 2), (0, 5), (0, 0)], 2),
         (103, [(0, 0), (0, 5), (0, 0)], 5)] ∧
    (writeAllV ⟨[⟨3, none⟩, ⟨5, none⟩, ⟨0, none⟩], none⟩ 100 [1, 2, 9]).2.kind = .ok := by
  decide

/-- The hypotheses of the writer theorems are satisfiable (and the theorem
applies to the run above). -/
example : WriteExact .writev 0 true 100
    (iovPos 0 (WBufs.iovecs ⟨[⟨3, none⟩, ⟨5, none⟩, ⟨0, none⟩], none⟩)) [1, 2, 9]
    ⟨[⟨3, none⟩, ⟨5, none⟩, ⟨0, none⟩], none⟩
    (writeAllV ⟨[⟨3, none⟩, ⟨5, none⟩, ⟨0, none⟩], none⟩ 100 [1, 2, 9]) :=
  C10_write_all_vectored_exact _ 100 [1, 2, 9] (Or.inr (by decide))

/-- Flags and zero-copy mode on every continuation of `send_all_vectored`
(before the fix the continuation carried flags 0). -/
example :
    (sendAllV ⟨[⟨2, none⟩, ⟨2, none⟩], none⟩ 0x8004 true [1, 1, 9]).1.map
        (fun e => (e.req.op, e.req.flags))
      = [(.sendmsgZc, 0x8004), (.sendmsgZc, 0x8004), (.sendmsgZc, 0x8004)] := by
  decide

/-- `WriteZero` and a still pending future are reachable outcomes. -/
example : (writeAll ⟨10, none⟩ NO_OFFSET [3, 0, 5]).2 = .writeZero := by decide
example : (sendAll ⟨10, some 4⟩ 1 false [3]).2.kind = .pending := by decide
example : (writeAll ⟨10, some 4⟩ 7 [3, 1]).2 = .ok ⟨10, some 4⟩ := by decide

/-- `read_n` with a pool buffer: the first request selects a buffer, the
continuation reads into the rest of it (before the fix of `ReadNBuf::parts`
the first request was a zero-length read and the result `UnexpectedEof`). -/
example :
    (readN (.pool none 16) 5 NO_OFFSET [2, 9]).1.map (fun e => (e.req.sel, e.req.iov, e.res))
      = [(true, [(0, 16)], 2), (false, [(2, 14)], 9)] ∧
    (readN (.pool none 16) 5 NO_OFFSET [2, 9]).2 = .ok (.pool (some 11) 16) := by
  decide

example : ReadExact .read 0 true 4096 (rangePos 0 (RBuf.lim (.vec 2 10) 6).initLen
    (RBuf.lim (.vec 2 10) 6).avail) 5 [2, 0] (readN (.lim (.vec 2 10) 6) 5 4096 [2, 0]) :=
  (C10_read_n_exact _ 5 4096 [2, 0] (Or.inr (by decide))).1

example : (readN (.lim (.vec 2 10) 6) 5 4096 [2, 0]).2 = .eof := by decide

/-- Vectored read into a full, a limited and a plain buffer inside an outer
limit: the 7 bytes land in arrival order across the buffers. -/
example :
    (recvNV (.lim (.arr [.vec 4 4, .lim (.vec 1 8) 3, .vec 0 9]) 8) 7 2 [1, 4, 9]).1.map
        (fun e => (e.req.flags, e.req.iov, e.res))
      = [(2, [(4, 0), (1, 3), (0, 5)], 1), (2, [(4, 0), (2, 2), (0, 5)], 4),
         (2, [(4, 0), (4, 0), (2, 3)], 3)] := by
  decide

example : (RBufs.lim (.arr [.vec 4 4, .lim (.vec 1 8) 3, .vec 0 9]) 8).elems ≠ [] := by decide

/-- Outside the property's precondition, recorded for the reader: a
`LimitedBuf` around a pool `ReadBuf` that was never filled has *no* capacity
(`avail = 0`: `LimitedBuf` does not forward `BufMut::parts`, so the request is a
zero-length read instead of a buffer selection) and `read_n` of even one byte
reports `UnexpectedEof` at once. -/
example :
    (RBuf.lim (.pool none 8) 4).avail = 0 ∧
    (readN (.lim (.pool none 8) 4) 1 NO_OFFSET [3]).1.map (fun e => (e.req.sel, e.req.iov, e.res))
      = [(false, [(0, 0)], 0)] ∧
    (readN (.lim (.pool none 8) 4) 1 NO_OFFSET [3]).2 = .eof := by
  decide

/-! ## Kernel errors

The kernel may answer any request with an error instead of a count. `EINTR`
and `ECANCELED` are retried inside the operation (C09); every other error ends
the composite future at once (`failWith`). -/

/-- The future fails with the kernel's error exactly when the failed request
was outstanding: an error is never swallowed and never made up. -/
theorem C10_kernel_error_iff_outstanding {β : Type} (run : List Exch × Res β) (e : Nat) (q : Req) :
    (failWith run (some e)).2 = .failed q e ↔ run.2 = .pending q := by
  obtain ⟨es, r⟩ := run
  cases r <;> simp [failWith]

/-- A future that had already finished (success, `WriteZero`, `UnexpectedEof`)
keeps its outcome; and nothing but the kernel's answers before the error count
as transferred. -/
theorem C10_kernel_error_frame {β : Type} (run : List Exch × Res β) (oe : Option Nat) :
    (failWith run oe).1 = run.1 ∧
    ((∀ q, run.2 ≠ .pending q) → (failWith run oe).2 = .plain run.2) := by
  obtain ⟨es, r⟩ := run
  cases oe with
  | none => simp [failWith]
  | some e => cases r <;> simp [failWith]

/-- Writing futures under a kernel error: the request that failed is the
right continuation (opcode, flags, offset, exactly the bytes not yet
accepted), the ideal writer was not finished either, and `Ok` is returned
despite the error only if every byte had been accepted before it. -/
theorem C10_write_kernel_error {β : Type} {op : Opc} {flags : Nat} {positional : Bool} {off : Nat}
    {input : List Pos} {ks : List Nat} {orig : β} {run : List Exch × Res β}
    (h : WriteExact op flags positional off input ks orig run) (e : Nat) :
    (∀ q, (failWith run (some e)).2 = .failed q e →
        ReqOk op flags positional off input (sumRes run.1) q ∧
        (specW input.length ks).2 = .pending) ∧
    (∀ b, (failWith run (some e)).2 = .plain (.ok b) →
        (specW input.length ks).2 = .ok ∧ b = orig) := by
  refine ⟨fun q hq => ?_, fun b hb => ?_⟩
  · have hp := (C10_kernel_error_iff_outstanding run e q).1 hq
    refine ⟨h.pending q hp, ?_⟩
    have := h.outcome
    rw [hp] at this
    exact this.symm
  · obtain ⟨es, r⟩ := run
    cases r <;> simp [failWith] at hb
    subst hb
    have := h.outcome
    exact ⟨this.symm, h.extract _ rfl⟩

/-- Reading futures under a kernel error. -/
theorem C10_read_kernel_error {β : Type} {op : Opc} {flags : Nat} {positional : Bool} {off : Nat}
    {space : List Pos} {n : Nat} {ks : List Nat} {run : List Exch × Res β}
    (h : ReadExact op flags positional off space n ks run) (e : Nat) :
    (∀ q, (failWith run (some e)).2 = .failed q e →
        ReqOk op flags positional off space (sumRes run.1) q ∧
        (specR space.length n ks).2 = .pending) ∧
    (∀ b, (failWith run (some e)).2 = .plain (.ok b) → (specR space.length n ks).2 = .ok) := by
  refine ⟨fun q hq => ?_, fun b hb => ?_⟩
  · have hp := (C10_kernel_error_iff_outstanding run e q).1 hq
    refine ⟨h.pending q hp, ?_⟩
    have := h.outcome
    rw [hp] at this
    exact this.symm
  · obtain ⟨es, r⟩ := run
    cases r <;> simp [failWith] at hb
    subst hb
    exact h.outcome.symm

/-- Non-vacuity: an error after partial progress, and an error that arrives
too late to matter. -/
example : (failWith (writeAll ⟨10, none⟩ 100 [3]) (some 5)).2
    = .failed ⟨.write, 103, 0, false, [(3, 7)]⟩ 5 := by decide
example : (failWith (writeAll ⟨10, none⟩ 100 [3, 7]) (some 5)).2 = .plain (.ok ⟨10, none⟩) := by decide
example : (failWith (readN (.vec 0 8) 4 NO_OFFSET [1]) (some 104)).2
    = .failed ⟨.read, NO_OFFSET, 0, false, [(1, 7)]⟩ 104 := by decide

/-! ## Buffers of 4 GiB and more (known finding F22)

Every provided `Buf` implementation reports its length as `len as u32`
(`partsLen`). The futures only ever see that number, so for a buffer of
`2^32 + k` bytes they are done after `k` bytes. The exactness theorems above
carry the hypothesis `b.size < U32` for this reason; here is what happens at
the excluded point. -/

/-- C10's first sentence for `write_all`, for buffers of ANY length: `Ok` only
after every byte of the buffer was handed to the kernel. -/
def C10_write_all_any_length : Prop :=
  ∀ (len : Nat) (ks : List Nat) (b : WBuf),
    (writeAll ⟨partsLen len, none⟩ NO_OFFSET ks).2 = .ok b →
    ((writeAll ⟨partsLen len, none⟩ NO_OFFSET ks).1.map (·.res)).sum = len

/-- It fails: a buffer of 2^32 + 1 bytes, a kernel that takes everything it is
offered — `Ok` after one byte (replayed on the implementation by the
`composite whuge` operation, recorded as known finding F22). -/
theorem C10_write_all_any_length_fails : ¬ C10_write_all_any_length := by
  intro h
  have := h (U32 + 1) [1] ⟨1, none⟩ (by decide)
  revert this
  decide

/-- Below 4 GiB it holds (a corollary of `C10_write_all_exact`). -/
theorem C10_write_all_any_length_partial (len : Nat) (hlen : len < U32) (ks : List Nat) (b : WBuf)
    (h : (writeAll ⟨partsLen len, none⟩ NO_OFFSET ks).2 = .ok b) :
    ((writeAll ⟨partsLen len, none⟩ NO_OFFSET ks).1.map (·.res)).sum = len := by
  have hp : partsLen len = len := by unfold partsLen; exact Nat.mod_eq_of_lt hlen
  rw [hp] at h ⊢
  have hx := C10_write_all_exact ⟨len, none⟩ NO_OFFSET ks (by simpa [WBuf.size] using hlen) (Or.inl rfl)
  have hk : (specW (rangePos 0 0 (WBuf.size ⟨len, none⟩)).length ks).2 = .ok := by
    rw [← hx.outcome, h]; rfl
  have := (C10_spec_write_ok _ ks hk).1
  rw [← hx.amounts] at this
  simpa [WBuf.size, rangePos_length] using this

/-- The same truncation in the other three writing futures (closed witnesses). -/
example : (sendAll ⟨partsLen (U32 + 3), none⟩ 0 false [3]).2 = .ok ⟨3, none⟩ := by decide
example : (writeAllV ⟨[⟨partsLen (U32 + 0), none⟩, ⟨2, none⟩], none⟩ NO_OFFSET [2]).2
    = .ok ⟨[⟨0, none⟩, ⟨2, none⟩], none⟩ := by decide

end A10.Composite
