/-
C15 — ReadBuf edits behave as a capacity-bounded byte vector confined to its slot.

Statement (properties.jsonl): after the kernel has filled it, a ReadBuf behaves
under truncate, clear, remove, set_len, extend_from_slice, spare_capacity_mut
and repeated reads exactly like a byte vector whose capacity is fixed at the
pool's buffer size: same contents and lengths after every valid call, growth
beyond capacity refused, invalid ranges rejected without modifying anything.
None of these calls reads or writes outside the buffer's own slot in the pool,
and they never change which slot is given back on release.

Model: `A10Verif/Model/ReadBuf.lean` (tied to `src/io/read_buf.rs` and
`src/io_uring/io.rs` by the `readbuf` correspondence component).
`step dev bs rb mem op` is the call on the real representation (fat pointer
into the pool memory), `vecStep v op` the call on a fixed-capacity vector.
-/
import A10Verif.Lemmas.ReadBuf

namespace A10.ReadBuf

/-! ### Well-formedness -/

/-- An owned buffer: its slot `[off, off + bs)` lies inside the pool memory and
its length does not exceed the capacity. -/
def WF (bs : Nat) (mem : List Byte) (off len : Nat) : Prop :=
  off + bs ≤ mem.length ∧ len ≤ bs

/-! ### Helper lemmas -/

theorem slot_length (bs off : Nat) (mem : List Byte) (h : off + bs ≤ mem.length) :
    ((mem.drop off).take bs).length = bs := by
  simp; omega

theorem startOf_checked (lo : Bound) :
    startOf lo = match lo with
      | .unbounded => some 0 | .incl s => some s | .excl s => checkedSucc s := by
  cases lo <;> simp [startOf, checkedSucc]

theorem endOf_checked (hi : Bound) (len : Nat) :
    endOf len hi = match hi with
      | .unbounded => some len | .incl e => checkedSucc e | .excl e => some e := by
  cases hi <;> simp [endOf, checkedSucc]

theorem vecRange_eq (lo hi : Bound) (len : Nat) :
    vecRange lo hi len =
      match startOf lo, endOf len hi with
      | some s, some e => if s > e then none else if e > len then none else some (s, e)
      | _, _ => none := by
  rw [startOf_checked, endOf_checked]
  rfl


/-- What "the call on the buffer equals the call on the vector" means. -/
def Refines (bs off len : Nat) (mem : List Byte) (r : Res × RB × List Byte) (v : Res × V) : Prop :=
  r.1 = v.1 ∧
  (∃ len', r.2.1 = .owned off len' ∧ WF bs r.2.2 off len' ∧ abs bs r.2.2 off len' = v.2) ∧
  ((r.1 = .panic ∨ r.1 = .err) → r.2.1 = .owned off len ∧ r.2.2 = mem)

theorem refines_same (bs off len len' : Nat) (mem : List Byte) (res : Res)
    (h1 : off + bs ≤ mem.length) (h2 : len' ≤ bs)
    (h3 : (res = .panic ∨ res = .err) → len' = len) :
    Refines bs off len mem (res, .owned off len', mem) (res, { buf := (mem.drop off).take bs, len := len' }) := by
  refine ⟨rfl, ⟨len', rfl, ⟨h1, h2⟩, rfl⟩, ?_⟩
  intro h
  simp [h3 h]

theorem refines_write (bs off len len' k : Nat) (mem d : List Byte) (res : Res)
    (h1 : off + bs ≤ mem.length) (h2 : len' ≤ bs) (hk : k + d.length ≤ bs)
    (h3 : res ≠ .panic ∧ res ≠ .err) :
    Refines bs off len mem (res, .owned off len', writeAt mem (off + k) d)
      (res, { buf := V.put { buf := (mem.drop off).take bs, len := len } k d, len := len' }) := by
  have hl : (writeAt mem (off + k) d).length = mem.length := writeAt_length _ _ _ (by omega)
  refine ⟨rfl, ⟨len', rfl, ⟨by rw [hl]; exact h1, h2⟩, ?_⟩, ?_⟩
  · simp only [abs, V.put]
    rw [slot_writeAt bs off k mem d h1 hk]
  · intro h
    rcases h with h | h
    · exact absurd h h3.1
    · exact absurd h h3.2

/-! ### Property theorems -/

/-- Every call, with every range form, on an owned buffer equals the same call
on the fixed-capacity vector its slot denotes: same outcome (which calls are
rejected: panic / `Err`), same contents, length *and* spare bytes afterwards;
the base address never changes; a rejected call modifies nothing. Dev profile
(the one the harness and the pinned suite run). -/
theorem C15_refine (bs off len : Nat) (mem : List Byte) (op : Op) (h : WF bs mem off len) :
    Refines bs off len mem (step true bs (.owned off len) mem op) (vecStep (abs bs mem off len) op) := by
  obtain ⟨h1, h2⟩ := h
  have hcap : (abs bs mem off len).cap = bs := slot_length bs off mem h1
  cases op with
  | truncate n =>
    simp only [step, vecStep, abs]
    by_cases hn : n > len
    · simp only [hn, ↓reduceIte]
      exact refines_same bs off len len mem .ok h1 h2 (fun _ => rfl)
    · simp only [hn, ↓reduceIte]
      exact refines_same bs off len n mem .ok h1 (by omega) (by simp)
  | clear => exact refines_same bs off len 0 mem .ok h1 (by omega) (by simp)
  | setLen n =>
    simp only [step, vecStep, hcap]
    simp only [abs]
    by_cases hn : n > bs
    · simp only [hn, and_self, ↓reduceIte]
      exact refines_same bs off len len mem .panic h1 h2 (fun _ => rfl)
    · simp only [hn, and_false, ↓reduceIte]
      exact refines_same bs off len n mem .ok h1 (by omega) (by simp)
  | extend d =>
    simp only [step, vecStep, hcap]
    simp only [abs]
    by_cases hn : len + d.length > bs
    · simp only [hn, ↓reduceIte]
      exact refines_same bs off len len mem .err h1 h2 (fun _ => rfl)
    · simp only [hn, ↓reduceIte]
      exact refines_write bs off len (len + d.length) len mem d .ok h1 (by omega) (by omega) (by simp)
  | spareWrite d =>
    simp only [step, vecStep, hcap]
    simp only [abs]
    by_cases hn : d.length > bs - len
    · simp only [hn, ↓reduceIte]
      exact refines_same bs off len len mem .panic h1 h2 (fun _ => rfl)
    · simp only [hn, ↓reduceIte]
      exact refines_write bs off len len len mem d .ok h1 (by omega) (by omega) (by simp)
  | set i b =>
    simp only [step, vecStep]
    simp only [abs]
    by_cases hn : i < len
    · simp only [hn, ↓reduceIte]
      exact refines_write bs off len len i mem [b] .ok h1 (by omega) (by simp; omega) (by simp)
    · simp only [hn, ↓reduceIte]
      exact refines_same bs off len len mem .panic h1 h2 (fun _ => rfl)
  | bmExtend d =>
    simp only [step, vecStep, hcap]
    simp only [abs]
    exact refines_write bs off len _ len mem _ _ h1 (by omega) (by simp; omega) (by simp)
  | kread d =>
    simp only [step, vecStep, hcap]
    simp only [abs]
    exact refines_write bs off len _ len mem _ _ h1 (by omega) (by simp; omega) (by simp)
  | remove lo hi =>
    simp only [step, vecStep]
    rw [vecRange_eq]
    simp only [abs]
    cases hs : startOf lo with
    | none => exact refines_same bs off len len mem .panic h1 h2 (fun _ => rfl)
    | some s =>
      cases he : endOf len hi with
      | none => exact refines_same bs off len len mem .panic h1 h2 (fun _ => rfl)
      | some e =>
        simp only []
        by_cases hse : s > e
        · simp only [hse, ↓reduceIte]
          exact refines_same bs off len len mem .panic h1 h2 (fun _ => rfl)
        · by_cases hel : e > len
          · simp only [hse, hel, ↓reduceIte]
            exact refines_same bs off len len mem .panic h1 h2 (fun _ => rfl)
          · simp only [hse, hel, ↓reduceIte]
            have hse' : s ≤ e := by omega
            have hel' : e ≤ len := by omega
            by_cases hshort : len - (e - s) = 0 ∨ s ≥ len - (e - s)
            · -- nothing to move: the range reaches the end of the contents
              simp only [hshort, ↓reduceIte]
              have he' : e = len := by omega
              subst he'
              have hbuf : ((mem.drop off).take bs).take s ++ (((mem.drop off).take bs).drop e).take (e - e)
                  ++ ((mem.drop off).take bs).drop (e - (e - s)) = (mem.drop off).take bs := by
                have : e - (e - s) = s := by omega
                rw [this]
                simp
              rw [hbuf]
              exact refines_same bs off e (e - (e - s)) mem .ok h1 (by omega) (by simp)
            · simp only [hshort, ↓reduceIte]
              have hn : len - (e - s) - s = len - e := by omega
              rw [hn]
              have hl : (copyWithin mem (off + s) (off + e) (len - e)).length = mem.length :=
                copyWithin_length _ _ _ _ (by omega) (by omega)
              refine ⟨rfl, ⟨_, rfl, ⟨by rw [hl]; exact h1, by omega⟩, ?_⟩, by simp⟩
              simp only [abs]
              rw [slot_copyWithin bs off s e len mem h1 hse' hel' h2]


/-! ### Confinement to the slot -/

/-- Nothing outside the slot `[off, off + bs)` changed, and the pool kept its size. -/
def Frame (bs off : Nat) (mem mem' : List Byte) : Prop :=
  mem'.length = mem.length ∧ ∀ i, (i < off ∨ off + bs ≤ i) → mem'[i]? = mem[i]?

theorem frame_refl (bs off : Nat) (mem : List Byte) : Frame bs off mem mem := ⟨rfl, fun _ _ => rfl⟩

theorem frame_trans (bs off : Nat) (m1 m2 m3 : List Byte) (h1 : Frame bs off m1 m2)
    (h2 : Frame bs off m2 m3) : Frame bs off m1 m3 :=
  ⟨h2.1.trans h1.1, fun i hi => (h2.2 i hi).trans (h1.2 i hi)⟩

theorem frame_write (bs off k : Nat) (mem d : List Byte) (h1 : off + bs ≤ mem.length)
    (hk : k + d.length ≤ bs) : Frame bs off mem (writeAt mem (off + k) d) :=
  ⟨writeAt_length _ _ _ (by omega), fun i hi => writeAt_outside _ _ _ (by omega) i (by omega)⟩

/-- No call writes outside the buffer's own slot (either profile). -/
theorem C15_frame (dev : Bool) (bs off len : Nat) (mem : List Byte) (op : Op)
    (h : WF bs mem off len) :
    Frame bs off mem (step dev bs (.owned off len) mem op).2.2 := by
  obtain ⟨h1, h2⟩ := h
  cases op with
  | truncate n => simp only [step]; split <;> exact frame_refl _ _ _
  | clear => exact frame_refl _ _ _
  | setLen n => simp only [step]; split <;> exact frame_refl _ _ _
  | extend d =>
    simp only [step]; split
    · exact frame_refl _ _ _
    · exact frame_write bs off len mem d h1 (by omega)
  | spareWrite d =>
    simp only [step]; split
    · exact frame_refl _ _ _
    · exact frame_write bs off len mem d h1 (by omega)
  | set i b =>
    simp only [step]; split
    · exact frame_write bs off i mem [b] h1 (by simp; omega)
    · exact frame_refl _ _ _
  | bmExtend d => exact frame_write bs off len mem _ h1 (by simp; omega)
  | kread d => exact frame_write bs off len mem _ h1 (by simp; omega)
  | remove lo hi =>
    simp only [step]
    cases startOf lo with
    | none => exact frame_refl _ _ _
    | some s =>
      cases endOf len hi with
      | none => exact frame_refl _ _ _
      | some e =>
        simp only []
        split
        · exact frame_refl _ _ _
        · split
          · exact frame_refl _ _ _
          · split
            · exact frame_refl _ _ _
            · refine ⟨copyWithin_length _ _ _ _ (by omega) (by omega), fun i hi => ?_⟩
              exact copyWithin_outside _ _ _ _ (by omega) (by omega) i (by omega)


/-- Reads are confined to the slot: two pools that agree on the slot give the
same outcome, the same new length and the same new slot contents. -/
theorem C15_frame_reads (bs off len : Nat) (mem1 mem2 : List Byte) (op : Op)
    (h1 : WF bs mem1 off len) (h2 : WF bs mem2 off len)
    (hagree : abs bs mem1 off len = abs bs mem2 off len) :
    (step true bs (.owned off len) mem1 op).1 = (step true bs (.owned off len) mem2 op).1 ∧
    (step true bs (.owned off len) mem1 op).2.1 = (step true bs (.owned off len) mem2 op).2.1 ∧
    ∀ len', (step true bs (.owned off len) mem1 op).2.1 = .owned off len' →
      abs bs (step true bs (.owned off len) mem1 op).2.2 off len'
        = abs bs (step true bs (.owned off len) mem2 op).2.2 off len' := by
  obtain ⟨r1, ⟨l1, e1, _, a1⟩, _⟩ := C15_refine bs off len mem1 op h1
  obtain ⟨r2, ⟨l2, e2, _, a2⟩, _⟩ := C15_refine bs off len mem2 op h2
  rw [hagree] at r1 a1
  have hl : l1 = l2 := by
    have := congrArg V.len (a1.trans a2.symm)
    simpa [abs] using this
  subst hl
  refine ⟨r1.trans r2.symm, e1.trans e2.symm, ?_⟩
  intro len' hlen'
  rw [e1] at hlen'
  cases hlen'
  exact a1.trans a2.symm

/-- Induction over edit sequences: results, final contents, frame, base pointer. -/
theorem C15_seq (bs off : Nat) (ops : List Op) : ∀ (len : Nat) (mem : List Byte),
    WF bs mem off len →
    (run true bs (.owned off len) mem ops).1 = (vecRun (abs bs mem off len) ops).1 ∧
    ∃ len', (run true bs (.owned off len) mem ops).2.1 = .owned off len' ∧
      WF bs (run true bs (.owned off len) mem ops).2.2 off len' ∧
      abs bs (run true bs (.owned off len) mem ops).2.2 off len' = (vecRun (abs bs mem off len) ops).2 ∧
      Frame bs off mem (run true bs (.owned off len) mem ops).2.2 := by
  induction ops with
  | nil =>
    intro len mem h
    exact ⟨rfl, len, rfl, h, rfl, frame_refl _ _ _⟩
  | cons op ops ih =>
    intro len mem h
    obtain ⟨r1, ⟨l1, e1, w1, a1⟩, _⟩ := C15_refine bs off len mem op h
    have f1 := C15_frame true bs off len mem op h
    obtain ⟨rr, l2, e2, w2, a2, f2⟩ := ih l1 _ w1
    simp only [run, vecRun]
    rw [e1, ← a1]
    refine ⟨?_, l2, e2, w2, a2, frame_trans _ _ _ _ _ f1 f2⟩
    simp only [r1, rr]


/-- `release` after any edit sequence publishes the id the kernel handed out and
the address of that slot (io.rs:173-176, 194-199): the fat pointer's address
never changes. -/
theorem C15_slot_stable (bs id n : Nat) (mem : List Byte) (ops : List Op)
    (hbs : 0 < bs) (hid : id < 65536) (h : WF bs mem (id * bs) n) :
    ∃ off' len', (run true bs (initBuffer bs id n) mem ops).2.1 = .owned off' len' ∧
      releaseEntry bs off' = (id, id * bs) := by
  obtain ⟨_, len', e, _, _, _⟩ := C15_seq bs (id * bs) ops n mem h
  refine ⟨id * bs, len', e, ?_⟩
  simp only [releaseEntry]
  rw [Nat.mul_div_cancel _ hbs, Nat.mod_eq_of_lt hid]

theorem slots_disjoint (bs a b : Nat) (h : a ≠ b) :
    a * bs + bs ≤ b * bs ∨ b * bs + bs ≤ a * bs := by
  rcases Nat.lt_or_gt_of_ne h with h | h
  · left
    have := Nat.mul_le_mul_right bs (show a + 1 ≤ b from h)
    rw [Nat.add_mul, Nat.one_mul] at this
    exact this
  · right
    have := Nat.mul_le_mul_right bs (show b + 1 ≤ a from h)
    rw [Nat.add_mul, Nat.one_mul] at this
    exact this

theorem slot_congr (bs off : Nat) (m1 m2 : List Byte)
    (h : ∀ i, off ≤ i → i < off + bs → m1[i]? = m2[i]?) :
    (m1.drop off).take bs = (m2.drop off).take bs := by
  apply List.ext_getElem?
  intro i
  simp only [List.getElem?_take, List.getElem?_drop]
  split
  · exact h (off + i) (by omega) (by omega)
  · rfl

/-- A call on one buffer leaves every buffer in another slot exactly as it was
(contents and spare bytes): the canaries in the neighbouring slots. -/
theorem C15_neighbours (dev : Bool) (bs a b lena lenb : Nat) (mem : List Byte) (op : Op)
    (hab : a ≠ b) (ha : WF bs mem (a * bs) lena) :
    abs bs (step dev bs (.owned (a * bs) lena) mem op).2.2 (b * bs) lenb = abs bs mem (b * bs) lenb := by
  obtain ⟨_, hf⟩ := C15_frame dev bs (a * bs) lena mem op ha
  simp only [abs]
  congr 1
  apply slot_congr
  intro i h1 h2
  apply hf
  rcases slots_disjoint bs a b hab with h | h <;> omega

/-- A `ReadBuf` without a buffer: no call modifies anything (any profile). -/
theorem C15_unowned (dev : Bool) (bs : Nat) (mem : List Byte) (op : Op) :
    (step dev bs .unowned mem op).2 = (.unowned, mem) := by
  cases op <;> simp only [step] <;> (repeat' split) <;> rfl

/-- `remove` on a `ReadBuf` without a buffer accepts exactly the ranges the
empty vector accepts (after the `fix:` commit c5fbcf6; before it `(0..k)` and
`(k..0)` were accepted). -/
theorem C15_unowned_remove (bs : Nat) (mem : List Byte) (lo hi : Bound) :
    (step true bs .unowned mem (.remove lo hi)).1 = (vecStep { buf := [], len := 0 } (.remove lo hi)).1 ∧
    (step true bs .unowned mem (.remove lo hi)).2 = (.unowned, mem) := by
  refine ⟨?_, C15_unowned true bs mem _⟩
  simp only [step, vecStep]
  rw [vecRange_eq]
  cases startOf lo with
  | none => rfl
  | some s =>
    cases endOf 0 hi with
    | none => rfl
    | some e =>
      simp only []
      by_cases hs : s = 0 <;> by_cases he : e = 0 <;> simp [hs, he] <;> (repeat' split) <;> simp_all <;> omega


/-! ### Release profile (`debug_assert!` compiled out) -/

/-- The only call on which the profiles can differ: `set_len`, whose documented
safety contract is `new_len ≤ capacity`. -/
def InContract (bs : Nat) (op : Op) : Prop := ∀ n, op = .setLen n → n ≤ bs

theorem step_release_eq (bs : Nat) (rb : RB) (mem : List Byte) (op : Op) (h : InContract bs op) :
    step false bs rb mem op = step true bs rb mem op := by
  cases op with
  | setLen n =>
    have : ¬ n > bs := by have := h n rfl; omega
    cases rb <;> simp [step, this]
  | _ => cases rb <;> rfl

/-- The full statement for the release profile: every safe call with every
range form (bounds of `usize::MAX` included, since the `fix:` commit 3770672),
and `set_len` within its contract, equals the call on the vector. -/
theorem C15_release_full (bs off len : Nat) (mem : List Byte) (op : Op) (h : WF bs mem off len)
    (hc : InContract bs op) :
    Refines bs off len mem (step false bs (.owned off len) mem op) (vecStep (abs bs mem off len) op) := by
  rw [step_release_eq bs _ mem op hc]
  exact C15_refine bs off len mem op h

/-- The defect repaired by the `fix:` commit 3770672: `start_idx + 1` without
overflow checks wrapped `Excluded(usize::MAX)` to `start = 0`, so
`remove((Excluded(usize::MAX), Unbounded))` silently emptied the buffer in a
release build; a vector (and the code now) panics. -/
def oldReleaseStartOf : Bound → Nat
  | .unbounded => 0
  | .incl s => s
  | .excl s => (s + 1) % USIZE

example : oldReleaseStartOf (.excl 18446744073709551615) = 0 ∧
    startOf (.excl 18446744073709551615) = none ∧
    (step false 4 (.owned 0 3) [1, 2, 3, 4] (.remove (.excl 18446744073709551615) .unbounded)).1 = .panic ∧
    (vecStep ⟨[1, 2, 3, 4], 3⟩ (.remove (.excl 18446744073709551615) .unbounded)).1 = .panic := by
  decide

/-! ### The reference really is a byte vector: its laws on the contents -/

theorem vec_truncate (buf : List Byte) (len n : Nat) :
    (vecStep ⟨buf, len⟩ (.truncate n)).2.contents = (V.contents ⟨buf, len⟩).take n := by
  simp only [vecStep, V.contents]
  split
  · simp only [List.take_take]; congr 1; omega
  · simp only [List.take_take]; congr 1; omega

theorem vecRange_some (lo hi : Bound) (len s e : Nat) (h : vecRange lo hi len = some (s, e)) :
    s ≤ e ∧ e ≤ len := by
  rw [vecRange_eq] at h
  split at h
  · split at h
    · simp at h
    · split at h
      · simp at h
      · simp only [Option.some.injEq, Prod.mk.injEq] at h
        omega
  · simp at h

theorem vec_remove (buf : List Byte) (len : Nat) (h : len ≤ buf.length) (lo hi : Bound) (s e : Nat)
    (hr : vecRange lo hi len = some (s, e)) :
    (vecStep ⟨buf, len⟩ (.remove lo hi)).1 = .ok ∧
    (vecStep ⟨buf, len⟩ (.remove lo hi)).2.contents
      = (V.contents ⟨buf, len⟩).take s ++ (V.contents ⟨buf, len⟩).drop e := by
  have hse := vecRange_some lo hi len s e hr
  simp only [vecStep, hr, V.contents, true_and]
  apply List.ext_getElem?
  intro i
  grind (splits := 30)

theorem vec_extend (buf : List Byte) (len : Nat) (h : len ≤ buf.length) (d : List Byte)
    (hd : len + d.length ≤ buf.length) :
    (vecStep ⟨buf, len⟩ (.extend d)).1 = .ok ∧
    (vecStep ⟨buf, len⟩ (.extend d)).2.contents = V.contents ⟨buf, len⟩ ++ d := by
  have : ¬ (len + d.length > buf.length) := by omega
  simp only [vecStep, V.cap, this, ↓reduceIte, V.contents, V.put, true_and]
  apply List.ext_getElem?
  intro i
  grind (splits := 30)

theorem vec_set (buf : List Byte) (len : Nat) (h : len ≤ buf.length) (i : Nat) (b : Byte)
    (hi : i < len) :
    (vecStep ⟨buf, len⟩ (.set i b)).1 = .ok ∧
    (vecStep ⟨buf, len⟩ (.set i b)).2.contents = (V.contents ⟨buf, len⟩).set i b := by
  simp only [vecStep, hi, ↓reduceIte, V.contents, V.put, true_and]
  apply List.ext_getElem?
  intro j
  grind (splits := 30)

theorem vec_setLen_shrink (buf : List Byte) (len : Nat) (h : len ≤ buf.length) (n : Nat)
    (hn : n ≤ len) :
    (vecStep ⟨buf, len⟩ (.setLen n)).2.contents = (V.contents ⟨buf, len⟩).take n := by
  have : ¬ (n > buf.length) := by omega
  simp only [vecStep, V.cap, this, ↓reduceIte, V.contents, List.take_take]
  congr 1; omega

theorem vec_setLen_grow (buf : List Byte) (len : Nat) (n : Nat)
    (hn : len ≤ n) (hc : n ≤ buf.length) :
    (vecStep ⟨buf, len⟩ (.setLen n)).2.contents
      = V.contents ⟨buf, len⟩ ++ (buf.drop len).take (n - len) := by
  have : ¬ (n > buf.length) := by omega
  simp only [vecStep, V.cap, this, ↓reduceIte, V.contents]
  apply List.ext_getElem?
  intro j
  grind (splits := 30)

theorem vec_spare_setLen (buf : List Byte) (len : Nat) (d : List Byte)
    (hd : len + d.length ≤ buf.length) :
    (vecStep ⟨buf, len⟩ (.spareWrite d)).2.contents = V.contents ⟨buf, len⟩ ∧
    (vecStep (vecStep ⟨buf, len⟩ (.spareWrite d)).2 (.setLen (len + d.length))).2.contents
      = V.contents ⟨buf, len⟩ ++ d := by
  have h1 : ¬ (d.length > buf.length - len) := by omega
  have hl : (V.put ⟨buf, len⟩ len d).length = buf.length := by
    simp [V.put]; omega
  have h2 : ¬ (len + d.length > buf.length) := by omega
  simp only [vecStep, V.cap, h1, ↓reduceIte, V.contents, hl, h2]
  simp only [V.put]
  constructor
  · apply List.ext_getElem?
    intro j
    grind (splits := 30)
  · apply List.ext_getElem?
    intro j
    grind (splits := 30)

theorem vec_read (buf : List Byte) (len : Nat) (h : len ≤ buf.length) (d : List Byte) :
    (vecStep ⟨buf, len⟩ (.kread d)).2.contents
      = V.contents ⟨buf, len⟩ ++ d.take (min d.length (buf.length - len)) ∧
    (vecStep ⟨buf, len⟩ (.bmExtend d)).2 = (vecStep ⟨buf, len⟩ (.kread d)).2 := by
  refine ⟨?_, rfl⟩
  simp only [vecStep, V.cap, V.contents, V.put]
  generalize hw : d.take (min d.length (buf.length - len)) = w
  have hwl : w.length ≤ buf.length - len := by
    rw [← hw]; simp; omega
  have : min d.length (buf.length - len) = w.length := by
    rw [← hw]; simp
  rw [this]
  apply List.ext_getElem?
  intro j
  grind (splits := 30)


/-- `vecStep` seen on the contents only is `Vec<u8>`: `truncate`, `clear`,
`drain(range)` (accepted ranges splice, rejected ranges change nothing),
`extend_from_slice` (refused beyond the capacity, nothing appended), indexed
store, `set_len` (shrinks like `truncate`; growing exposes the spare bytes),
writing the spare capacity then `set_len` appends, a read appends what fits. -/
theorem C15_vec_laws (v : V) (h : v.len ≤ v.cap) :
    (∀ n, (vecStep v (.truncate n)).2.contents = v.contents.take n) ∧
    (vecStep v .clear).2.contents = [] ∧
    (∀ lo hi s e, vecRange lo hi v.len = some (s, e) →
      (vecStep v (.remove lo hi)).1 = .ok ∧
      (vecStep v (.remove lo hi)).2.contents = v.contents.take s ++ v.contents.drop e) ∧
    (∀ lo hi, vecRange lo hi v.len = none → vecStep v (.remove lo hi) = (.panic, v)) ∧
    (∀ d, v.len + d.length ≤ v.cap →
      (vecStep v (.extend d)).1 = .ok ∧ (vecStep v (.extend d)).2.contents = v.contents ++ d) ∧
    (∀ d, v.len + d.length > v.cap → vecStep v (.extend d) = (.err, v)) ∧
    (∀ i b, i < v.len →
      (vecStep v (.set i b)).1 = .ok ∧ (vecStep v (.set i b)).2.contents = v.contents.set i b) ∧
    (∀ i b, ¬ i < v.len → vecStep v (.set i b) = (.panic, v)) ∧
    (∀ n, n ≤ v.len → (vecStep v (.setLen n)).2.contents = v.contents.take n) ∧
    (∀ n, v.len ≤ n → n ≤ v.cap →
      (vecStep v (.setLen n)).2.contents = v.contents ++ (v.buf.drop v.len).take (n - v.len)) ∧
    (∀ d, v.len + d.length ≤ v.cap →
      (vecStep v (.spareWrite d)).2.contents = v.contents ∧
      (vecStep (vecStep v (.spareWrite d)).2 (.setLen (v.len + d.length))).2.contents
        = v.contents ++ d) ∧
    (∀ d, (vecStep v (.kread d)).2.contents = v.contents ++ d.take (min d.length (v.cap - v.len))) := by
  obtain ⟨buf, len⟩ := v
  have h' : len ≤ buf.length := h
  refine ⟨vec_truncate buf len, by simp [vecStep, V.contents], vec_remove buf len h', ?_,
    vec_extend buf len h', ?_, vec_set buf len h', ?_, vec_setLen_shrink buf len h',
    vec_setLen_grow buf len, vec_spare_setLen buf len, fun d => (vec_read buf len h' d).1⟩
  · intro lo hi hr
    simp only [vecStep, hr]
  · intro d hd
    have hd' : len + d.length > buf.length := hd
    simp only [vecStep, V.cap, hd', ↓reduceIte]
  · intro i b hi
    have hi' : ¬ i < len := hi
    simp only [vecStep, hi', ↓reduceIte]

/-- The kernel fills slot `id` (the published entry `(id, id * bs)`), a10
computes the buffer from the id (io.rs:151-163): the buffer holds exactly the
bytes read, nothing outside the slot changed. -/
theorem C15_fill (bs id : Nat) (mem d : List Byte) (h : id * bs + bs ≤ mem.length) :
    initBuffer bs id (min d.length bs) = .owned (id * bs) (min d.length bs) ∧
    WF bs (writeAt mem (id * bs) (d.take (min d.length bs))) (id * bs) (min d.length bs) ∧
    (abs bs (writeAt mem (id * bs) (d.take (min d.length bs))) (id * bs) (min d.length bs)).contents
      = d.take (min d.length bs) ∧
    Frame bs (id * bs) mem (writeAt mem (id * bs) (d.take (min d.length bs))) := by
  generalize hw : d.take (min d.length bs) = w
  have hwl : w.length = min d.length bs := by rw [← hw]; simp
  have hf := frame_write bs (id * bs) 0 mem w h (by omega)
  rw [Nat.add_zero] at hf
  refine ⟨rfl, ⟨by rw [hf.1]; exact h, Nat.min_le_right _ _⟩, ?_, hf⟩
  have := slot_writeAt bs (id * bs) 0 mem w h (by omega)
  rw [Nat.add_zero] at this
  simp only [abs, V.contents, this, ← hwl]
  simp

/-- A `ReadBuf` without a buffer answers every call like the empty vector
without capacity — except that `set_len(n)` with `0 < n ≤ buf_size` is accepted
as a no-op and `extend_from_slice(&[])` reports `Err`. -/
theorem C15_unowned_as_empty_vec (bs : Nat) (mem : List Byte) (op : Op)
    (h1 : op ≠ .extend []) (h2 : ∀ n, op = .setLen n → n = 0 ∨ n > bs) :
    (step true bs .unowned mem op).1 = (vecStep { buf := [], len := 0 } op).1 := by
  cases op with
  | remove lo hi => exact (C15_unowned_remove bs mem lo hi).1
  | setLen n =>
    rcases h2 n rfl with h | h
    · subst h; simp [step, vecStep, V.cap]
    · have : n > 0 := by omega
      simp [step, vecStep, V.cap, h, this]
  | extend d =>
    have : d.length > 0 := by
      cases d with
      | nil => exact absurd rfl h1
      | cons _ _ => simp
    simp [step, vecStep, V.cap, this]
  | spareWrite d =>
    simp only [step, vecStep, V.cap, List.length_nil, Nat.sub_zero]
    by_cases hd : d.length > 0 <;> simp only [hd, ↓reduceIte]
  | truncate n => simp only [step, vecStep]; split <;> rfl
  | clear => rfl
  | set i b => simp [step, vecStep]
  | bmExtend d => simp [step, vecStep, V.cap]
  | kread d => simp [step, vecStep, V.cap]

/-! ### Non-vacuity: concrete buffers meet the hypotheses, concrete calls -/

/-- A pool of two 4-byte slots; the buffer in slot 1 holds 3 bytes. -/
example : WF 4 [9, 9, 9, 9, 1, 2, 3, 4] 4 3 := ⟨by decide, by decide⟩

/-- `remove(0..=0)` shifts the tail inside slot 1 only. -/
example : step true 4 (.owned 4 3) [9, 9, 9, 9, 1, 2, 3, 4] (.remove (.incl 0) (.excl 1))
    = (.ok, .owned 4 2, [9, 9, 9, 9, 2, 3, 3, 4]) := by decide

/-- Out of range: rejected, nothing modified. -/
example : step true 4 (.owned 4 3) [9, 9, 9, 9, 1, 2, 3, 4] (.remove .unbounded (.incl 3))
    = (.panic, .owned 4 3, [9, 9, 9, 9, 1, 2, 3, 4]) := by decide

/-- Growth beyond the capacity refused. -/
example : step true 4 (.owned 4 3) [9, 9, 9, 9, 1, 2, 3, 4] (.extend [7, 7])
    = (.err, .owned 4 3, [9, 9, 9, 9, 1, 2, 3, 4]) := by decide

/-- A sequence, then release: slot 1 at offset 4 is given back. -/
example : (run true 4 (initBuffer 4 1 3) [9, 9, 9, 9, 1, 2, 3, 4]
      [.remove (.excl 0) .unbounded, .extend [5, 6], .truncate 2, .setLen 4]).2
    = (.owned 4 4, [9, 9, 9, 9, 1, 5, 6, 4]) ∧ releaseEntry 4 4 = (1, 4) := by decide

example : vecRange (.excl 0) (.incl 1) 3 = some (1, 2) := by decide
example : InContract 4 (.setLen 3) := by intro n h; cases h; decide

/-- The defect repaired by the `fix:` commit c5fbcf6: the old test
`start != 0 && end != 0` accepted `remove(0..5)` on a `ReadBuf` without a
buffer (e.g. the zero sized result of a multishot read); a vector panics. -/
def oldUnownedRemoveAccepts (s e : Nat) : Bool := ¬ (s ≠ 0 ∧ e ≠ 0)

example : oldUnownedRemoveAccepts 0 5 = true ∧
    (vecStep { buf := [], len := 0 } (.remove (.incl 0) (.excl 5))).1 = .panic ∧
    (step true 4 .unowned [] (.remove (.incl 0) (.excl 5))).1 = .panic := by decide

/-- **Growth beyond the capacity is refused whatever the size of the slice** — in
particular for slices of 2^32 bytes and more, whose length does not fit the
`u32` spare capacity: the outcome of `extend_from_slice` depends on the length
of the slice only, the buffer and the pool memory stay as they were (and an
unowned `ReadBuf` refuses every slice). The `exthuge` op of the correspondence
uses this: a slice of `n ≥ 2^32` bytes behaves like one of `bs + 1` bytes. -/
theorem C15_extend_refused_of_long (dev : Bool) (bs : Nat) (rb : RB) (mem : List Byte)
    (d : List Byte) (hd : d.length > bs) :
    step dev bs rb mem (.extend d) = (.err, rb, mem) := by
  cases rb with
  | owned off len =>
    simp only [step]
    have : len + d.length > bs := by omega
    simp [this]
  | unowned => simp [step]

example : step true 4 (.owned 4 3) [9, 9, 9, 9, 1, 2, 3, 4] (.extend (List.replicate 5 0))
    = (.err, .owned 4 3, [9, 9, 9, 9, 1, 2, 3, 4]) := by decide

end A10.ReadBuf
