/-
Model of ONE operation's state machine: `src/io_uring/op.rs`.

* `Op.poll`     — `poll_inner` (op.rs:786-955), the `Future::poll` / `poll_next` path
* `Op.update`   — `Shared::update` (op.rs:268-312) + the caller in
                  `Completion::process` (cq.rs:226-239): wake / free / nothing
* `Op.dropFut`  — `State::drop` (op.rs:182-205) + `drop_state` (op.rs:243-261)

Every critical section runs under the operation's mutex, so each function is
one atomic step. Ghost fields (`frees`, `resDrops`, `handedOut`) only record
history for the theorems; they never influence behaviour.
-/
import A10Verif.Model.Basic

namespace A10

/-- A completion result: `res` and the raw CQE flags. -/
structure Res where
  res : Int
  flags : Nat
  deriving Repr, DecidableEq, Inhabited

def EINTR : Int := 4
def ECANCELED : Int := 125

/-- `IORING_CQE_F_BUFFER` (bit 0). -/
def Res.hasBuf (f : Nat) : Bool := f % 2 == 1
/-- `IORING_CQE_F_MORE` (bit 1): more completions follow. -/
def fMore (f : Nat) : Bool := f / 2 % 2 == 1
/-- `IORING_CQE_F_NOTIF` (bit 3): zero-copy notification. -/
def fNotif (f : Nat) : Bool := f / 8 % 2 == 1
/-- `IORING_CQE_F_SKIP` (bit 5). -/
def fSkip (f : Nat) : Bool := f / 32 % 2 == 1

/-- Result container: `Singleshot` (one slot, initialised to `(0, 0)`) or
`Multishot` (FIFO vector). op.rs:424-477 -/
inductive Results where
  | single (r : Res)
  | multi (q : List Res)
  deriving Repr, DecidableEq

/-- `OpResult::empty`. -/
def Results.empty (multi : Bool) : Results :=
  if multi then .multi [] else .single ⟨0, 0⟩

/-- `OpResult::update`: the zero-copy notification does not overwrite the
stored result; a multishot result is queued. op.rs:434-441, 459-461 -/
def Results.update (r : Results) (c : Res) : Results :=
  match r with
  | .single old => if fNotif c.flags then .single old else .single c
  | .multi q => .multi (q ++ [c])

/-- `OpResult::next`. -/
def Results.next (r : Results) : Option (Res × Results) :=
  match r with
  | .single x => some (x, .single x)
  | .multi [] => none
  | .multi (x :: q) => some (x, .multi q)

def Results.hasNext : Results → Bool
  | .single _ => false
  | .multi q => !q.isEmpty

/-- op.rs:93-109 -/
inductive Status where
  | notStarted
  | running (r : Results)
  | done (r : Results)
  | dropped
  | complete
  deriving Repr, DecidableEq

structure Op where
  multi : Bool
  status : Status := .notStarted
  /-- `Shared::waker` -/
  waker : Option Nat := none
  /-- the `Box<Data>` is allocated -/
  boxLive : Bool := true
  /-- `Tail::resources` is initialised and owned by the state -/
  resInit : Bool := true
  /-- the Future / AsyncIterator object exists -/
  futLive : Bool := true
  -- ghost
  frees : Nat := 0
  /-- times the resources were dropped in place or moved out to the caller -/
  resDrops : Nat := 0
  deriving Repr, DecidableEq

/-- What a poll returns to the caller. -/
inductive PollOut where
  | pending
  | readyOk (r : Res)
  | readyErr (e : Int)
  /-- end of a multishot stream -/
  | readyNone
  | panic
  deriving Repr, DecidableEq

/-- Effects of one step on the rest of the system. -/
inductive Eff where
  /-- a submission for this operation was written to the SQ -/
  | submit
  /-- the queue was full: the waker was pushed on the blocked list -/
  | blocked (w : Nat)
  /-- `ASYNC_CANCEL` for this operation's `user_data` was written to the SQ -/
  | cancel
  | wake (w : Nat)
  /-- `drop_state`: the box was freed -/
  | free
  deriving Repr, DecidableEq

/-- `poll_inner`. `sqRoom` tells whether `Submissions::add` succeeds; `fuel`
bounds the restart loop (one restart per call suffices: after a restart the
`NotStarted` arm always returns). -/
def Op.pollAux (o : Op) (w : Nat) (sqRoom : Bool) : Nat → Op × PollOut × List Eff
  | 0 => (o, .panic, [])
  | fuel + 1 =>
    match o.status with
    | .notStarted =>
      if sqRoom then
        ({ o with waker := some w, status := .running (Results.empty o.multi) }, .pending, [.submit])
      else
        (o, .pending, [.blocked w])
    | .running r =>
      if o.multi then
        match r.next with
        | none => ({ o with waker := some w }, .pending, [])
        | some (x, r') =>
          if x.res ≥ 0 then ({ o with status := .running r' }, .readyOk x, [])
          else ({ o with status := .running r' }, .readyErr (-x.res), [])
      else
        ({ o with waker := some w }, .pending, [])
    | .done r =>
      match r.next with
      | none =>
        -- multishot: all results processed
        ({ o with status := .complete, resInit := false, resDrops := o.resDrops + 1 }, .readyNone, [])
      | some (x, r') =>
        if x.res ≥ 0 then
          if o.multi then ({ o with status := .done r' }, .readyOk x, [])
          else ({ o with status := .complete, resInit := false, resDrops := o.resDrops + 1 },
                .readyOk x, [])
        else if -x.res = EINTR ∨ -x.res = ECANCELED then
          if o.multi && r'.hasNext then (o, .panic, [])
          else ({ o with status := .notStarted }).pollAux w sqRoom fuel
        else
          if o.multi then ({ o with status := .done r' }, .readyErr (-x.res), [])
          else ({ o with status := .complete, resInit := false, resDrops := o.resDrops + 1 },
                .readyErr (-x.res), [])
    | .dropped => (o, .panic, [])
    | .complete => (o, .panic, [])

def Op.poll (o : Op) (w : Nat) (sqRoom : Bool) : Op × PollOut × List Eff :=
  o.pollAux w sqRoom 2

/-- `Shared::update` + what `Completion::process` does with its answer.
`none` = `unreachable!()` (a completion for an operation that is not running). -/
def Op.update (o : Op) (c : Res) : Option (Op × List Eff) :=
  match o.status with
  | .running r | .done r =>
    let r' := r.update c
    let fin := !fMore c.flags
    let st : Status := if fin then .done r' else
      (match o.status with | .done _ => .done r' | _ => .running r')
    if fin || o.multi then
      match o.waker with
      | some w => some ({ o with status := st, waker := none }, [.wake w])
      | none => some ({ o with status := st }, [])
    else some ({ o with status := st }, [])
  | .dropped =>
    if !fMore c.flags then
      some ({ o with boxLive := false, resInit := false, frees := o.frees + 1,
                     resDrops := o.resDrops + 1 }, [.free])
    else some (o, [])
  | .notStarted | .complete => none

/-- `State::drop`. `sqRoom`: whether the cancel request fits in the queue. -/
def Op.dropFut (o : Op) (sqRoom : Bool) : Op × List Eff :=
  match o.status with
  | .running _ =>
    ({ o with status := .dropped, futLive := false }, if sqRoom then [.cancel] else [])
  | .complete =>
    ({ o with futLive := false, boxLive := false, frees := o.frees + 1 }, [.free])
  | _ =>
    ({ o with futLive := false, boxLive := false, resInit := false, frees := o.frees + 1,
              resDrops := o.resDrops + 1 }, [.free])

/-- `OpState::reset` (op.rs:207-215): only allowed when complete. -/
def Op.reset (o : Op) : Option Op :=
  match o.status with
  | .complete => some { o with status := .notStarted, resInit := true }
  | _ => none

/-- `resources_mut` / `args_mut` (op.rs:148-180): builder setters only reach the
state before the first submission. -/
def Op.builderAccess (o : Op) : Bool :=
  match o.status with
  | .notStarted => true
  | _ => false

end A10
