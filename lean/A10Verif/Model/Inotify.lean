/-
Model of the inotify back end of `a10::fs::notify` (src/inotify/mod.rs,
src/fs/notify.rs): the watch table, the `Events` iterator's state machine
`reading | processing buf processed | done`, and the record walk of
`Events::poll_sys` over the variable-length `struct inotify_event` records the
kernel wrote into the read buffer.

Bytes are `Nat`s `< 256`; 32-bit fields are `Nat`s `< 2^32` (a watch
descriptor is the raw 32-bit pattern of the C `int`; it is printed signed).
x86-64 Linux layout: `struct inotify_event { int wd; u32 mask; u32 cookie;
u32 len; char name[]; }`, 16-byte header, little endian.

Ghost state (not in the code): which read *generation* the buffer holds, the
bytes the buffer's allocation currently contains, whether that allocation
still exists / is handed to the kernel, and the events handed out to the
caller with the generation they point into.
-/
import A10Verif.Model.Basic

namespace A10.Inotify

/-! ### Constants (libc) -/

def IN_IGNORED : Nat := 0x8000
def IN_Q_OVERFLOW : Nat := 0x4000
/-- `size_of::<libc::inotify_event>()`. -/
def HDR : Nat := 16
/-- `BUF_SIZE` (src/inotify/mod.rs:32): header + NAME_MAX + 1. -/
def BUF_SIZE : Nat := 272
def EINTR : Nat := 4
def ECANCELED : Nat := 125

/-- `mask & bit != 0`. -/
def hasBit (mask bit : Nat) : Bool := mask &&& bit != 0

def isIgnored (mask : Nat) : Bool := hasBit mask IN_IGNORED
def isOverflow (mask : Nat) : Bool := hasBit mask IN_Q_OVERFLOW

/-! ### Wire format -/

/-- Little-endian bytes of a 32-bit value. -/
def le32 (x : Nat) : List Nat :=
  [x % 256, x / 256 % 256, x / 65536 % 256, x / 16777216 % 256]

/-- Read a little-endian 32-bit value at byte offset `off` (bytes outside the
buffer read as 0; `walk` flags such reads). -/
def rd32 (b : List Nat) (off : Nat) : Nat :=
  b.getD off 0 + 256 * b.getD (off + 1) 0 + 65536 * b.getD (off + 2) 0
    + 16777216 * b.getD (off + 3) 0

/-- One inotify record as the kernel queues it: the name is followed by `pad`
NUL bytes (`len = |name| + pad`). -/
structure Record where
  wd : Nat
  mask : Nat
  cookie : Nat
  name : List Nat
  pad : Nat
  deriving Repr, DecidableEq

/-- The `len` field. -/
def Record.len (r : Record) : Nat := r.name.length + r.pad

/-- Bytes the record occupies in the read buffer. -/
def Record.size (r : Record) : Nat := HDR + r.len

/-- `copy_event_to_user` (fs/notify/inotify/inotify_user.c): header, name, NUL padding. -/
def encode (r : Record) : List Nat :=
  le32 r.wd ++ (le32 r.mask ++ (le32 r.cookie ++ (le32 r.len ++ (r.name ++ List.replicate r.pad 0))))

/-- A read returns whole records, back to back. -/
def encodeAll : List Record → List Nat
  | [] => []
  | r :: rs => encode r ++ encodeAll rs

/-! ### Watch table (`Watching = HashMap<WatchFd, PathBufWithNull>`, src/inotify/mod.rs:22-31) -/

abbrev Watches := List (Nat × List Nat)

def lookup (w : Watches) (wd : Nat) : Option (List Nat) :=
  match w with
  | [] => none
  | (k, v) :: rest => if k = wd then some v else lookup rest wd

def remove (w : Watches) (wd : Nat) : Watches :=
  w.filter (fun kv => kv.1 != wd)

/-- `HashMap::insert` (src/inotify/mod.rs:99): an existing entry is overwritten. -/
def insert (w : Watches) (wd : Nat) (path : List Nat) : Watches :=
  (wd, path) :: remove w wd

/-! ### Events -/

/-- What a `&notify::Event` denotes: the record at byte offset `off` of the
read buffer, with the name cut to `path_len` bytes. -/
structure Event where
  off : Nat
  wd : Nat
  mask : Nat
  cookie : Nat
  name : List Nat
  deriving Repr, DecidableEq

/-- `Iterator::rposition`: index of the last element satisfying `p`. -/
def rposition (p : Nat → Bool) : List Nat → Option Nat
  | [] => none
  | x :: xs =>
    match rposition p xs with
    | some n => some (n + 1)
    | none => if p x then some 0 else none

/-- src/inotify/mod.rs:205:
`path.iter().rposition(|b| *b != 0).map_or(len, |n| n + 1)`. -/
def pathLen (path : List Nat) (len : Nat) : Nat :=
  match rposition (fun b => b != 0) path with
  | some n => n + 1
  | none => len

/-- `PathBuf::push` on Unix (std, modelled): an absolute `name` replaces the
base, otherwise a separator is added unless the base already ends in one. -/
def joinPath (base name : List Nat) : List Nat :=
  if name.head? == some 47 then name
  else if base.isEmpty || base.getLast? == some 47 then base ++ name
  else base ++ (47 :: name)

/-- `Events::path_for_sys` (src/inotify/mod.rs:140-153). -/
def pathFor (w : Watches) (e : Event) : List Nat :=
  match lookup w e.wd with
  | some p => if e.name.isEmpty then p else joinPath p e.name
  | none => e.name

/-! ### The record walk of `poll_sys` (src/inotify/mod.rs:162-217) -/

inductive WalkRes where
  /-- `return Poll::Ready(Some(Ok(event)))` with `processed` advanced. -/
  | event (processed : Nat) (w : Watches) (oob : Bool) (ev : Event)
  /-- `buf.len() > processed` is false: all records consumed. -/
  | exhausted (w : Watches) (oob : Bool)
  /-- A `debug_assert!` failed (1: header, line 167; 2: record, line 178;
  0: the model ran out of fuel, which `walk_fuel` shows cannot happen). -/
  | panic (which : Nat) (processed : Nat) (w : Watches) (oob : Bool)
  deriving Repr, DecidableEq

/-- The `Processing` arm of the loop, up to the first event handed out.

`dbg` = debug assertions on (dev profile). `oob` is a ghost flag: it becomes
true as soon as a byte outside `buf` is read (header fields at line 176/183/185,
the name bytes at lines 197-205). Each iteration advances `processed` by at
least 16, so `buf.length + 1` iterations always suffice. -/
def walk (dbg : Bool) : Nat → List Nat → Nat → Watches → Bool → WalkRes
  | 0, _, processed, w, oob => .panic 0 processed w oob
  | fuel + 1, buf, processed, w, oob =>
    if buf.length > processed then
      if dbg && decide (buf.length < processed + HDR) then .panic 1 processed w oob
      else
        let oob := oob || decide (buf.length < processed + HDR)
        -- Length of the event's path is dynamic.
        let len := rd32 buf (processed + 12)
        let processed' := processed + HDR + len
        if dbg && decide (buf.length < processed') then .panic 2 processed' w oob
        else
          let mask := rd32 buf (processed + 4)
          if isIgnored mask then
            walk dbg fuel buf processed' (remove w (rd32 buf processed)) oob
          else if isOverflow mask then
            walk dbg fuel buf processed' w oob
          else
            let path := (buf.drop (processed + HDR)).take len
            let oob := oob || decide (buf.length < processed')
            .event processed' w oob
              { off := processed
                wd := rd32 buf processed
                mask := mask
                cookie := rd32 buf (processed + 8)
                name := path.take (pathLen path len) }
    else .exhausted w oob

/-! ### Iterator state machine (src/inotify/mod.rs:119-137, 219-257) -/

inductive ReadRes where
  | ok (bytes : List Nat)
  | err (errno : Nat)
  deriving Repr, DecidableEq

inductive EvState where
  /-- `Reading(read)`: `submitted` = the READ has been queued (`Status::Running`
  or later), `res` = the completion has arrived and not been polled yet. -/
  | reading (submitted : Bool) (res : Option ReadRes)
  | processing (buf : List Nat) (processed : Nat)
  | done
  deriving Repr, DecidableEq

/-- Ghost: an `&'w Event` handed out by `poll_next`. -/
structure Handed where
  /-- generation of the buffer contents it points into -/
  gen : Nat
  off : Nat
  len : Nat
  /-- the bytes it denoted when handed out -/
  bytes : List Nat
  deriving Repr, DecidableEq

structure St where
  watches : Watches := []
  /-- the `Events` iterator, if one exists -/
  iter : Option EvState := none
  /-- ghost: some read went outside the bytes of the buffer -/
  oob : Bool := false
  /-- ghost: bytes in the allocation of the iterator's `Vec` -/
  mem : List Nat := []
  /-- ghost: that allocation exists -/
  live : Bool := false
  /-- ghost: it is handed to the kernel (READ queued or in flight) -/
  kernel : Bool := false
  /-- ghost: READ of a dropped iterator still in flight (a10 keeps the buffer
  until the completion arrives, src/io_uring/op.rs:182-199) -/
  orphan : Bool := false
  /-- ghost: bumped whenever the buffer is handed back / a new one is made -/
  gen : Nat := 0
  /-- ghost: events handed out since the `Watcher` was last borrowed -/
  kept : List Handed := []
  deriving Repr, DecidableEq

def init : St := {}

inductive PollOut where
  | pending
  | event (e : Event)
  | none
  | err (errno : Nat)
  | panic (which : Nat)
  | badState
  deriving Repr, DecidableEq

/-- src/io_uring/op.rs:914-932: interrupted / cancelled operations restart. -/
def restartable (e : Nat) : Bool := e == EINTR || e == ECANCELED

/-- The `Processing` arm: walk to the next event or hand the buffer back. -/
def processStep (dbg : Bool) (s : St) (buf : List Nat) (processed : Nat) : St × PollOut :=
  match walk dbg (buf.length + 1) buf processed s.watches s.oob with
  | .event p' w oob ev =>
    let n := HDR + ev.name.length
    ({ s with
        iter := some (.processing buf p'), watches := w, oob := oob
        kept := s.kept ++ [{ gen := s.gen, off := ev.off, len := n, bytes := (s.mem.drop ev.off).take n }] },
      .event ev)
  | .exhausted w oob =>
    -- lines 219-231: `buf.clear(); this.state = Reading(fd.read(buf))`, and the
    -- next loop iteration polls the new read, which queues it: Pending.
    ({ s with
        iter := some (.reading true none), watches := w, oob := oob
        kernel := true, gen := s.gen + 1 },
      .pending)
  | .panic k p' w oob =>
    ({ s with iter := some (.processing buf p'), watches := w, oob := oob }, .panic k)

/-- `Events::poll_next` = `poll_sys` (src/inotify/mod.rs:155-259). -/
def pollNext (dbg : Bool) (s : St) : St × PollOut :=
  match s.iter with
  | none => (s, .badState)
  | some .done => (s, .none)
  | some (.reading false _) =>
    -- first poll of the read future: queue the READ
    ({ s with iter := some (.reading true none), kernel := true }, .pending)
  | some (.reading true none) => (s, .pending)
  | some (.reading true (some (.err e))) =>
    if restartable e then
      ({ s with iter := some (.reading true none), kernel := true }, .pending)
    else
      -- line 248-252; the buffer is dropped with the failed operation
      ({ s with iter := some .done, live := false }, .err e)
  | some (.reading true (some (.ok bytes))) =>
    if bytes.isEmpty then
      -- line 236-239: `buf` is dropped
      ({ s with iter := some .done, live := false }, .none)
    else
      processStep dbg { s with iter := some (.processing bytes 0) } bytes 0
  | some (.processing buf processed) => processStep dbg s buf processed

/-- `Watcher::watch_directory` / `Events::watch_directory`
(src/inotify/mod.rs:76-101). `ok` = `inotify_add_watch` succeeded and returned
`wd`. With no iterator the call needs `&mut Watcher`, which ends the borrow
every handed-out `&'w Event` depends on. -/
def opWatch (s : St) (wd : Nat) (path : List Nat) (ok : Bool) : St :=
  let s := if s.iter.isSome then s else { s with kept := [] }
  if ok then { s with watches := insert s.watches wd path } else s

/-- `Watcher::events` (src/fs/notify.rs:152-160): a fresh buffer
(`Vec::with_capacity(BUF_SIZE)`), nothing queued yet. `none` if an iterator
already exists (the harness answers `bad-state`). A READ left behind by a
dropped iterator is finished first (the harness lets the kernel answer the
cancellation). -/
def opEvents (s : St) : Option St :=
  if s.iter.isSome then none
  else some { s with
    iter := some (.reading false none)
    mem := List.replicate BUF_SIZE 0
    live := true, kernel := false, orphan := false
    gen := s.gen + 1, kept := [] }

/-- The kernel writes `bytes` at the start of the buffer. -/
def writeMem (mem bytes : List Nat) : List Nat := bytes ++ mem.drop bytes.length

/-- Buffer contents after the completion: data is written, an error writes nothing. -/
def memAfter (mem : List Nat) : ReadRes → List Nat
  | .ok bytes => writeMem mem bytes
  | .err _ => mem

/-- The kernel completes the READ. Returns the number of wake-ups, `none` if no
READ is in flight. -/
def complete (s : St) (r : ReadRes) : St × Option Nat :=
  match s.iter, s.orphan with
  | some (.reading true none), _ =>
    ({ s with iter := some (.reading true (some r)), mem := memAfter s.mem r, kernel := false }, some 1)
  | none, true =>
    -- the operation state of the dropped future is freed, the buffer with it
    ({ s with mem := memAfter s.mem r, live := false, kernel := false, orphan := false }, some 0)
  | _, _ => (s, none)

/-- Dropping the iterator. -/
def dropEvents (s : St) : Option St :=
  match s.iter with
  | none => none
  | some (.reading true none) => some { s with iter := none, orphan := true }
  | some .done => some { s with iter := none }
  | some _ => some { s with iter := none, live := false }

/-- Does the handed-out event still denote the bytes it denoted? -/
def snapOk (s : St) (h : Handed) : Bool := (s.mem.drop h.off).take h.len == h.bytes

/-! ### Typed operations (for the theorems) -/

inductive Op where
  | watch (wd : Nat) (path : List Nat) (ok : Bool)
  | events
  | poll
  | complete (r : ReadRes)
  | dropEvents
  | check
  deriving Repr, DecidableEq

def applyOp (dbg : Bool) (s : St) : Op → St
  | .watch wd path ok => opWatch s wd path ok
  | .events => (opEvents s).getD s
  | .poll => (pollNext dbg s).1
  | .complete r => (complete s r).1
  | .dropEvents => (dropEvents s).getD s
  | .check => s

def run (dbg : Bool) (s : St) (ops : List Op) : St := ops.foldl (applyOp dbg) s

/-! ### Line protocol -/

def hexDigit (n : Nat) : Char :=
  if n < 10 then Char.ofNat (48 + n) else Char.ofNat (87 + n)

def hexByte (b : Nat) : String := String.ofList [hexDigit (b / 16 % 16), hexDigit (b % 16)]

def hex (bs : List Nat) : String :=
  if bs.isEmpty then "-" else String.join (bs.map hexByte)

def unhexDigit (c : Char) : Option Nat :=
  if '0' ≤ c ∧ c ≤ '9' then some (c.toNat - 48)
  else if 'a' ≤ c ∧ c ≤ 'f' then some (c.toNat - 87)
  else none

def unhexList : List Char → Option (List Nat)
  | [] => some []
  | [_] => none
  | a :: b :: rest => do
    let x ← unhexDigit a
    let y ← unhexDigit b
    let r ← unhexList rest
    pure ((16 * x + y) :: r)

def unhex (s : String) : Option (List Nat) :=
  if s == "-" then some [] else unhexList s.toList

/-- `i32` reading of a 32-bit pattern. -/
def toI32 (x : Nat) : Int := if x < 2147483648 then (x : Int) else (x : Int) - 4294967296

/-- The public getters of `Event` (src/inotify/mod.rs:279-336, src/fs/notify.rs:366-477),
in the order the harness prints them. -/
def bitMasks : List Nat :=
  [0x40000000, 0x1, 0x2, 0x4, 0x8, 0x10, 0x18, 0x20, 0x400, 0x800, 0x2000, 0x40, 0x80, 0xC0, 0x100, 0x200]

def bitsString (mask : Nat) : String :=
  String.ofList (bitMasks.map (fun b => if hasBit mask b then '1' else '0'))

/-- `util::errno_name` / `io_err_name` for the errors the scripts use; EINVAL
becomes `ErrorKind::Unsupported` (src/io_uring/op.rs:992-1000). -/
def errName (e : Nat) : String :=
  if e == 4 then "EINTR" else if e == 5 then "EIO" else if e == 9 then "EBADF"
  else if e == 11 then "EAGAIN" else if e == 12 then "ENOMEM" else if e == 22 then "Unsupported"
  else if e == 125 then "ECANCELED" else s!"E{e}"

def parseRecord (s : String) : Option Record :=
  match s.splitOn ":" with
  | [wd, mask, cookie, name, pad] =>
    match parseNat wd, parseNat mask, parseNat cookie, unhex name, parseNat pad with
    | some wd, some mask, some cookie, some name, some pad =>
      if wd < 4294967296 ∧ mask < 4294967296 ∧ cookie < 4294967296 then
        some { wd, mask, cookie, name, pad }
      else none
    | _, _, _, _, _ => none
  | _ => none

def showComplete : Option Nat → List String
  | some n => [s!"completed cap={BUF_SIZE} wake={n}"]
  | none => ["no-read"]

def showPoll (w : Watches) : PollOut → String
  | .pending => "pending"
  | .none => "none"
  | .err e => s!"err {errName e}"
  | .badState => "bad-state"
  | .panic k => if k == 1 then "panic assert-header" else if k == 2 then "panic assert-record" else "panic fuel"
  | .event e =>
    s!"event off={e.off} wd={toI32 e.wd} mask={e.mask} cookie={e.cookie} name={hex e.name} path={hex (pathFor w e)} bits={bitsString e.mask}"

def showKept (s : St) : List String :=
  if s.kept.isEmpty then ["kept none"]
  else
    (s.kept.zipIdx).map fun (h, i) =>
      let same := if s.live then (if snapOk s h then "1" else "0") else "-"
      s!"kept {i} live={if s.live then 1 else 0} kernel={if s.kernel then 1 else 0} same={same}"

def allBytes (l : List Nat) : Bool := l.all (· < 256)

/-- One op of the `inotify` component (dev profile: debug assertions on). -/
def stepLine (s : St) (toks : List String) : St × List String :=
  match toks with
  | ["inotify", "begin", _] => (init, [])
  | ["inotify", "watch", wd, path, mk] =>
    match parseInt wd, unhex path, parseNat mk with
    | some wd, some path, some mk =>
      if wd < 0 ∨ wd ≥ 2147483648 then (s, ["bad-op"])
      else if mk == 0 then (opWatch s wd.toNat path false, ["err ENOENT"])
      else (opWatch s wd.toNat path true, ["ok"])
    | _, _, _ => (s, ["bad-op"])
  -- the directory at `path` is moved aside and a new one created: nothing a10 knows
  -- changes (the old descriptor keeps its path in the table; the next `watch` of
  -- the path is told a new descriptor by the kernel)
  | ["inotify", "replace", path] =>
    match unhex path with
    | some p => if p.getLast? == some 47 then (s, ["bad-op"]) else (s, ["ok"])
    | none => (s, ["bad-op"])
  | ["inotify", "events"] =>
    match opEvents s with
    | some s' => (s', ["ok"])
    | none => (s, ["bad-state"])
  | ["inotify", "poll"] =>
    let (s', o) := pollNext true s
    (s', [showPoll s'.watches o])
  | "inotify" :: "read" :: recs =>
    if recs.isEmpty then (s, ["bad-op"])
    else
      let parsed : Option (List Record) :=
        if recs == ["-"] then some [] else recs.mapM parseRecord
      match parsed with
      | some rs =>
        if (encodeAll rs).length ≤ BUF_SIZE ∧ rs.all (fun r => allBytes r.name) then
          let (s', o) := complete s (.ok (encodeAll rs))
          (s', showComplete o)
        else (s, ["bad-op"])
      | none => (s, ["bad-op"])
  | ["inotify", "readraw", h] =>
    match unhex h with
    | some bytes =>
      if bytes.length ≤ BUF_SIZE ∧ ¬ bytes.isEmpty then
        let (s', o) := complete s (.ok bytes)
        (s', showComplete o)
      else (s, ["bad-op"])
    | none => (s, ["bad-op"])
  | ["inotify", "fail", e] =>
    match parseNat e with
    | some e =>
      if 1 ≤ e ∧ e < 4096 then
        let (s', o) := complete s (.err e)
        (s', showComplete o)
      else (s, ["bad-op"])
    | none => (s, ["bad-op"])
  | ["inotify", "drop-events"] =>
    match dropEvents s with
    | some s' => (s', ["ok"])
    | none => (s, ["bad-state"])
  | ["inotify", "check"] => (s, showKept s)
  | _ => (s, ["bad-op"])

end A10.Inotify
