/-
Micro-step model of the submission queue under concurrent submitters:
`Submissions::add` (src/io_uring/sq.rs:25-80) + the kernel consuming entries.

One step per scheduling point (`--cfg a10_verif` hooks, DESIGN.md Appendix A):

  a1  LD sq.head                      (unlocked pre-check, mod.rs:250-256)
  a2  LD sq.tail   [tail ⊖ head ≥ len → QueueFull]
  a3  L  submissions_lock             (spins while taken)
  a4  LD sq.head
  a5  LD sq.tail   [tail ⊖ head ≥ len → unlock, QueueFull]
  w1  reset slot tail & (len-1)       (`submission.reset()`)
  w2  fill the slot                   (`fill_submission`, then the SeqCst fence)
  a6  ST sq.tail := tail ⊕ 1          [unlock; Ok]

`w1`/`w2` are separate steps so that a torn read by the kernel is observable
if the protocol allowed one. The kernel step (any time: this covers SQPOLL,
and is a superset of consumption inside `io_uring_enter`) copies the slot
`head & (len-1)` and increments the head. Counters are free-running 32-bit
values; `H`/`T` are ghost *absolute* counters with `head = H % 2^32`.
-/
import A10Verif.Model.Basic

namespace A10.SqRing

open A10

/-- Program counter of one submitter (one call of `add`). -/
inductive Pc where
  | a1
  | a2 (h : Nat)
  | a3
  | a4
  | a5 (h : Nat)
  | w1 (t : Nat)
  | w2 (t : Nat)
  | a6 (t : Nat)
  | ok
  | full
  deriving Repr, DecidableEq

structure Thr where
  pc : Pc := .a1
  /-- the entry this call submits (its identity) -/
  entry : Nat
  deriving Repr, DecidableEq

structure St where
  len : Nat
  /-- ghost absolute head/tail; the shared words hold `H % 2^32`, `T % 2^32` -/
  H : Nat
  T : Nat
  lock : Option Nat := none
  /-- physical slots; `none` = reset / partially written -/
  slots : List (Option Nat)
  thr : List Thr
  /-- ghost: entries whose publication (tail store) happened, in order -/
  accepted : List Nat := []
  /-- ghost: what the kernel copied, in order; `none` = a torn (reset) slot -/
  consumed : List (Option Nat) := []
  /-- IORING_SETUP_SQPOLL: a kernel thread consumes the queue; `enter` submits nothing itself -/
  kt : Bool := false
  /-- SQPOLL: the kernel thread is idle (`IORING_SQ_NEED_WAKEUP` is set in the SQ flags word) -/
  asleep : Bool := false
  /-- number of calls so far that came through `Submissions::cancel` (the correspondence
  harness has `cancelPool` in-flight operations to drop) -/
  nc : Nat := 0
  deriving Repr

def head32 (s : St) : Nat := s.H % 4294967296
def tail32 (s : St) : Nat := s.T % 4294967296

def setThr (s : St) (i : Nat) (t : Thr) : St := { s with thr := s.thr.set i t }

/-- One micro-step of submitter `i`; returns the new state and a description
of what the step did (for the correspondence trace). -/
def stepThr (s : St) (i : Nat) : St × String :=
  match s.thr[i]? with
  | none => (s, "bad-op")
  | some t =>
    match t.pc with
    | .a1 => (setThr s i { t with pc := .a2 (head32 s) }, s!"ld-head {head32 s}")
    | .a2 h =>
      if wsub (tail32 s) h ≥ s.len then (setThr s i { t with pc := .full }, s!"ld-tail {tail32 s} full")
      else (setThr s i { t with pc := .a3 }, s!"ld-tail {tail32 s}")
    | .a3 =>
      match s.lock with
      | none => ({ setThr s i { t with pc := .a4 } with lock := some i }, "lock")
      | some _ => (s, "spin")
    | .a4 => (setThr s i { t with pc := .a5 (head32 s) }, s!"ld-head {head32 s}")
    | .a5 h =>
      if wsub (tail32 s) h ≥ s.len then
        ({ setThr s i { t with pc := .full } with lock := none }, s!"ld-tail {tail32 s} full")
      else (setThr s i { t with pc := .w1 (tail32 s) }, s!"ld-tail {tail32 s}")
    | .w1 tl =>
      ({ setThr s i { t with pc := .w2 tl } with slots := s.slots.set (tl % s.len) none },
        s!"reset slot {tl % s.len}")
    | .w2 tl =>
      ({ setThr s i { t with pc := .a6 tl } with slots := s.slots.set (tl % s.len) (some t.entry) },
        s!"fill slot {tl % s.len}")
    | .a6 tl =>
      ({ setThr s i { t with pc := .ok } with
          T := s.T + 1, lock := none, accepted := s.accepted ++ [t.entry] },
        s!"st-tail {wadd tl 1} ok")
    | .ok => (s, "done")
    | .full => (s, "done")

/-- The call of submitter `i` is left by a panic of user code while the submission is being
filled (`fill_submission` runs a user `Buf`/`BufMut`; pc `w2`: the slot was reset, nothing is
written yet or only part of it): unwinding drops the lock guard, the tail is not stored. -/
def abortThr (s : St) (i : Nat) : St :=
  match s.thr[i]? with
  | some t =>
    match t.pc with
    | .w2 _ => { setThr s i { t with pc := .full } with lock := none }
    | _ => s
  | none => s

/-- The kernel consumes one entry if one is published. -/
def stepKernel (s : St) : St × String :=
  if s.H < s.T then
    let v := (s.slots.getD (s.H % s.len) none)
    ({ s with H := s.H + 1, consumed := s.consumed ++ [v] },
      match v with
      | some e => s!"consume slot {s.H % s.len} entry {e}"
      | none => s!"consume slot {s.H % s.len} torn")
  else (s, "idle")

/-- The kernel consumes `n` entries (fewer if fewer are published). -/
def consumeN : Nat → St → St
  | 0, s => s
  | n + 1, s => consumeN n (stepKernel s).1

/-- `Shared::unsubmitted_submissions` (src/io_uring/mod.rs:250-262): the head is
loaded before the tail, the difference is computed with `wrapping_sub`. -/
def unsubmitted (s : St) : Nat := wsub (tail32 s) (head32 s)

/-- `Shared::enter` (mod.rs:154-210) on a ring without SQPOLL, as called by
`Ring::poll`: `io_uring_enter(to_submit = unsubmitted_submissions(), …)`; the
kernel consumes that many entries. (Both loads and the system call are one
step: the caller holds no lock and the submitters only ever increase the tail,
so a later tail only makes `to_submit` smaller than what is published.) -/
def stepEnter (s : St) : St × String :=
  let n := unsubmitted s
  let s' := consumeN n s
  let got := (s'.consumed.drop s.consumed.length).map
    (fun v => match v with | some e => toString e | none => "torn")
  (s', s!"enter {n} consumed {if got.isEmpty then "-" else joinWith "," got}")

/-- SQPOLL: the kernel thread consumes an entry only while it is running. -/
def stepKernelKt (s : St) : St × String :=
  if s.asleep then (s, "asleep") else stepKernel s

/-- SQPOLL: the kernel thread goes idle when nothing is pending (it sets
`IORING_SQ_NEED_WAKEUP`); from then on only an `io_uring_enter` carrying
`IORING_ENTER_SQ_WAKEUP` makes it run again. -/
def stepIdle (s : St) : St × String :=
  if s.kt ∧ s.H = s.T ∧ ¬ s.asleep then ({ s with asleep := true }, "sleep") else (s, "busy")

/-- `Shared::enter` on an SQPOLL ring (mod.rs:176-182): `to_submit = 0`, and
`IORING_ENTER_SQ_WAKEUP` is passed iff the flags word says `NEED_WAKEUP`; the woken
kernel thread takes everything that is published. -/
def stepEnterKt (s : St) : St × String :=
  let s' := if s.asleep then consumeN (s.T - s.H) { s with asleep := false } else s
  let got := (s'.consumed.drop s.consumed.length).map
    (fun v => match v with | some e => toString e | none => "torn")
  (s', s!"enter 0 consumed {if got.isEmpty then "-" else joinWith "," got}")

/-- In-flight operations the correspondence harness can drop. -/
def cancelPool : Nat := 6

/-- Which calls come through `Submissions::cancel` (dropping an in-flight operation) rather
than `Submissions::add` (here: `AsyncFd::drop`): every third entry, while the pool lasts. -/
def isCancel (nc entry : Nat) : Bool := entry % 3 == 2 && nc < cancelPool

/-- Where a call starts: `cancel` skips the unlocked pre-check (fix e17b949: the cancel request
of a dropped operation is the only attempt, and the pre-check can answer `QueueFull` for a
queue that was never full, see `C04_precheck`) and goes straight for the lock. -/
def startPc (c : Bool) : Pc := if c then .a3 else .a1

/-- A new call by thread `i` (after the previous one finished). -/
def restart (s : St) (i : Nat) (entry : Nat) : St × String :=
  match s.thr[i]? with
  | some t =>
    if t.pc = .ok ∨ t.pc = .full then
      (setThr { s with nc := if isCancel s.nc entry then s.nc + 1 else s.nc } i
        { pc := startPc (isCancel s.nc entry), entry := entry }, "ok")
    else (s, "bad-op")
  | none => (s, "bad-op")

def init (len h0 n : Nat) : St :=
  { len := len, H := h0, T := h0, slots := List.replicate len none,
    thr := (List.range n).map (fun i => { pc := startPc (i % 3 == 2), entry := i }),
    nc := n / 3 }

/-! ### Line protocol (component `sq`)

The implementation yields only at the hook points, so the driver advances a
thread to its next hook: the write steps `w1`, `w2` (which have no hook) are
executed together with the `a5` step that precedes them. -/

def pcOf (s : St) (i : Nat) : Option Pc := (s.thr[i]?).map (·.pc)

def macroStep (s : St) (i : Nat) : St :=
  let s1 := (stepThr s i).1
  match pcOf s1 i with
  | some (.w1 _) => (stepThr (stepThr s1 i).1 i).1
  | _ => s1

def showPc : Pc → String
  | .a1 => "at-ld-head1"
  | .a2 _ => "at-ld-tail1"
  | .a3 => "at-lock"
  | .a4 => "at-ld-head2"
  | .a5 _ => "at-ld-tail2"
  | .w1 _ => "at-reset"
  | .w2 _ => "at-fill"
  | .a6 _ => "at-st-tail"
  | .ok => "done-ok"
  | .full => "done-full"

def showSlot : Option Nat → String
  | none => "_"
  | some e => toString e

def showState (s : St) : String :=
  s!"H={head32 s} T={tail32 s} lock={if s.lock.isSome then 1 else 0} slots={joinWith "," (s.slots.map showSlot)}"

def stepLine (s : St) (toks : List String) : St × List String :=
  match toks with
  | "sq" :: "begin" :: _ :: rest =>
    match findNat "len" rest, findNat "h0" rest, findNat "n" rest with
    | some len, some h0, some n =>
      if len == 0 || len > 64 || (len &&& (len - 1)) != 0 || h0 ≥ 4294967296 || n == 0 || n > 6 then
        ({ s with thr := [] }, ["bad-op"])
      else
        let kt := findNat "kt" rest == some 1 && findNat "si" rest != some 1
        ({ init len h0 n with kt := kt }, [showState (init len h0 n)])
    | _, _, _ => (s, ["bad-op"])
  | ["sq", "step", i] =>
    match parseNat i with
    | some i =>
      match pcOf s i with
      | none => (s, ["bad-op"])
      | some _ =>
        let s' := macroStep s i
        (s', [s!"t{i} {(pcOf s' i).map showPc |>.getD "?"} {showState s'}"])
    | none => (s, ["bad-op"])
  | ["sq", "kernel"] =>
    let (s', o) := if s.kt then stepKernelKt s else stepKernel s
    (s', [s!"{o} {showState s'}"])
  | ["sq", "idle"] =>
    if s.thr.isEmpty || !s.kt then (s, ["bad-op"])
    else let (s', o) := stepIdle s; (s', [s!"{o} {showState s'}"])
  | ["sq", "enter"] =>
    if s.thr.isEmpty then (s, ["bad-op"])
    else
      let (s', o) := if s.kt then stepEnterKt s else stepEnter s
      (s', [s!"{o} {showState s'}"])
  | ["sq", "panicfill"] =>
    -- Scenario line (not a move of the theorems' interleaving model): a call of `add` whose
    -- `fill_submission` panics (a user `BufMut::parts_mut`), run to its end by the controller
    -- thread while no submitter holds the lock and the queue has room: the slot `T mod len` was
    -- reset, unwinding releases the lock, the tail is NOT stored — nothing is published.
    if s.thr.isEmpty || s.lock.isSome || s.T - s.H ≥ s.len then (s, ["bad-op"])
    else
      let s' := { s with slots := s.slots.set (s.T % s.len) none }
      (s', [s!"panicfill {showState s'}"])
  | ["sq", "again", i, e] =>
    match parseNat i, parseNat e with
    | some i, some e => let (s', o) := restart s i e; (s', [o])
    | _, _ => (s, ["bad-op"])
  | _ => (s, ["bad-op"])

end A10.SqRing
