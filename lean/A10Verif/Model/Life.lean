/-
System model for the operation life cycle (component `life`): several
operations (`Model/Op.lean`) sharing one submission queue, one completion
queue and the simulated kernel's in-flight table.

* `Sys.poll`   — `Future::poll` of operation `i` (op.rs `poll_inner` + `Submissions::add`)
* `Sys.dropOp` — drop of the future (`State::drop` + `Submissions::cancel`)
* `Sys.kpost`  — the kernel posts a completion for `i`'s in-flight submission
* `Sys.rpoll`  — `Ring::poll` (`Completions::poll`, cq.rs:58-101; `Shared::enter`,
                 mod.rs:154-210; `wake_blocked_futures`, mod.rs:213-247;
                 `Completion::process`, cq.rs:181-242)
* `Sys.rdrop`  — `Ring` drop (`Completions::drop`, cq.rs:103-141)

API calls are atomic (single-threaded executor); kernel moves happen between
them. Ring counters only matter for the printed head value: the code is
wrap-safe, so behaviour does not depend on the initial counter values.
-/
import A10Verif.Model.Op

namespace A10.Life

open A10

/-- `user_data` of a completion / target of a submission. -/
inductive Ud where
  | op (i : Nat)
  /-- reserved values 0..3: none / wake / cancel / close -/
  | reserved (n : Nat)
  deriving Repr, DecidableEq

inductive SqEntry where
  | op (i : Nat)
  | cancel (i : Nat)
  deriving Repr, DecidableEq

structure Cqe where
  ud : Ud
  res : Int
  flags : Nat
  deriving Repr, DecidableEq

structure Sys where
  ops : List Op := []
  /-- opcode name per operation (printing only) -/
  opc : List String := []
  sqLen : Nat := 1
  cqLen : Nat := 2
  /-- published, not yet consumed -/
  sq : List SqEntry := []
  /-- operations with a consumed, not finalised submission -/
  inflight : List Nat := []
  cq : List Cqe := []
  overflow : List Cqe := []
  /-- wakers waiting for a submission slot -/
  blocked : List Nat := []
  cqHead : Nat := 0
  ringLive : Bool := true
  deriving Repr

def ENOENT : Int := 2

def Sys.sqRoom (s : Sys) : Bool := s.sq.length < s.sqLen

def getOp (s : Sys) (i : Nat) : Option Op := s.ops[i]?

def setOp (s : Sys) (i : Nat) (o : Op) : Sys := { s with ops := s.ops.set i o }

/-- KC3: publish a CQE, or park it on the overflow list when the CQ is full. -/
def Sys.postCqe (s : Sys) (c : Cqe) : Sys × Bool :=
  if s.overflow.isEmpty && s.cq.length < s.cqLen then ({ s with cq := s.cq ++ [c] }, true)
  else ({ s with overflow := s.overflow ++ [c] }, false)

/-- Flush the overflow list while there is room (GETEVENTS). -/
def Sys.flushOverflow (s : Sys) : Sys :=
  let room := s.cqLen - s.cq.length
  { s with cq := s.cq ++ s.overflow.take room, overflow := s.overflow.drop room }

def showPoll : PollOut → String
  | .pending => "pending"
  | .readyOk r => s!"ready ok {r.res}"
  | .readyErr e => s!"ready err {e}"
  | .readyNone => "ready none"
  | .panic => "panic"

/-- `Future::poll` of operation `i` with waker `w`. -/
def Sys.poll (s : Sys) (i w : Nat) : Sys × List String :=
  match getOp s i with
  | none => (s, ["bad-op"])
  | some o =>
    if !o.futLive then (s, ["bad-op"]) else
    let (o', out, effs) := o.poll w s.sqRoom
    let s := setOp s i o'
    let s := effs.foldl (fun (s : Sys) e =>
      match e with
      | .submit => { s with sq := s.sq ++ [.op i] }
      | .blocked w => { s with blocked := s.blocked ++ [w] }
      | _ => s) s
    let lines := effs.filterMap (fun e =>
      match e with
      | .submit => some s!"sqe op{i} {s.opc.getD i "?"}"
      | _ => none)
    (s, showPoll out :: lines)

/-- Drop of operation `i`'s future. -/
def Sys.dropOp (s : Sys) (i : Nat) : Sys × List String :=
  match getOp s i with
  | none => (s, ["bad-op"])
  | some o =>
    if !o.futLive then (s, ["bad-op"]) else
    let (o', effs) := o.dropFut s.sqRoom
    let s := setOp s i o'
    let s := if effs.contains .cancel then { s with sq := s.sq ++ [.cancel i] } else s
    let lines := effs.filterMap (fun e =>
      match e with
      | .cancel => some s!"cancel op{i}"
      | .free => some s!"free op{i}"
      | _ => none)
    (s, if lines.isEmpty then ["-"] else lines)

/-- The kernel posts `(res, flags)` for `i`'s in-flight submission (KC2). -/
def Sys.kpost (s : Sys) (i : Nat) (res : Int) (flags : Nat) : Sys × List String :=
  if !s.inflight.contains i then (s, ["miss"]) else
  let s := if fMore flags then s else { s with inflight := s.inflight.erase i }
  let (s, direct) := s.postCqe ⟨.op i, res, flags⟩
  (s, [if direct then "posted" else "overflow"])

/-- The kernel consumes every published submission, in order (KC1), executing
cancel requests at once (KC5): a request whose target is not in flight is
answered with `-ENOENT` on the reserved `user_data` 2, a successful one
posts nothing (`CQE_SKIP_SUCCESS`). -/
def Sys.consumeOne (s : Sys) (e : SqEntry) : Sys :=
  match e with
  | .op i => { s with inflight := s.inflight ++ [i] }
  | .cancel i =>
    if s.inflight.contains i then s
    else (s.postCqe ⟨.reserved 2, -ENOENT, 0⟩).1

def Sys.consumeAll (s : Sys) : Sys :=
  { s.sq.foldl Sys.consumeOne s with sq := [] }

/-- `wake_blocked_futures` (single-threaded): wakes as many blocked futures
as there are free submission slots, oldest first. -/
def Sys.wakeBlocked (s : Sys) : Sys × List Nat :=
  let avail := s.sqLen - s.sq.length
  let k := min avail s.blocked.length
  ({ s with blocked := s.blocked.drop k }, s.blocked.take k)

/-- Accumulated observable effects of processing completions. -/
structure Acc where
  wakes : List Nat := []
  frees : List Nat := []
  panicked : Bool := false

/-- `Completion::process` for one entry. -/
def Sys.process (s : Sys) (a : Acc) (c : Cqe) : Sys × Acc :=
  if fSkip c.flags then (s, a) else
  match c.ud with
  | .reserved _ => (s, a)
  | .op i =>
    match getOp s i with
    | none => (s, { a with panicked := true })
    | some o =>
      match o.update ⟨c.res, c.flags⟩ with
      | none => (s, { a with panicked := true })
      | some (o', effs) =>
        let a := effs.foldl (fun (a : Acc) e =>
          match e with
          | .wake w => { a with wakes := a.wakes ++ [w] }
          | .free => { a with frees := a.frees ++ [i] }
          | _ => a) a
        (setOp s i o', a)

/-- Process every published completion in order and release the slots. -/
def Sys.drainCq (s : Sys) (a : Acc) : Sys × Acc :=
  let (s', a') := s.cq.foldl (fun (p : Sys × Acc) c => p.1.process p.2 c) (s, a)
  ({ s' with cq := [], cqHead := wadd s'.cqHead s.cq.length }, a')

def showAcc (a : Acc) : List String :=
  [s!"wakes {showNatList a.wakes} frees {showNatList a.frees}"] ++
    (if a.panicked then ["panic"] else [])

/-- `Ring::poll(Some(0))`; `posts` are completions the kernel posts during the
`io_uring_enter` call (ignored when no call is made). -/
def Sys.rpoll (s : Sys) (posts : List (Nat × Int × Nat)) : Sys × List String :=
  if s.cq.isEmpty then
    let n := s.sq.length
    let s := s.consumeAll
    let s := posts.foldl (fun (s : Sys) p => (s.kpost p.1 p.2.1 p.2.2).1) s
    let s := s.flushOverflow
    -- Ok(n) and ETIME/EINTR both wake the blocked futures
    let (s, ws) := s.wakeBlocked
    let (s, a) := s.drainCq { wakes := ws }
    (s, [s!"enter submit={n}"] ++ showAcc a ++ [s!"cqhead={s.cqHead}"])
  else
    let (s, a) := s.drainCq {}
    (s, ["noenter"] ++ showAcc a ++ [s!"cqhead={s.cqHead}"])

/-- The final loop of `Completions::drop` (cq.rs:131-148): enter with
GETEVENTS (flushes the overflow list into the free CQ slots), one pass of
`poll`, until a pass processes nothing. `fuel` bounds the number of passes
(each productive pass empties the CQ, so `|overflow| + 2` passes suffice). -/
def Sys.dropLoop (s : Sys) (a : Acc) : Nat → Sys × Acc
  | 0 => (s, a)
  | fuel + 1 =>
    -- enter(1, GETEVENTS, 0)
    let s := s.flushOverflow
    let (s, ws) := s.wakeBlocked
    let a := { a with wakes := a.wakes ++ ws }
    -- poll: enters again when the CQ is empty (nothing new can arrive)
    let (s, a) :=
      if s.cq.isEmpty then
        let (s, ws) := s.flushOverflow.wakeBlocked
        (s, { a with wakes := a.wakes ++ ws })
      else (s, a)
    let n := s.cq.length
    let (s, a) := s.drainCq a
    if n == 0 then (s, a) else s.dropLoop a fuel

/-- `Ring` drop: flush the submissions, cancel everything in flight
synchronously, then fetch and process completions until none are left. -/
def Sys.rdrop (s : Sys) : Sys × List String :=
  -- 1. enter(MAX, 0): submit only
  let n := s.sq.length
  let s := s.consumeAll
  let (s, ws1) := s.wakeBlocked
  -- 2. SYNC_CANCEL(ANY|ALL): every in-flight submission ends with -ECANCELED
  let s := s.inflight.foldl (fun (s : Sys) i => (s.postCqe ⟨.op i, -ECANCELED, 0⟩).1) s
  let s := { s with inflight := [] }
  -- 3. the final loop
  let (s, a) := s.dropLoop { wakes := ws1 } (s.overflow.length + s.cq.length + 2)
  (s, [s!"flush submit={n}"] ++ showAcc a ++ [s!"cqhead={s.cqHead} lost={s.overflow.length}"])

/-! ### Line protocol -/

/-- Operation kinds: `(name, multishot?, opcode name)`. The operation machine is
kind-agnostic: a kind only decides single-shot/multishot and the opcode printed
for its submissions. -/
def kinds : List (String × Bool × String) := [
  ("read", false, "READ"), ("write", false, "WRITE"), ("sendzc", false, "SEND_ZC"),
  ("mread", true, "READ_MULTISHOT"), ("mreado", true, "READ_MULTISHOT"), ("readv", false, "READV"), ("writev", false, "WRITEV"),
  ("sendto", false, "SEND"), ("sendmsgzc", false, "SENDMSG_ZC"), ("recvv", false, "RECVMSG"),
  -- plain socket I/O
  ("recv", false, "RECV"), ("send", false, "SEND"), ("recvfrom", false, "RECVMSG"),
  ("recvfromv", false, "RECVMSG"), ("sendtov", false, "SENDMSG"), ("sendmsg", false, "SENDMSG"),
  -- connections, names, options
  ("accept", false, "ACCEPT"), ("maccept", true, "ACCEPT"), ("mrecv", true, "RECV"),
  ("connect", false, "CONNECT"), ("bind", false, "BIND"), ("listen", false, "LISTEN"),
  ("connectu", false, "CONNECT"), ("bindu", false, "BIND"), ("sendtou", false, "SEND"),
  ("shutdown", false, "SHUTDOWN"), ("sockname", false, "URING_CMD"), ("peername", false, "URING_CMD"),
  ("getsockopt", false, "URING_CMD"), ("setsockopt", false, "URING_CMD"),
  -- file system
  ("open", false, "OPENAT"), ("statx", false, "STATX"), ("rename", false, "RENAMEAT"),
  ("unlink", false, "UNLINKAT"), ("rmdir", false, "UNLINKAT"), ("mkdir", false, "MKDIRAT"),
  ("truncate", false, "FTRUNCATE"), ("fsync", false, "FSYNC"), ("fdatasync", false, "FSYNC"),
  ("fallocate", false, "FALLOCATE"), ("fadvise", false, "FADVISE"), ("splice", false, "SPLICE"),
  -- processes, signals, descriptors
  ("waitid", false, "WAITID"), ("sigrecv", false, "READ"), ("sigstream", false, "READ"),
  ("pipe", false, "PIPE"), ("mpoll", true, "POLL_ADD"), ("close", false, "CLOSE"),
  ("todirect", false, "FILES_UPDATE"), ("tofd", false, "FIXED_FD_INSTALL"), ("socket", false, "SOCKET")]

def kindInfo (k : String) : Option (Bool × String) :=
  (kinds.find? (fun e => e.1 == k)).map (fun e => e.2)

/-- Parse `i:res:flags` triples separated by commas (`-` = none). -/
def parsePosts (s : String) : Option (List (Nat × Int × Nat)) :=
  if s == "-" then some []
  else (s.splitOn ",").mapM (fun t =>
    match t.splitOn ":" with
    | [i, r, f] => do
      let i ← parseNat i
      let r ← parseInt r
      let f ← parseNat f
      pure (i, r, f)
    | _ => none)

def stepLine (s : Sys) (toks : List String) : Sys × List String :=
  match toks with
  | "life" :: "begin" :: _ :: rest =>
    -- `kt=1` (a ring with a kernel thread, IORING_SETUP_SQPOLL) changes nothing here: the
    -- deterministic simulated thread takes the published submissions at every `enter` and is idle
    -- (NEED_WAKEUP) in between, which a10 must answer with SQ_WAKEUP — so "the next enter submits
    -- everything queued" is the specification in both configurations.
    match findNat "sq" rest, findNat "cq" rest, findNat "cqh" rest with
    | some sq, some cq, some cqh => ({ sqLen := sq, cqLen := cq, cqHead := cqh }, [])
    | _, _, _ => (s, ["bad-op"])
  | ["life", "new", i, kind] =>
    match parseNat i, kindInfo kind with
    | some i, some (multi, opc) =>
      if i == s.ops.length then
        ({ s with ops := s.ops ++ [{ multi := multi }], opc := s.opc ++ [opc] }, ["ok"])
      else (s, ["bad-op"])
    | _, _ => (s, ["bad-op"])
  | ["life", "cpoll", i] =>
    -- First poll with a waker whose `clone` panics, of an operation that was never submitted and
    -- with room in the queue: the submission is queued and the operation is running when the panic
    -- unwinds (fix c6c693c: the status is set before the waker is cloned) — no waker is stored.
    match parseNat i with
    | some i =>
      match getOp s i with
      | none => (s, ["bad-op"])
      | some o =>
        if !o.futLive || !s.ringLive || !s.sqRoom then (s, ["bad-op"]) else
        match o.status with
        | .notStarted =>
          let (s', lines) := s.poll i 0
          match getOp s' i with
          | some o' => (setOp s' i { o' with waker := none }, "panic" :: lines.drop 1)
          | none => (s, ["bad-op"])
        | _ => (s, ["bad-op"])
    | none => (s, ["bad-op"])
  | ["life", "poll", i, w] =>
    match parseNat i, parseNat w with
    | some i, some w => s.poll i w
    | _, _ => (s, ["bad-op"])
  | ["life", "drop", i] =>
    match parseNat i with
    | some i => s.dropOp i
    | none => (s, ["bad-op"])
  | ["life", "pdrop", i] =>
    -- the future is dropped while its thread unwinds from a panic: `Drop` does the same
    match parseNat i with
    | some i => s.dropOp i
    | none => (s, ["bad-op"])
  | ["life", "kpost", i, r, f] =>
    match parseNat i, parseInt r, parseNat f with
    | some i, some r, some f => s.kpost i r f
    | _, _, _ => (s, ["bad-op"])
  | ["life", "rpoll", posts] =>
    match parsePosts posts with
    | some ps => if s.ringLive then s.rpoll ps else (s, ["bad-op"])
    | none => (s, ["bad-op"])
  | ["life", "rpollfail", e] =>
    -- `Ring::poll` whose `io_uring_enter` fails with errno `e` (not ETIME/EINTR): the kernel took
    -- nothing, no wake pass, `poll` returns the error; with completions already queued there is no
    -- kernel entry at all and the call is an ordinary `rpoll`
    match parseNat e with
    | some e =>
      if !(1 ≤ e ∧ e < 4096 ∧ e ≠ 4 ∧ e ≠ 62) || !s.ringLive then (s, ["bad-op"])
      else if s.cq.isEmpty then
        (s, [s!"enter submit={s.sq.length}", "wakes - frees -", s!"error {e}", s!"cqhead={s.cqHead}"])
      else s.rpoll []
    | none => (s, ["bad-op"])
  | ["life", "pollfail", i, w, e] =>
    -- a poll / a drop during which `io_uring_enter` would fail: neither enters the kernel
    match parseNat i, parseNat w, parseNat e with
    | some i, some w, some e => if 1 ≤ e ∧ e < 4096 ∧ e ≠ 4 ∧ e ≠ 62 then s.poll i w else (s, ["bad-op"])
    | _, _, _ => (s, ["bad-op"])
  | ["life", "dropfail", i, e] =>
    match parseNat i, parseNat e with
    | some i, some e => if 1 ≤ e ∧ e < 4096 ∧ e ≠ 4 ∧ e ≠ 62 then s.dropOp i else (s, ["bad-op"])
    | _, _ => (s, ["bad-op"])
  | ["life", "race", kind, i, w, sched] =>
    -- two threads race on operation `i` (see the harness); the effects are
    -- reported by the two following ops, in linearisation order
    match parseNat i, parseNat w, getOp s (i.toNat?.getD 0) with
    | some _, some _, some o =>
      if (kind == "drop" || kind == "poll") && o.futLive && s.ringLive
          && (s.cq.filter (fun c => c.ud == .op (i.toNat?.getD 0) && !fSkip c.flags)).length == 1
          && sched.startsWith "sched=" && sched.length > 6
          && (sched.drop 6).all (fun c => c == '0' || c == '1') then (s, ["ok"])
      else (s, ["bad-op"])
    | _, _, _ => (s, ["bad-op"])
  | ["life", "rdrop"] =>
    if s.ringLive then
      let (s, o) := s.rdrop
      ({ s with ringLive := false }, o)
    else (s, ["bad-op"])
  | _ => (s, ["bad-op"])

end A10.Life
