/-
Descriptor ledger (component `fds`, property C07): which `AsyncFd` owns which
descriptor the kernel issued, and which close requests reach the kernel.

Transcribed from the code as it is:

* the descriptor word — `AsyncFd::from_raw` (src/fd.rs:86-121: `fd | (1 << 31)`
  for a direct descriptor), `AsyncFd::kind` (src/fd.rs:124-130: sign bit),
  `AsyncFd::fd` (src/fd.rs:167-170: `fd & !(1 << 31)`);
* `close_file_fd` (src/io_uring/io.rs:642-654: regular → `sqe.fd`, direct →
  `file_index = fd + 1`), `close_direct_fd` (io.rs:656-667: `FILES_UPDATE`
  with `-1` at offset `fd`);
* `Drop for AsyncFd` (src/io_uring/fd.rs:213-233): queue a CLOSE with
  `user_data = 3` and `CQE_SKIP_SUCCESS`; when the queue is full fall back to
  `close(2)` / `close_direct_fd`;
* `AsyncFd::close` (src/io/mod.rs:281-291): consumes the `AsyncFd` without
  running `Drop`, the `Close` future carries `(fd, kind)`;
* `stdin/stdout/stderr` (src/io/mod.rs:86-135): `ManuallyDrop<AsyncFd>`;
* descriptor results wrapped by `map_ok`/`map_next`: socket (net.rs:43-46),
  accept (net.rs:736-752), multishot accept (net.rs:781-785), open
  (fs.rs:64-77), pipe (pipe.rs:36-51), to_direct_descriptor (fd.rs:124-134),
  to_file_descriptor (fd.rs:174-178);
* the operation state machine is `Model/Op.lean` (`Op.poll`, `Op.update`,
  `Op.dropFut`), used unchanged;
* what `poll_inner` does with a final error (op.rs:933-938: `fallback(target,
  resources, args, err)`): the default `fallback` (op.rs:499-510, 596-607,
  688-699 → `fallback(err)`, op.rs:992-1000: EINVAL becomes
  `ErrorKind::Unsupported`) for open (fs.rs:47-83), socket, accept and
  multishot accept; `ToDirectOp::fallback` / `ToFdOp::fallback`
  (fd.rs:85-100, 180-195: the error unchanged for the descriptor kinds the
  conversions are allowed on); `PipeOp::fallback` (pipe.rs:48-63): on EINVAL
  (`IORING_OP_PIPE` needs Linux 6.16) a synchronous `pipe2(2)`, whose two
  REGULAR descriptors are wrapped with `fd::Kind::File` whatever kind was
  requested (`Sys.pollFb`); any other error unchanged.

The kernel is the environment: it consumes published submissions in order
(KC1), executes CLOSE requests when it consumes them, and answers an in-flight
operation with an error or with *fresh* descriptors (KC8, the guard
`Sys.kernelOk`). A completion is processed by a10 as soon as it is posted
(the harness calls `Ring::poll` right after posting), so the completion queue
never holds anything between two steps.

Ghost state: only `Desc.st` / `Desc.wraps` / `Desc.sync` / `Sys.strays` /
`Sys.closeLog`; they never influence behaviour.
-/
import A10Verif.Model.Op

namespace A10.Fds

open A10

/-- `fd::Kind` (src/fd.rs:217-230). -/
inductive Kind where
  | file
  | direct
  deriving Repr, DecidableEq, Inhabited

def Kind.name : Kind → String
  | .file => "file"
  | .direct => "direct"

/-! ### The descriptor word (an `i32`, modelled by its 32-bit pattern) -/

/-- `1 << 31` -/
def SIGN : Nat := 2147483648

/-- `AsyncFd::from_raw` (src/fd.rs:86-92): the stored word. -/
def fromRaw (fd : Nat) (k : Kind) : Nat :=
  match k with
  | .direct => fd ||| SIGN
  | .file => fd

/-- `AsyncFd::kind` (src/fd.rs:124-130): `self.fd.is_negative()`. -/
def kindOf (w : Nat) : Kind := if SIGN ≤ w then .direct else .file

/-- `AsyncFd::fd` (src/fd.rs:167-170): `self.fd & !(1 << 31)`. -/
def fdOf (w : Nat) : Nat := w &&& 2147483647

/-- The two fields of a CLOSE submission that select what is closed. -/
structure CloseReq where
  /-- `sqe.fd` -/
  fd : Nat
  /-- `sqe.file_index` (0 after `Submission::reset`) -/
  fileIndex : Nat
  deriving Repr, DecidableEq

/-- `close_file_fd` (src/io_uring/io.rs:642-654). `fd + 1` is an `i32`
addition cast to `u32`; in a release build it wraps. -/
def closeFileFd (fd : Nat) (k : Kind) : CloseReq :=
  match k with
  | .file => ⟨fd, 0⟩
  | .direct => ⟨0, (fd + 1) % 4294967296⟩

/-- The same in the dev profile (overflow checks on): `none` = panic. -/
def closeFileFdChecked (fd : Nat) (k : Kind) : Option CloseReq :=
  match k with
  | .file => some ⟨fd, 0⟩
  | .direct => if fd + 1 < 2147483648 then some ⟨0, fd + 1⟩ else none

/-- How the kernel reads a CLOSE request (`io_close`): a non-zero
`file_index` names slot `file_index - 1` of the direct table, otherwise
`fd` names a regular descriptor. -/
def CloseReq.target (r : CloseReq) : Kind × Nat :=
  if r.fileIndex ≠ 0 then (.direct, r.fileIndex - 1) else (.file, r.fd)

/-- The synchronous fallback of `Drop` (src/io_uring/fd.rs:225-228):
`close(fd)` on the regular table, `FILES_UPDATE(offset = fd, [-1])` on the
direct table. -/
def syncTarget (fd : Nat) (k : Kind) : Kind × Nat := (k, fd)

/-! ### Ledger of issued descriptors -/

/-- Ghost: who is responsible for an issued descriptor. -/
inductive DSt where
  /-- stored in the results of operation `op`, not yet handed to the caller -/
  | pending (op : Nat)
  /-- wrapped in `AsyncFd` number `h` -/
  | owned (h : Nat)
  /-- moved into the `Close` future `op`, which has not been submitted yet -/
  | closeFut (op : Nat)
  /-- its `AsyncFd` is gone and a close request has been issued -/
  | released
  /-- the kernel executed that request -/
  | closed
  /-- delivered to an abandoned operation: never wrapped, never closed -/
  | lost
  /-- its `Close` future was dropped before it was ever submitted -/
  | forfeited
  deriving Repr, DecidableEq

structure Desc where
  kind : Kind
  /-- the regular descriptor number / the direct-table index -/
  raw : Nat
  st : DSt
  /-- times the kernel closed this entry -/
  closes : Nat := 0
  /-- ghost: number of `AsyncFd`s created for it -/
  wraps : Nat := 0
  /-- ghost: returned by the synchronous `pipe2(2)` of `PipeOp::fallback`
  (pipe.rs:48-63), not by a completion -/
  sync : Bool := false
  deriving Repr, DecidableEq

/-- A descriptor the kernel just installed. -/
def Desc.fresh (k : Kind) (st : DSt) (r : Nat) : Desc := { kind := k, raw := r, st := st }

/-- The same with the ghost mark `sync` (`Desc.freshS false = Desc.fresh`). -/
def Desc.freshS (sync : Bool) (k : Kind) (st : DSt) (r : Nat) : Desc :=
  { kind := k, raw := r, st := st, sync := sync }

/-- The kernel's table lookup: the *open* descriptor `idx` of table `k`. -/
def findOpen : List Desc → Kind → Nat → Option Nat
  | [], _, _ => none
  | e :: es, k, idx =>
    if e.kind = k ∧ e.raw = idx ∧ e.closes = 0 then some 0
    else (findOpen es k idx).map (· + 1)

/-! ### Operations, handles, submissions -/

inductive OpKind where
  | open | socket | pipe | accept | maccept | toDirect | toFd | close
  /-- `accept::<A>()` with an address type whose `SocketAddress::init` panics (a user
  implementation of the public trait, or the crate's own `debug_assert!` on a family mismatch) -/
  | acceptp
  deriving Repr, DecidableEq

def OpKind.opcode : OpKind → String
  | .open => "OPENAT"
  | .socket => "SOCKET"
  | .pipe => "PIPE"
  | .accept => "ACCEPT"
  | .acceptp => "ACCEPT"
  | .maccept => "ACCEPT"
  | .toDirect => "FILES_UPDATE"
  | .toFd => "FIXED_FD_INSTALL"
  | .close => "CLOSE"

/-- The operation borrows an `AsyncFd` (`fd: &'fd AsyncFd` in the future). -/
def OpKind.borrows : OpKind → Bool
  | .accept | .acceptp | .maccept | .toDirect | .toFd => true
  | _ => false

/-- One operation: the state machine of `Model/Op.lean` plus what the
descriptor-bearing operations keep in `Resources` / `Args`. -/
structure FOp where
  op : Op
  kind : OpKind
  /-- `fd::Kind` in the resources of open / socket / pipe (builder `.kind(..)`) -/
  req : Kind := .file
  /-- the borrowed `AsyncFd` (accept, multishot accept, conversions) -/
  on : Nat := 0
  /-- `Args` of `CloseOp`: `(fd, kind)` read from the consumed `AsyncFd` -/
  cfd : Nat := 0
  ckind : Kind := .file
  /-- out-parameters in the resources the kernel writes before completing:
  `[RawFd; 2]` of pipe, the `RawFd` of to_direct_descriptor -/
  mem : List Nat := []
  deriving Repr

structure Handle where
  /-- the descriptor word `AsyncFd::fd` -/
  word : Nat
  /-- wrapped in `ManuallyDrop` (`Stdin`/`Stdout`/`Stderr`) -/
  std : Bool := false
  /-- the `AsyncFd` object exists -/
  live : Bool := true
  deriving Repr, DecidableEq

/-- A published submission, as far as this property is concerned. -/
inductive Sqe where
  /-- the submission of operation `i`; a `Close` operation carries its request -/
  | op (i : Nat) (close : Option CloseReq)
  /-- `ASYNC_CANCEL` for operation `i` (`user_data = 2`) -/
  | cancel (i : Nat)
  /-- the CLOSE queued by `Drop for AsyncFd` (`user_data = 3`, `CQE_SKIP_SUCCESS`) -/
  | close (req : CloseReq)
  deriving Repr, DecidableEq

def Sqe.target : Sqe → Option (Kind × Nat)
  | .op _ (some r) => some r.target
  | .close r => some r.target
  | _ => none

structure Sys where
  sqLen : Nat := 1
  /-- size of the direct-descriptor table (`with_direct_descriptors`) and the
  first slot the kernel hands out -/
  slots : Nat := 0
  slotLo : Nat := 0
  /-- range of regular descriptor numbers the kernel hands out -/
  fileLo : Nat := 3
  fileHi : Nat := 2147483648
  ops : List FOp := []
  handles : List Handle := []
  descs : List Desc := []
  /-- published, not yet consumed -/
  sq : List Sqe := []
  /-- operations with a consumed, not finalised submission -/
  inflight : List Nat := []
  /-- ghost: close requests that hit no open descriptor -/
  strays : Nat := 0
  /-- ghost: every close request the kernel executed, `(table, index)` -/
  closeLog : List (Kind × Nat) := []
  deriving Repr

def Sys.sqRoom (s : Sys) : Bool := s.sq.length < s.sqLen

def Sys.targets (s : Sys) : List (Kind × Nat) := s.sq.filterMap Sqe.target

/-- A live operation future borrows `AsyncFd` number `a`. -/
def Sys.borrowed (s : Sys) (a : Nat) : Bool :=
  s.ops.any (fun o => o.op.futLive && o.kind.borrows && o.on == a)

/-- The kind of descriptor the operation asks the kernel for, which is also
the kind `map_ok` / `map_next` wraps the result with:
open / socket / pipe — the `fd::Kind` resource (`create_flags` sets
`file_index = IORING_FILE_INDEX_ALLOC`, fs.rs/net.rs/pipe.rs);
accept — `lfd.kind()` (net.rs:712,740,778,783);
to_direct_descriptor — always direct (fd.rs:113-117,132);
to_file_descriptor — always regular (fd.rs:165,177). -/
def Sys.issueKind (s : Sys) (o : FOp) : Kind :=
  match o.kind with
  | .open | .socket | .pipe => o.req
  | .accept | .acceptp | .maccept =>
    match s.handles[o.on]? with
    | some h => kindOf h.word
    | none => .file
  | .toDirect => .direct
  | .toFd | .close => .file

/-- The descriptor numbers `map_ok` reads for a successful result `x`. -/
def valsOf (o : FOp) (x : Res) : List Nat :=
  match o.kind with
  | .pipe | .toDirect => o.mem
  | .close => []
  | _ => [x.res.toNat]

/-! ### The kernel -/

/-- The kernel closed this entry (ghost: a released entry becomes closed). -/
def Desc.close (e : Desc) : Desc :=
  { e with closes := e.closes + 1, st := if e.st = .released then .closed else e.st }

/-- The kernel closes `(k, idx)`: the open descriptor with that number, if
any (`closes + 1`); otherwise the request hits nothing (`EBADF`). -/
def Sys.kclose (s : Sys) (k : Kind) (idx : Nat) : Sys × Bool :=
  let s := { s with closeLog := s.closeLog ++ [(k, idx)] }
  match findOpen s.descs k idx with
  | some d =>
    ({ s with descs := s.descs.modify d Desc.close }, true)
  | none => ({ s with strays := s.strays + 1 }, false)

def showKey (t : Kind × Nat) : String := s!"{t.1.name}:{t.2}"

/-- `Completion::process` for operation `i` (cq.rs:181-242 → `Shared::update`). -/
def Sys.deliver (s : Sys) (i : Nat) (c : Res) : Sys × Bool :=
  match s.ops[i]? with
  | none => (s, false)
  | some o =>
    match o.op.update c with
    | none => (s, false)
    | some (op', _) => ({ s with ops := s.ops.set i { o with op := op' } }, true)

/-- The kernel consumes the oldest published submission (KC1). CLOSE requests
are executed at once; a `Close` operation gets its completion, the CLOSE of a
dropped `AsyncFd` only reports failures (on the reserved `user_data` 3, which
a10 merely logs). -/
def Sys.kstep (s : Sys) : Sys × List String :=
  match s.sq with
  | [] => (s, [])
  | e :: rest =>
    let s := { s with sq := rest }
    match e with
    | .op i none => ({ s with inflight := s.inflight ++ [i] }, [])
    | .op i (some r) =>
      let (s, ok) := s.kclose r.target.1 r.target.2
      let res : Int := if ok then 0 else -9
      let (s, _) := s.deliver i ⟨res, 0⟩
      (s, [s!"closed {showKey r.target} {res}"])
    | .cancel _ => (s, [])
    | .close r =>
      let (s, ok) := s.kclose r.target.1 r.target.2
      let res : Int := if ok then 0 else -9
      (s, [s!"closed {showKey r.target} {res}"])

/-- `io_uring_enter`: everything published is consumed, in order. -/
def Sys.kconsume : Nat → Sys → Sys × List String
  | 0, s => (s, [])
  | n + 1, s =>
    let (s, o) := s.kstep
    let (s, o') := Sys.kconsume n s
    (s, o ++ o')

/-- `Ring::poll(Some(0))` with an empty completion queue. -/
def Sys.rpoll (s : Sys) : Sys × List String :=
  let n := s.sq.length
  let (s, o) := Sys.kconsume n s
  (s, s!"enter submit={n}" :: o)

/-- KC8 and the ABI: the descriptors the kernel returns are non-negative
`i32`s, not open at the moment they are returned, pairwise distinct, within
the table; the standard streams are open, so they are never returned. -/
def Sys.kernelOk (s : Sys) (k : Kind) (raws : List Nat) : Bool :=
  raws.Nodup &&
  raws.all (fun r =>
    r < 2147483648 &&
    (match k with
     | .file => s.fileLo ≤ r && r < s.fileHi
     | .direct => s.slotLo ≤ r && r < s.slots) &&
    s.descs.all (fun e => !(e.kind = k ∧ e.raw = r ∧ e.closes = 0)))

/-- What the kernel answers. -/
inductive Outcome where
  | ok (raws : List Nat)
  | err (errno : Nat)
  deriving Repr, DecidableEq

/-- Number of descriptors a successful completion of this kind carries. -/
def OpKind.arity : OpKind → Nat
  | .pipe => 2
  | .close => 0
  | _ => 1

/-- The completion of a successful descriptor-creating request: pipe answers 0
(the descriptors are in the out-parameter), `FILES_UPDATE` the number of
updated slots, everything else the new descriptor. -/
def kpostRes (k : OpKind) (raws : List Nat) (flags : Nat) : Res :=
  match k with
  | .pipe => ⟨0, flags⟩
  | .toDirect => ⟨1, flags⟩
  | _ => ⟨(raws.headD 0 : Nat), flags⟩

/-- The out-parameters the kernel writes into the operation's resources. -/
def kpostMem (o : FOp) (raws : List Nat) : FOp :=
  match o.kind with
  | .pipe | .toDirect => { o with mem := raws }
  | _ => o

/-- The kernel completes the in-flight submission of operation `i`; a10
processes the completion at once. `more` = `IORING_CQE_F_MORE` (multishot
accept only, KC2). -/
def Sys.kpost (s : Sys) (i : Nat) (out : Outcome) (more : Bool) : Sys × List String :=
  if !s.inflight.contains i then (s, ["miss"]) else
  match s.ops[i]? with
  | none => (s, ["miss"])
  | some o =>
    if o.kind = .close ∨ (more ∧ o.kind ≠ .maccept) then (s, ["bad-op"]) else
    let flags := if more then 2 else 0
    let inflight := if more then s.inflight else s.inflight.erase i
    match out with
    | .err e =>
      -- an error always terminates a multishot request (no `F_MORE`); EINVAL (22, "kernel too
      -- old") is stored like any other error: what it leads to is decided by the next poll
      -- (`FOp.pipe2Due`, `Sys.pollFb`, `showErr`)
      if e = 0 ∨ 4096 ≤ e ∨ more then (s, ["bad-op"]) else
      let (s, ok) := ({ s with inflight := inflight } : Sys).deliver i ⟨-(e : Int), flags⟩
      (s, [if ok then "posted err" else "panic"])
    | .ok raws =>
      let k := s.issueKind o
      if raws.length ≠ o.kind.arity then (s, ["bad-op"]) else
      if !s.kernelOk k raws then (s, ["bad-raw"]) else
      -- the kernel installs the descriptors …
      let st : DSt := if o.op.futLive then .pending i else .lost
      -- … writes the out-parameters, and posts the completion
      let s : Sys := { s with
        inflight := inflight,
        descs := s.descs ++ raws.map (Desc.fresh k st),
        ops := s.ops.set i (kpostMem o raws) }
      let (s, ok) := s.deliver i (kpostRes o.kind raws flags)
      (s, [if ok then s!"posted {joinWith "," (raws.map (fun r => showKey (k, r)))}" else "panic"])

/-! ### a10 -/

/-- `stdin()` / `stdout()` / `stderr()` (src/io/mod.rs:86-135). -/
def Sys.std (s : Sys) (which : Nat) : Sys × List String :=
  if which < 3 then
    ({ s with handles := s.handles ++ [{ word := fromRaw which .file, std := true }] }, ["ok"])
  else (s, ["bad-op"])

/-- Create the future of an operation (nothing is submitted yet).
`a` is the `AsyncFd` the operation is called on; `AsyncFd::close` consumes it
without running `Drop` (src/io/mod.rs:281-291). -/
def Sys.newOp (s : Sys) (kind : OpKind) (req : Kind) (a : Nat) : Sys × List String :=
  match kind with
  | .open | .socket | .pipe =>
    ({ s with ops := s.ops ++ [{ op := { multi := false }, kind := kind, req := req }] }, ["ok"])
  | .accept | .acceptp | .maccept | .toDirect | .toFd =>
    match s.handles[a]? with
    | none => (s, ["bad-op"])
    | some h =>
      -- `debug_assert!`s of the conversions (src/io_uring/fd.rs:31-34,49-52)
      if !h.live ∨ (kind = .toDirect ∧ kindOf h.word ≠ .file)
          ∨ (kind = .toFd ∧ kindOf h.word ≠ .direct) then (s, ["bad-op"]) else
      ({ s with ops := s.ops ++ [{ op := { multi := kind == .maccept }, kind := kind, on := a }] },
       ["ok"])
  | .close =>
    match s.handles[a]? with
    | none => (s, ["bad-op"])
    | some h =>
      if !h.live ∨ h.std ∨ s.borrowed a then (s, ["bad-op"]) else
      let j := s.ops.length
      ({ s with
          ops := s.ops ++ [{ op := { multi := false }, kind := .close,
                             cfd := fdOf h.word, ckind := kindOf h.word }],
          handles := s.handles.set a { h with live := false },
          descs := s.descs.map (fun e =>
            if e.st = .owned a then { e with st := .closeFut j } else e) }, ["ok"])

/-- `map_ok` / `map_next`: one `AsyncFd::from_raw(v, kind, sq)` per descriptor. -/
def Sys.wrap (s : Sys) (i : Nat) (k : Kind) : List Nat → Sys × List String
  | [] => (s, [])
  | v :: vs =>
    let h := s.handles.length
    let w := fromRaw v k
    let s := { s with
      handles := s.handles ++ [{ word := w }],
      descs := s.descs.map (fun e =>
        if e.st = .pending i ∧ e.kind = k ∧ e.raw = v ∧ e.closes = 0
        then { e with st := .owned h, wraps := e.wraps + 1 } else e) }
    let (s, o) := Sys.wrap s i k vs
    (s, s!"h{h}={(kindOf w).name}:{fdOf w}" :: o)

def showSqe (s : Sys) (i : Nat) (o : FOp) : String :=
  match o.kind with
  | .close => s!"sqe op{i} CLOSE {o.ckind.name}:{o.cfd}"
  | _ =>
    let alloc : Bool := o.kind ≠ .toFd ∧ s.issueKind o = .direct
    let fixed : Bool := o.kind.borrows &&
      (match s.handles[o.on]? with | some h => kindOf h.word == .direct | none => false)
    s!"sqe op{i} {o.kind.opcode} alloc={if alloc then 1 else 0} fixed={if fixed then 1 else 0}"

/-- `EINVAL` -/
def EINVAL : Int := 22

/-- The operation's `fallback` is the default one, `Err(fallback(err))` (op.rs:992-1000): EINVAL
is reported as `io::ErrorKind::Unsupported`. open: fs.rs:47-83; socket, accept, multishot accept:
no `fallback` of their own (net.rs:20-46, 706-790). Not so for the conversions (fd.rs:85-100,
180-195: `Err(err)` for the kind of `AsyncFd` they may be called on), pipe (pipe.rs:48-63) and
`CloseOp`, which the kernel model never answers with an errno other than EBADF. -/
def OpKind.mapsEinval : OpKind → Bool
  | .open | .socket | .accept | .acceptp | .maccept => true
  | _ => false

/-- How the error `e` of the result read by this poll reaches the caller. A multishot stream
that is still `Running` returns it directly (`Res::from_err`, op.rs:858-861); everything read
in `Done` goes through `fallback` (op.rs:933-938). -/
def showErr (o : FOp) (e : Int) : String :=
  let viaFallback : Bool := match o.op.status with | .running _ => false | _ => true
  if e = EINVAL ∧ viaFallback = true ∧ o.kind.mapsEinval = true then "Unsupported" else toString e

/-- The next poll of this future runs `PipeOp::fallback` with EINVAL, i.e. calls `pipe2(2)`:
a live pipe future whose operation is `Done` with `-EINVAL` as the result to read
(poll_inner op.rs:880-938 → pipe.rs:54-59). -/
def FOp.pipe2Due (o : FOp) : Bool :=
  o.kind == .pipe && o.op.futLive &&
  (match o.op.status with
   | .done r => (match r.next with | some (x, _) => x.res == -22 | none => false)
   | _ => false)

/-- `Future::poll` / `poll_next` of operation `i` (no synchronous system call involved). -/
def Sys.pollCore (s : Sys) (i : Nat) : Sys × List String :=
  match s.ops[i]? with
  | none => (s, ["bad-op"])
  | some o =>
    if !o.op.futLive then (s, ["bad-op"]) else
    match o.op.poll i s.sqRoom with
    | (op', out, effs) =>
      let o' := { o with op := op' }
      let submitted := effs.contains .submit
      let creq := if o.kind = .close then some (closeFileFd o.cfd o.ckind) else none
      let s1 : Sys := { s with
        ops := s.ops.set i o',
        sq := if submitted then s.sq ++ [.op i creq] else s.sq,
        descs := if submitted then s.descs.map (fun e =>
            if e.st = .closeFut i then { e with st := .released } else e) else s.descs }
      let lines := if submitted then [showSqe s i o] else []
      match out with
      | .pending => (s1, "pending" :: lines)
      | .readyOk x =>
        let (s2, hs) := s1.wrap i (s.issueKind o) (valsOf o x)
        (s2, s!"ready ok {if hs.isEmpty then "-" else joinWith " " hs}" :: lines)
      | .readyErr e => (s1, s!"ready err {showErr o e}" :: lines)
      | .readyNone => (s1, "ready none" :: lines)
      | .panic => (s1, "panic" :: lines)

/-- What the synchronous `pipe2(2)` answers (the environment's move inside the poll). -/
inductive Fb where
  /-- the two descriptors it returns (`[read end, write end]`) -/
  | ok (raws : List Nat)
  | fail (errno : Nat)
  deriving Repr, DecidableEq

/-- The poll of pipe future `i` that reads `-EINVAL`: `poll_inner` marks the operation
`Complete` and calls `PipeOp::fallback` (pipe.rs:48-63), which calls `pipe2(fds, flags |
O_CLOEXEC)`. On failure the future resolves with that error and nothing exists. On success the
kernel has installed two REGULAR descriptors (KC8: `Sys.kernelOk` for the regular table at the
moment of the call) and `map_ok` wraps them with `(fds, fd::Kind::File)` — NOT with the requested
kind `o.req`. Both happen inside the one call of `poll`, under no lock that matters here, so it
is one step. -/
def Sys.pollFb (s : Sys) (i : Nat) (fb : Fb) : Sys × List String :=
  match s.ops[i]? with
  | none => (s, ["bad-op"])
  | some o =>
    if !o.pipe2Due then (s, ["bad-op"]) else
    match fb with
    | .fail e =>
      if e = 0 ∨ 4096 ≤ e then (s, ["bad-op"]) else
      ((s.pollCore i).1, [s!"ready err {e}", s!"pipe2 err {e}"])
    | .ok raws =>
      if raws.length ≠ 2 then (s, ["bad-op"]) else
      if !s.kernelOk .file raws then (s, ["bad-raw"]) else
      -- the operation is consumed (`Complete`, resources moved out) …
      let s1 := (s.pollCore i).1
      -- … `pipe2` installs the descriptors and writes them into `fds` …
      let s2 : Sys := { s1 with descs := s1.descs ++ raws.map (Desc.freshS true .file (.pending i)) }
      -- … and `map_ok(sq, (fds, fd::Kind::File), ..)` wraps them.
      let (s3, hs) := s2.wrap i .file raws
      (s3, [s!"ready ok {joinWith " " hs}", s!"pipe2 {joinWith "," (raws.map toString)}"])

/-- Drop of operation `i`'s future (`State::drop` + `drop_state`): results
stored in the state are discarded with it; a `Close` future that was never
submitted never closes. -/
def Sys.dropOp (s : Sys) (i : Nat) : Sys × List String :=
  match s.ops[i]? with
  | none => (s, ["bad-op"])
  | some o =>
    if !o.op.futLive then (s, ["bad-op"]) else
    match o.op.dropFut s.sqRoom with
    | (op', effs) =>
      let cancel := effs.contains .cancel
      ({ s with
          ops := s.ops.set i { o with op := op' },
          sq := if cancel then s.sq ++ [.cancel i] else s.sq,
          descs := s.descs.map (fun e =>
            if e.st = .pending i then { e with st := .lost }
            else if e.st = .closeFut i then { e with st := .forfeited } else e) },
       [if cancel then "cancel" else "-"])

/-- Drop of `AsyncFd` number `a` (src/io_uring/fd.rs:213-233; the standard
stream wrappers only drop their queue reference, src/io/mod.rs:121-130). -/
def Sys.dropH (s : Sys) (a : Nat) : Sys × List String :=
  match s.handles[a]? with
  | none => (s, ["bad-op"])
  | some h =>
    if !h.live ∨ s.borrowed a then (s, ["bad-op"]) else
    let s : Sys := { s with handles := s.handles.set a { h with live := false } }
    if h.std then (s, ["-"]) else
    let fd := fdOf h.word
    let k := kindOf h.word
    let s : Sys := { s with descs := s.descs.map (fun e =>
      if e.st = .owned a then { e with st := .released } else e) }
    if s.sqRoom then
      ({ s with sq := s.sq ++ [Sqe.close (closeFileFd fd k)] }, [s!"close-sqe {showKey (k, fd)}"])
    else
      let t := syncTarget fd k
      let (s, ok) := s.kclose t.1 t.2
      match k with
      | .file => (s, [s!"sync-close {showKey t} {if ok then 0 else -9}"])
      | .direct => (s, [s!"sync-unreg {showKey t}"])

/-- The poll of an `acceptp` future that reads a successful result: `AcceptOp::map_ok`
(src/io_uring/net.rs:747-751) first wraps the descriptor — `AsyncFd::from_raw(fd, lfd.kind(),
sq)` — and only then calls `A::init(addr, addr_len)`, which panics: the unwind drops the
`AsyncFd` just built, i.e. the descriptor is closed like that of any dropped `AsyncFd`
(through the ring, or synchronously when the queue is full). It is exactly the poll of an
ordinary accept followed by the drop of the handle it returned. Every other outcome of the
poll (pending, an error, a poll after completion) is that of an ordinary accept. -/
def Sys.pollPanic (s : Sys) (i : Nat) : Sys × List String :=
  match s.ops[i]? with
  | none => (s, ["bad-op"])
  | some o =>
    match (o.op.poll i s.sqRoom).2.1 with
    | .readyOk _ =>
      let r := s.pollCore i
      let d := r.1.dropH s.handles.length
      (d.1, "ready panic" :: (r.2.drop 1 ++ d.2))
    | _ => s.pollCore i

/-- `Future::poll` / `poll_next` of operation `i`. A poll that would call `pipe2(2)` needs the
environment's answer: it is the step `Sys.pollFb`. -/
def Sys.poll (s : Sys) (i : Nat) : Sys × List String :=
  match s.ops[i]? with
  | none => (s, ["bad-op"])
  | some o =>
    if o.pipe2Due then (s, ["bad-op"])
    else if o.kind = .acceptp then s.pollPanic i
    else s.pollCore i


/-! ### Steps and runs -/

inductive Step where
  | std (which : Nat)
  | newOp (kind : OpKind) (req : Kind) (a : Nat)
  | poll (i : Nat)
  /-- a poll during which `pipe2(2)` is called, with its answer -/
  | pollFb (i : Nat) (fb : Fb)
  | dropOp (i : Nat)
  | dropH (a : Nat)
  | kpost (i : Nat) (out : Outcome) (more : Bool)
  | rpoll
  deriving Repr

def Sys.step (s : Sys) : Step → Sys × List String
  | .std w => s.std w
  | .newOp k r a => s.newOp k r a
  | .poll i => s.poll i
  | .pollFb i fb => s.pollFb i fb
  | .dropOp i => s.dropOp i
  | .dropH a => s.dropH a
  | .kpost i out more => s.kpost i out more
  | .rpoll => s.rpoll

def Sys.next (s : Sys) (st : Step) : Sys := (s.step st).1

def run (s : Sys) (steps : List Step) : Sys := steps.foldl Sys.next s

/-! ### Line protocol -/

def DSt.show : DSt → String
  | .pending i => s!"pending:{i}"
  | .owned h => s!"owned:{h}"
  | .closeFut i => s!"closefut:{i}"
  | .released => "released"
  | .closed => "closed"
  | .lost => "lost"
  | .forfeited => "forfeited"

def showDescs (ds : List Desc) : List String :=
  (ds.zipIdx).map (fun (e, d) => s!"d{d} {showKey (e.kind, e.raw)} closes={e.closes} {e.st.show}")

/-- End of a case: poll the ring until nothing is queued, then dump the ledger. -/
def Sys.finish (s : Sys) : Sys × List String :=
  let (s, o) := if s.sq.isEmpty then (s, []) else s.rpoll
  (s, o ++ showDescs s.descs)

def parseKind (t : String) : Option Kind :=
  if t == "file" then some .file else if t == "direct" then some .direct else none

def parseOpKind (t : String) : Option OpKind :=
  if t == "open" then some .open
  else if t == "socket" then some .socket
  else if t == "pipe" then some .pipe
  else if t == "accept" then some .accept
  else if t == "acceptp" then some .acceptp
  else if t == "maccept" then some .maccept
  else if t == "todirect" then some .toDirect
  else if t == "tofd" then some .toFd
  else if t == "close" then some .close
  else none

def parseBool (t : String) : Option Bool :=
  if t == "0" then some false else if t == "1" then some true else none

/-- What C07 demands of the OWNED conversion `Signals::to_direct_descriptor`
(src/io_uring/process.rs:66-101: `ToDirectOp<Signals>`, `DirectFdMapper::map` replaces the
regular `AsyncFd` by the direct one, which drops — i.e. closes — the regular one): in every
outcome the signalfd descriptor is closed exactly once; on success the allocated direct slot
is released exactly once when the `Signals` is dropped; on failure (`err:<errno>`, any errno
that is not retried) the `Signals` is dropped with the failed operation and no slot exists.
`EINVAL` is reported as `Unsupported` (`fallback`, op.rs:992-1000). -/
def sigDirectSpec (outcome : String) : Option String :=
  if outcome == "ok" then some "sigdirect ok regular-closes=1 direct-releases=1 regular-open=0"
  else if outcome.startsWith "err:" then
    match (outcome.drop 4).toString.toNat? with
    | some e =>
      if e = 0 ∨ e ≥ 4096 ∨ e = 4 ∨ e = 125 then none
      else some s!"sigdirect err {if e = 22 then "Unsupported" else toString e} regular-closes=1 direct-releases=0 regular-open=0"
    | none => none
  else none

def stepLine (s : Sys) (toks : List String) : Sys × List String :=
  match toks with
  | "fds" :: "begin" :: _ :: rest =>
    match findNat "sq" rest, findNat "slo" rest, findNat "slots" rest, findNat "flo" rest,
        findNat "fhi" rest with
    | some sq, some slo, some slots, some flo, some fhi =>
      ({ sqLen := sq, slotLo := slo, slots := slots, fileLo := flo, fileHi := fhi }, [])
    | _, _, _, _, _ => (s, ["bad-op"])
  | ["fds", "tryclone", order] =>
    -- `AsyncFd::try_clone` (src/fd.rs:158-162) on a ring of its own: a regular descriptor is
    -- duplicated, the clone owns the NEW descriptor, each of the two is closed exactly once whatever
    -- the drop order
    if order == "ab" || order == "ba" then (s, ["tryclone ok distinct=1 closes=1,1 open=0,0"])
    else (s, ["bad-op"])
  | ["fds", "sigdirect", outcome] =>
    -- `Signals::to_direct_descriptor` on a ring of its own (see `sigDirectSpec`); the state of this
    -- component's ring is untouched
    match sigDirectSpec outcome with
    | some l => (s, [l])
    | none => (s, ["bad-op"])
  | ["fds", "std", a, w] =>
    match parseNat a, parseNat w with
    | some a, some w => if a == s.handles.length then s.step (.std w) else (s, ["bad-op"])
    | _, _ => (s, ["bad-op"])
  | ["fds", "new", i, kind, arg] =>
    match parseNat i, parseOpKind kind with
    | some i, some k =>
      if i != s.ops.length then (s, ["bad-op"]) else
      match k with
      | .open | .socket | .pipe =>
        (match parseKind arg with
         | some r => s.step (.newOp k r 0)
         | none => (s, ["bad-op"]))
      | _ =>
        (match parseNat arg with
         | some a => s.step (.newOp k .file a)
         | none => (s, ["bad-op"]))
    | _, _ => (s, ["bad-op"])
  | ["fds", "poll", i] =>
    match parseNat i with
    | some i => s.step (.poll i)
    | none => (s, ["bad-op"])
  | ["fds", "poll", i, "pipe2", raws] =>
    match parseNat i, parseNatList raws with
    | some i, some rs => s.step (.pollFb i (.ok rs))
    | _, _ => (s, ["bad-op"])
  | ["fds", "poll", i, "pipe2-err", e] =>
    match parseNat i, parseNat e with
    | some i, some e => s.step (.pollFb i (.fail e))
    | _, _ => (s, ["bad-op"])
  | ["fds", "dropop", i] =>
    match parseNat i with
    | some i => s.step (.dropOp i)
    | none => (s, ["bad-op"])
  | ["fds", "drop", a] =>
    match parseNat a with
    | some a => s.step (.dropH a)
    | none => (s, ["bad-op"])
  | ["fds", "kpost", i, "ok", raws, more] =>
    match parseNat i, parseNatList raws, parseBool more with
    | some i, some rs, some m => s.step (.kpost i (.ok rs) m)
    | _, _, _ => (s, ["bad-op"])
  | ["fds", "kpost", i, "err", e, more] =>
    match parseNat i, parseNat e, parseBool more with
    | some i, some e, some m => s.step (.kpost i (.err e) m)
    | _, _, _ => (s, ["bad-op"])
  | ["fds", "rpoll"] => s.step .rpoll
  | ["fds", "rpollfail", e] =>
    -- `Ring::poll` whose `io_uring_enter` fails with errno `e` (not ETIME/EINTR, which are not
    -- errors): the kernel took nothing, `poll` returns the error, nothing else happens
    match parseNat e with
    | some e =>
      if 1 ≤ e ∧ e < 4096 ∧ e ≠ 4 ∧ e ≠ 62 then (s, [s!"enter submit={s.sq.length}", s!"error {e}"])
      else (s, ["bad-op"])
    | none => (s, ["bad-op"])
  | ["fds", "dropfail", a, e] =>
    -- an `AsyncFd` dropped while `io_uring_enter` would fail: dropping never enters the kernel
    -- (the CLOSE is queued, or the descriptor is closed synchronously when the queue is full)
    match parseNat a, parseNat e with
    | some a, some e =>
      if 1 ≤ e ∧ e < 4096 ∧ e ≠ 4 ∧ e ≠ 62 then s.step (.dropH a) else (s, ["bad-op"])
    | _, _ => (s, ["bad-op"])
  | ["fds", "end"] => s.finish
  | _ => (s, ["bad-op"])

def init : Sys := {}

end A10.Fds
