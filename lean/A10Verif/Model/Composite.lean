/-
Model of the eight "all-or-error" composite futures of a10:

  write_all / write_all_vectored          src/io/mod.rs:209-239, 547-695
  send_all  / send_all_vectored           src/net.rs:343-375, 1311-1373, 1433-1524
  read_n    / read_n_vectored             src/io/mod.rs:166-200, 435-545
  recv_n    / recv_n_vectored             src/net.rs:273-310, 1260-1309, 1375-1431

together with the buffer wrappers they rely on (`SkipBuf`, `ReadNBuf`
src/io/mod.rs:703-769; `LimitedBuf`, arrays/tuples, `Vec<u8>`
src/io/traits.rs; pool `ReadBuf` src/io/read_buf.rs:353-409) and the way the
io_uring back end turns the resources into a request
(src/io_uring/io.rs:323-583, src/io_uring/net.rs:210-345, 489-700).

Every future is a structurally recursive function over a *transfer script*
`ks : List Nat`: `ks[i]` is what the kernel would like to transfer for the
i-th request; the kernel never transfers more than was offered, so the result
of request `i` is `min ks[i] offered_i` (`0` allowed). The functions return the
list of answered requests (`Exch`) and the final result; when the script runs
out the future is still waiting for the answer of one more request, which is
recorded in `Res.pending`.

A buffer is described by numbers only (lengths, capacities, limits): a request
records, per iovec, the start offset inside its buffer and the length, i.e.
exactly the pointer arithmetic the code performs. The theorems
(`Props/C10.lean`) interpret these ranges as positions of bytes.
-/
import A10Verif.Model.Basic

namespace A10.Composite

/-- `NO_OFFSET = u64::MAX` (src/io/mod.rs:142): "use the file position". -/
def NO_OFFSET : Nat := 18446744073709551615
/-- 2^64. -/
def U64 : Nat := 18446744073709551616
/-- 2^32. -/
def U32 : Nat := 4294967296

/-- The io_uring opcodes the eight futures submit. -/
inductive Opc where
  | write | writev | send | sendZc | sendmsg | sendmsgZc
  | read | readv | recv | recvmsg
  deriving Repr, DecidableEq

def Opc.name : Opc → String
  | .write => "WRITE" | .writev => "WRITEV"
  | .send => "SEND" | .sendZc => "SEND_ZC"
  | .sendmsg => "SENDMSG" | .sendmsgZc => "SENDMSG_ZC"
  | .read => "READ" | .readv => "READV"
  | .recv => "RECV" | .recvmsg => "RECVMSG"

/-- One iovec: `(start, len)` — start offset inside its buffer, length. -/
abbrev Iov := Nat × Nat

/-- Bytes offered by a list of iovecs. -/
def iovTotal : List Iov → Nat
  | [] => 0
  | (_, l) :: rest => l + iovTotal rest

/-- A request as the kernel sees it. `iov[j]` refers to buffer `j`. With
`sel` (IOSQE_BUFFER_SELECT) the kernel picks a pool buffer; `iov` then is the
single range `(0, buffer size)` of the buffer it picks. -/
structure Req where
  op : Opc
  /-- `sqe.off`: file offset (`NO_OFFSET` = current position); 0 for sockets. -/
  off : Nat
  /-- `sqe.rw_flags`/`msg_flags`. -/
  flags : Nat
  sel : Bool
  iov : List Iov
  deriving Repr, DecidableEq

/-- `sqe.len`: byte count for the single-buffer opcodes, number of iovecs for
READV/WRITEV, 1 (one msghdr) for SENDMSG/RECVMSG; not set with buffer select. -/
def Req.sqeLen (r : Req) : Nat :=
  if r.sel then 0 else
  match r.op with
  | .writev | .readv => r.iov.length
  | .sendmsg | .sendmsgZc | .recvmsg => 1
  | _ => iovTotal r.iov

/-- An answered request: the kernel transferred `res` bytes (the first `res`
bytes of the offered ranges, in order). -/
structure Exch where
  req : Req
  res : Nat
  deriving Repr, DecidableEq

/-- Outcome of a future. -/
inductive Res (β : Type) where
  /-- `Ok`; the value is what the extracting variant hands back / the buffers. -/
  | ok (b : β)
  /-- `Err(WriteZero)`. -/
  | writeZero
  /-- `Err(UnexpectedEof)`. -/
  | eof
  /-- Arithmetic overflow / `unreachable!` panic (dev profile). -/
  | panic
  /-- The script ended: request `r` is in flight, the future is `Pending`. -/
  | pending (r : Req)
  deriving Repr, DecidableEq

def Res.map {β γ : Type} (f : β → γ) : Res β → Res γ
  | .ok b => .ok (f b)
  | .writeZero => .writeZero
  | .eof => .eof
  | .panic => .panic
  | .pending r => .pending r

/-- Outcome when the kernel may also *fail* a request: `plain` = the outcomes
above; `failed q e` = request `q` was answered with `-e` and the future
returned `Err(e)` (`Poll::Ready(Err(err)) => Poll::Ready(Err(err))`,
src/io/mod.rs:484,541,587,671; src/net.rs:1303,1356,1427,1502). `EINTR` and
`ECANCELED` never get here: the operation re-issues itself (C09). -/
inductive ResE (β : Type) where
  | plain (r : Res β)
  | failed (q : Req) (e : Nat)
  deriving Repr, DecidableEq

def ResE.map {β γ : Type} (f : β → γ) : ResE β → ResE γ
  | .plain r => .plain (r.map f)
  | .failed q e => .failed q e

/-- The kernel answers the script `ks`, then fails the request that is
pending after it (if there is one) with errno `e`. Every future stops at its
first failed request, so this describes all runs with one kernel error. -/
def failWith {β : Type} (x : List Exch × Res β) : Option Nat → List Exch × ResE β
  | none => (x.1, .plain x.2)
  | some e =>
    match x.2 with
    | .pending q => (x.1, .failed q e)
    | r => (x.1, .plain r)

/-- `this.offset += n as u64` guarded by `this.offset != NO_OFFSET`
(src/io/mod.rs:470-472, 518-520, 571-573, 638-640); `none` = the addition
overflows `u64` (panic with overflow checks). Socket futures have no offset. -/
def advOff (positional : Bool) (off n : Nat) : Option Nat :=
  if positional = true ∧ off ≠ NO_OFFSET then
    (if off + n < U64 then some (off + n) else none)
  else some off

/-! ## Writing side -/

/-- What is fixed for every request of a write/send future: the opcode
(normal or zero-copy), the flags, and whether the offset is tracked. -/
structure WCfg where
  op : Opc
  flags : Nat
  positional : Bool
  deriving Repr, DecidableEq

/-- `SkipBuf::parts` (src/io/mod.rs:762-769) for an inner buffer of `size`
bytes: `(start, len)`. -/
def skipParts (size skip : Nat) : Iov :=
  if skip ≥ size then (0, 0) else (skip, size - skip)

def wReq (c : WCfg) (off : Nat) (iov : List Iov) : Req :=
  { op := c.op, off := off, flags := c.flags, sel := false, iov := iov }

/-- `WriteAll::poll_inner` (src/io/mod.rs:563-590) and `SendAll::poll_inner`
(src/net.rs:1339-1359): state = `skip` (u32) and the offset. -/
def wGo (c : WCfg) (size : Nat) : Nat → Nat → List Nat → List Exch × Res Unit
  | skip, off, [] => ([], .pending (wReq c off [skipParts size skip]))
  | skip, off, k :: ks =>
    let r := wReq c off [skipParts size skip]
    let n := min k (skipParts size skip).2
    if n = 0 then ([⟨r, n⟩], .writeZero)          -- `Ok((_, 0))` => WriteZero
    else if skip + n ≥ U32 then ([⟨r, n⟩], .panic) -- `buf.skip += n as u32`
    else
      match advOff c.positional off n with
      | none => ([⟨r, n⟩], .panic)
      | some off' =>
        if (skipParts size (skip + n)).2 = 0 then ([⟨r, n⟩], .ok ())
        else
          let rest := wGo c size (skip + n) off' ks  -- `state.reset(buf, ..)`
          (⟨r, n⟩ :: rest.1, rest.2)

/-- A buffer handed to a writing future: `len` bytes, optionally wrapped in a
`LimitedBuf` (src/io/traits.rs `impl Buf for LimitedBuf`). -/
structure WBuf where
  len : Nat
  lim : Option Nat
  deriving Repr, DecidableEq

/-- `Buf::parts().1`. -/
def WBuf.size (b : WBuf) : Nat :=
  match b.lim with
  | none => b.len
  | some m => min b.len m

/-- `LimitedBuf::as_iovecs{,_mut}` (src/io/traits.rs): cut the iovecs after
`left` bytes. -/
def limitIov : List Iov → Nat → List Iov
  | [], _ => []
  | (s, l) :: rest, left =>
    if l ≤ left then (s, l) :: limitIov rest (left - l)
    else (s, left) :: limitIov rest 0

/-- The buffers of a vectored write: an array/tuple of buffers, optionally
wrapped as a whole in a `LimitedBuf`. -/
structure WBufs where
  elems : List WBuf
  outer : Option Nat
  deriving Repr, DecidableEq

/-- `BufSlice::as_iovecs`. -/
def WBufs.iovecs (b : WBufs) : List Iov :=
  let full := b.elems.map (fun e => (0, e.size))
  match b.outer with
  | none => full
  | some l => limitIov full l

/-- The skip loop of `WriteAllVectored::poll_inner` (src/io/mod.rs:643-655) /
`SendAllVectored::poll_inner` (src/net.rs:1476-1488). -/
def skipIov : List Iov → Nat → List Iov
  | [], _ => []
  | (s, l) :: rest, skip =>
    if l ≤ skip then (s, 0) :: skipIov rest (skip - l)   -- `set_len(0)`
    else (s + skip, l - skip) :: rest                     -- `skip(skip)`, break

/-- `iovecs.iter().all(|iovec| iovec.len() == 0)`. -/
def allEmpty : List Iov → Bool
  | [] => true
  | (_, l) :: rest => l == 0 && allEmpty rest

/-- `WriteAllVectored::poll_inner` (src/io/mod.rs:629-674) and
`SendAllVectored::poll_inner` (src/net.rs:1465-1505). `base` is what
`bufs.as_iovecs()` returns, `iov` the iovecs stored in the operation state,
`skip` the cumulative count (u64). -/
def wvGo (c : WCfg) (base : List Iov) : List Iov → Nat → Nat → List Nat → List Exch × Res Unit
  | iov, _, off, [] => ([], .pending (wReq c off iov))
  | iov, skip, off, k :: ks =>
    let r := wReq c off iov
    let n := min k (iovTotal iov)
    if n = 0 then ([⟨r, n⟩], .writeZero)
    else
      match advOff c.positional off n with
      | none => ([⟨r, n⟩], .panic)
      | some off' =>
        let iov' := skipIov base (skip + n)
        if allEmpty iov' then ([⟨r, n⟩], .ok ())
        else
          let rest := wvGo c base iov' (skip + n) off' ks
          (⟨r, n⟩ :: rest.1, rest.2)

/-- `fd.write_all(buf).at(off)` (`off = NO_OFFSET` without `.at`); `Ok` hands
the buffer back with `.extract()`. -/
def writeAll (b : WBuf) (off : Nat) (ks : List Nat) : List Exch × Res WBuf :=
  let r := wGo ⟨.write, 0, true⟩ b.size 0 off ks
  (r.1, r.2.map (fun _ => b))

/-- `fd.send_all(buf).flags(flags)[.zc()]`. -/
def sendAll (b : WBuf) (flags : Nat) (zc : Bool) (ks : List Nat) : List Exch × Res WBuf :=
  let r := wGo ⟨if zc then .sendZc else .send, flags, false⟩ b.size 0 0 ks
  (r.1, r.2.map (fun _ => b))

/-- `fd.write_all_vectored(bufs).at(off)`. -/
def writeAllV (b : WBufs) (off : Nat) (ks : List Nat) : List Exch × Res WBufs :=
  let r := wvGo ⟨.writev, 0, true⟩ b.iovecs b.iovecs 0 off ks
  (r.1, r.2.map (fun _ => b))

/-- `fd.send_all_vectored(bufs).flags(flags)[.zc()]`. -/
def sendAllV (b : WBufs) (flags : Nat) (zc : Bool) (ks : List Nat) : List Exch × Res WBufs :=
  let r := wvGo ⟨if zc then .sendmsgZc else .sendmsg, flags, false⟩ b.iovecs b.iovecs 0 0 ks
  (r.1, r.2.map (fun _ => b))

/-! ## Reading side -/

/-- A buffer handed to a reading future. -/
inductive RBuf where
  /-- `Vec<u8>` with `len` initialised bytes and capacity `cap`. -/
  | vec (len cap : Nat)
  /-- `ReadBuf` of a pool with buffers of `size` bytes: not yet assigned a
  buffer (`none`) or owning one holding `l` bytes. -/
  | pool (owned : Option Nat) (size : Nat)
  /-- `LimitedBuf<B>`. -/
  | lim (inner : RBuf) (limit : Nat)
  deriving Repr, DecidableEq

/-- `BufMut::parts_mut`: `(start, len)` of the spare capacity
(src/io/traits.rs `Vec<u8>`, `LimitedBuf`; src/io/read_buf.rs:354-361). -/
def RBuf.partsMut : RBuf → Iov
  | .vec len cap => (len, cap - len)
  | .pool (some l) size => (l, size - l)
  | .pool none _ => (0, 0)
  | .lim b limit => ((b.partsMut).1, min (b.partsMut).2 limit)

/-- `BufMut::set_init(n)`. -/
def RBuf.setInit : RBuf → Nat → RBuf
  | .vec len cap, n => .vec (len + n) cap
  | .pool (some l) size, n => .pool (some (l + n)) size
  | .pool none size, _ => .pool none size
  | .lim b limit, n => .lim (b.setInit n) (limit - n)

/-- `BufMut::parts`: only an unassigned `ReadBuf` asks for buffer selection
(src/io/read_buf.rs:388-397); everything else, `LimitedBuf` included, uses the
default `parts_mut` based implementation. Returns the pool buffer size. -/
def RBuf.selSize : RBuf → Option Nat
  | .pool none size => some size
  | _ => none

/-- `ReadBuf::buffer_init` (src/io/read_buf.rs:400-409). -/
def RBuf.bufferInit : RBuf → Nat → RBuf
  | .pool none size, n => .pool (some n) size
  | .pool (some l) size, n => .pool (some (l + n)) size
  | b, _ => b

/-- Number of initialised bytes (`len()`). -/
def RBuf.initLen : RBuf → Nat
  | .vec len _ => len
  | .pool (some l) _ => l
  | .pool none _ => 0
  | .lim b _ => b.initLen

/-- `BufMut::spare_capacity`. -/
def RBuf.spare : RBuf → Nat
  | .vec len cap => cap - len
  | .pool (some l) size => size - l
  | .pool none _ => 0
  | .lim b limit => min b.spare limit

structure RCfg where
  op : Opc
  flags : Nat
  positional : Bool
  deriving Repr, DecidableEq

/-- `ReadOp::fill_submission` / `RecvOp::fill_submission`
(src/io_uring/io.rs:328-351, src/io_uring/net.rs:216-239). -/
def rReq (c : RCfg) (b : RBuf) (off : Nat) : Req :=
  match b.selSize with
  | some size => { op := c.op, off := off, flags := c.flags, sel := true, iov := [(0, size)] }
  | none => { op := c.op, off := off, flags := c.flags, sel := false, iov := [b.partsMut] }

/-- `ReadOp::map_ok` (src/io_uring/io.rs:353-365) through `ReadNBuf`
(src/io/mod.rs:709-736): the buffer after the kernel delivered `n` bytes. -/
def RBuf.afterRead (b : RBuf) (n : Nat) : RBuf :=
  match b.selSize with
  | some _ => b.bufferInit n
  | none => b.setInit n

/-- `ReadN::poll` (src/io/mod.rs:458-482) and `RecvN::poll`
(src/net.rs:1280-1307). -/
def rGo (c : RCfg) : RBuf → Nat → Nat → List Nat → List Exch × Res RBuf
  | b, _, off, [] => ([], .pending (rReq c b off))
  | b, left, off, k :: ks =>
    let r := rReq c b off
    let n := min k (iovTotal r.iov)
    let b' := b.afterRead n
    if n = 0 then ([⟨r, n⟩], .eof)                   -- `last_read == 0`
    else if n ≥ left then ([⟨r, n⟩], .ok b')         -- `last_read >= left`
    else
      match advOff c.positional off n with
      | none => ([⟨r, n⟩], .panic)
      | some off' =>
        let rest := rGo c b' (left - n) off' ks      -- `state.reset(buf, ..)`
        (⟨r, n⟩ :: rest.1, rest.2)

/-- `BufMutSlice::set_init` for arrays and tuples (src/io/traits.rs): `none`
is the `unreachable!` at the end of the loop. -/
def setInitArr : List RBuf → Nat → Option (List RBuf)
  | [], _ => none
  | b :: bs, left =>
    if (b.partsMut).2 < left then
      (setInitArr bs (left - (b.partsMut).2)).map (fun r => b.setInit (b.partsMut).2 :: r)
    else some (b.setInit left :: bs)

/-- Buffers handed to a vectored reading future. -/
inductive RBufs where
  /-- `[B; N]` or a tuple. -/
  | arr (elems : List RBuf)
  /-- `LimitedBuf<…>` around them. -/
  | lim (inner : RBufs) (limit : Nat)
  deriving Repr

/-- `BufMutSlice::as_iovecs_mut`. -/
def RBufs.iovecs : RBufs → List Iov
  | .arr es => es.map RBuf.partsMut
  | .lim inner l => limitIov inner.iovecs l

/-- `BufMutSlice::set_init`. -/
def RBufs.setInit : RBufs → Nat → Option RBufs
  | .arr es, n => (setInitArr es n).map .arr
  | .lim inner l, n => (inner.setInit n).map (fun i => .lim i (l - n))

/-- The element buffers. -/
def RBufs.elems : RBufs → List RBuf
  | .arr es => es
  | .lim inner _ => inner.elems

/-- `BufMutSlice::total_spare_capacity`. -/
def RBufs.spare : RBufs → Nat
  | .arr es => (es.map RBuf.spare).sum
  | .lim inner l => min inner.spare l

def rvReq (c : RCfg) (b : RBufs) (off : Nat) : Req :=
  { op := c.op, off := off, flags := c.flags, sel := false, iov := b.iovecs }

/-- `ReadNVectored::poll` (src/io/mod.rs:506-544) and `RecvNVectored::poll`
(src/net.rs:1402-1431). -/
def rvGo (c : RCfg) : RBufs → Nat → Nat → List Nat → List Exch × Res RBufs
  | b, _, off, [] => ([], .pending (rvReq c b off))
  | b, left, off, k :: ks =>
    let r := rvReq c b off
    let n := min k (iovTotal r.iov)
    match b.setInit n with
    | none => ([⟨r, n⟩], .panic)
    | some b' =>
      if n = 0 then ([⟨r, n⟩], .eof)
      else if n ≥ left then ([⟨r, n⟩], .ok b')
      else
        match advOff c.positional off n with
        | none => ([⟨r, n⟩], .panic)
        | some off' =>
          let rest := rvGo c b' (left - n) off' ks
          (⟨r, n⟩ :: rest.1, rest.2)

/-- `fd.read_n(buf, n).from(off)`. -/
def readN (b : RBuf) (n off : Nat) (ks : List Nat) : List Exch × Res RBuf :=
  rGo ⟨.read, 0, true⟩ b n off ks

/-- `fd.recv_n(buf, n).flags(flags)`. -/
def recvN (b : RBuf) (n flags : Nat) (ks : List Nat) : List Exch × Res RBuf :=
  rGo ⟨.recv, flags, false⟩ b n 0 ks

/-- `fd.read_n_vectored(bufs, n).from(off)`. -/
def readNV (b : RBufs) (n off : Nat) (ks : List Nat) : List Exch × Res RBufs :=
  rvGo ⟨.readv, 0, true⟩ b n off ks

/-- `fd.recv_n_vectored(bufs, n).flags(flags)`. -/
def recvNV (b : RBufs) (n flags : Nat) (ks : List Nat) : List Exch × Res RBufs :=
  rvGo ⟨.recvmsg, flags, false⟩ b n 0 ks

/-! ## Line protocol -/

def showIov : List Iov → String
  | iov =>
    if iov.isEmpty then "none"
    else joinWith "," (iov.map fun (s, l) => if l = 0 then "-" else s!"{s}+{l}")

def showReq (r : Req) : String :=
  s!"req {r.op.name} off={r.off} flags={r.flags} n={r.sqeLen} sel={if r.sel then 1 else 0} iov={showIov r.iov}"

def showExchs : List Exch → List String
  | [] => []
  | e :: es => showReq e.req :: s!"res {e.res}" :: showExchs es

def showRes {β : Type} (okText : β → String) : Res β → List String
  | .ok b => [s!"result ok{okText b}"]
  | .writeZero => ["result err=WriteZero"]
  | .eof => ["result err=UnexpectedEof"]
  | .panic => ["result panic"]
  | .pending r => [showReq r, "result pending"]

/-- The error the caller sees for `-e`: `fallback` (src/io_uring/op.rs:992-1000)
turns `EINVAL` into `ErrorKind::Unsupported`, every other error is passed on. -/
def showErrno (e : Nat) : String := if e = 22 then "Unsupported" else s!"os{e}"

def showResE {β : Type} (okText : β → String) : ResE β → List String
  | .plain r => showRes okText r
  | .failed q e => [showReq q, s!"res -{e}", s!"result err={showErrno e}"]

/-- `err` key: absent or `-` = no kernel error; `<errno>` or `<errno>+`
(the `+` only tells the harness how a zero-copy error is delivered).
`EINTR` (4) and `ECANCELED` (125) are rejected: the operation retries them. -/
def parseErr (toks : List String) : Option (Option Nat) :=
  match findKv "err" toks with
  | none => some none
  | some v =>
    if v == "-" then some none else
    let digits := if v.endsWith "+" then (v.dropEnd 1).toString else v
    if digits.isEmpty ∨ ¬ digits.toList.all Char.isDigit then none else
    match digits.toNat? with
    | some e => if e = 0 ∨ e > 4095 ∨ e = 4 ∨ e = 125 then none else some (some e)
    | none => none

/-- Largest buffer the harness allocates; larger ones are rejected by both sides. -/
def MAX_LEN : Nat := 1048576

/-- A decimal number (digits only) below 2^64. -/
def parseU64 (s : String) : Option Nat :=
  if s.isEmpty ∨ ¬ s.toList.all Char.isDigit then none
  else match s.toNat? with
    | some n => if n < U64 then some n else none
    | none => none

/-- `-` = not given. -/
def parseOpt (s : String) : Option (Option Nat) :=
  if s == "-" then some none else (parseU64 s).map some

/-- `one` for the single-buffer futures, `arr`/`tup` (at least two elements)
for the vectored ones; only the harness distinguishes arrays from tuples. -/
def shapeOk (shape : String) (single : Bool) (n : Nat) : Bool :=
  (shape == "one" && single) || (shape == "arr" && !single) || (shape == "tup" && !single && decide (2 ≤ n))

/-- A writing buffer: `len` or `len/limit`. -/
def parseWBuf (s : String) : Option WBuf :=
  match s.splitOn "/" with
  | [l] => (parseU64 l).bind fun l => if l ≤ MAX_LEN then some ⟨l, none⟩ else none
  | [l, m] => do
    let l ← parseU64 l
    let m ← parseU64 m
    if l ≤ MAX_LEN then pure ⟨l, some m⟩ else none
  | _ => none

/-- A reading buffer: `len/cap`, `len/cap/limit`, `pool/size`, `pool/size/limit`. -/
def parseRBuf (s : String) : Option RBuf :=
  match s.splitOn "/" with
  | ["pool", sz] => (parseU64 sz).bind fun sz =>
      if 1 ≤ sz ∧ sz ≤ MAX_LEN then some (.pool none sz) else none
  | ["pool", sz, m] => do
    let sz ← parseU64 sz
    let m ← parseU64 m
    if 1 ≤ sz ∧ sz ≤ MAX_LEN then pure (.lim (.pool none sz) m) else none
  | [l, c] => do
    let l ← parseU64 l
    let c ← parseU64 c
    if l ≤ c ∧ c ≤ MAX_LEN then pure (.vec l c) else none
  | [l, c, m] => do
    let l ← parseU64 l
    let c ← parseU64 c
    let m ← parseU64 m
    if l ≤ c ∧ c ≤ MAX_LEN then pure (.lim (.vec l c) m) else none
  | _ => none

def parseList {α : Type} (f : String → Option α) (s : String) : Option (List α) :=
  if s == "" || s == "-" then some [] else (s.splitOn ",").mapM f

def parseBool (s : String) : Option Bool :=
  if s == "1" then some true else if s == "0" then some false else none

def RBuf.isPoolish : RBuf → Bool
  | .vec _ _ => false
  | .pool _ _ => true
  | .lim b _ => b.isPoolish

def showLens (bs : List RBuf) : String :=
  s!" lens={showNatList (bs.map RBuf.initLen)} spare={showNatList (bs.map RBuf.spare)}"

/-- Keys every op must carry, in this order (the harness generates them so). -/
def stepW (toks : List String) : Option (List String) := do
  let fut ← findKv "fut" toks
  let bufs ← (findKv "bufs" toks).bind (parseList parseWBuf)
  let outer ← (findKv "outer" toks).bind parseOpt
  let off ← (findKv "off" toks).bind parseOpt
  let flags ← (findKv "flags" toks).bind parseU64
  let zc ← (findKv "zc" toks).bind parseBool
  let ext ← (findKv "ext" toks).bind parseBool
  let ks ← (findKv "ks" toks).bind (parseList parseU64)
  let err ← parseErr toks
  let shape ← findKv "shape" toks
  let single := fut == "write_all" || fut == "send_all"
  let okText := fun (_ : Unit) => if ext then " extract=same" else ""
  let off := off.getD NO_OFFSET
  if off ≥ U64 ∨ flags ≥ U32 ∨ !shapeOk shape single bufs.length then none
  else if fut == "write_all" then
    match bufs, outer with
    | [b], none =>
      if flags ≠ 0 ∨ zc then none else
      let r := failWith (writeAll b off ks) err
      some (showExchs r.1 ++ showResE okText (r.2.map fun _ => ()))
    | _, _ => none
  else if fut == "send_all" then
    match bufs, outer with
    | [b], none =>
      if off ≠ NO_OFFSET then none else
      let r := failWith (sendAll b flags zc ks) err
      some (showExchs r.1 ++ showResE okText (r.2.map fun _ => ()))
    | _, _ => none
  else if fut == "write_all_vectored" then
    if bufs.isEmpty ∨ bufs.length > 8 ∨ flags ≠ 0 ∨ zc then none else
    let r := failWith (writeAllV ⟨bufs, outer⟩ off ks) err
    some (showExchs r.1 ++ showResE okText (r.2.map fun _ => ()))
  else if fut == "send_all_vectored" then
    if bufs.isEmpty ∨ bufs.length > 8 ∨ off ≠ NO_OFFSET then none else
    let r := failWith (sendAllV ⟨bufs, outer⟩ flags zc ks) err
    some (showExchs r.1 ++ showResE okText (r.2.map fun _ => ()))
  else none

def stepR (toks : List String) : Option (List String) := do
  let fut ← findKv "fut" toks
  let bufs ← (findKv "bufs" toks).bind (parseList parseRBuf)
  let outer ← (findKv "outer" toks).bind parseOpt
  let n ← (findKv "n" toks).bind parseU64
  let off ← (findKv "off" toks).bind parseOpt
  let flags ← (findKv "flags" toks).bind parseU64
  let _ ← (findKv "zsel" toks).bind parseBool
  let ks ← (findKv "ks" toks).bind (parseList parseU64)
  let err ← parseErr toks
  let shape ← findKv "shape" toks
  let isSingle := fut == "read_n" || fut == "recv_n"
  let off := off.getD NO_OFFSET
  let single := fun (b : RBuf) => showLens [b]
  let multi := fun (b : RBufs) => showLens b.elems ++ s!" tspare={b.spare}"
  if off ≥ U64 ∨ flags ≥ U32 ∨ !shapeOk shape isSingle bufs.length then none
  else if fut == "read_n" then
    match bufs, outer with
    | [b], none =>
      if flags ≠ 0 then none else
      let r := failWith (readN b n off ks) err
      some (showExchs r.1 ++ showResE single r.2)
    | _, _ => none
  else if fut == "recv_n" then
    match bufs, outer with
    | [b], none =>
      if off ≠ NO_OFFSET then none else
      let r := failWith (recvN b n flags ks) err
      some (showExchs r.1 ++ showResE single r.2)
    | _, _ => none
  else if fut == "read_n_vectored" ∨ fut == "recv_n_vectored" then
    if bufs.isEmpty ∨ bufs.length > 8 ∨ bufs.any RBuf.isPoolish then none else
    let b : RBufs := match outer with
      | none => .arr bufs
      | some l => .lim (.arr bufs) l
    if fut == "read_n_vectored" then
      if flags ≠ 0 then none else
      let r := failWith (readNV b n off ks) err
      some (showExchs r.1 ++ showResE multi r.2)
    else
      if off ≠ NO_OFFSET then none else
      let r := failWith (recvNV b n flags ks) err
      some (showExchs r.1 ++ showResE multi r.2)
  else none

/-- `slice.len() as u32` / `self.len() as u32` of every provided `Buf`
implementation (src/io/traits.rs:518-706): the length a buffer of `len` bytes
reports to the futures. Equal to `len` below 4 GiB. -/
def partsLen (len : Nat) : Nat := len % U32

/-- `composite whuge`: a `&'static [u8]` of `2^32 + extra` bytes (followed, for
the vectored futures, by a second buffer of `tail` bytes). The future only sees
`partsLen` of the first buffer. The last line compares what the caller handed
in with what the kernel was given. -/
def stepWHuge (toks : List String) : Option (List String) := do
  let fut ← findKv "fut" toks
  let k ← (findKv "extra" toks).bind parseU64
  let t ← (findKv "tail" toks).bind parseU64
  let ks ← (findKv "ks" toks).bind (parseList parseU64)
  if k > 4096 ∨ t > 4096 then none else
  let single := fut == "write_all" || fut == "send_all"
  if single && t ≠ 0 then none else
  let first : WBuf := ⟨partsLen (U32 + k), none⟩
  let okText := fun (_ : Unit) => ""
  let r : Option (List Exch × Res Unit) :=
    if fut == "write_all" then some ((writeAll first NO_OFFSET ks).1, (writeAll first NO_OFFSET ks).2.map fun _ => ())
    else if fut == "send_all" then some ((sendAll first 0 false ks).1, (sendAll first 0 false ks).2.map fun _ => ())
    else if fut == "write_all_vectored" then
      some ((writeAllV ⟨[first, ⟨t, none⟩], none⟩ NO_OFFSET ks).1,
            (writeAllV ⟨[first, ⟨t, none⟩], none⟩ NO_OFFSET ks).2.map fun _ => ())
    else if fut == "send_all_vectored" then
      some ((sendAllV ⟨[first, ⟨t, none⟩], none⟩ 0 false ks).1,
            (sendAllV ⟨[first, ⟨t, none⟩], none⟩ 0 false ks).2.map fun _ => ())
    else none
  let r ← r
  let handed := (r.1.map (·.res)).foldl (· + ·) 0
  some (showExchs r.1 ++ showRes okText r.2 ++ [s!"input={U32 + k + t} handed={handed}"])

/-- `composite wbig`: a vectored writing future over `n` buffers (2–4 `&'static [u8]`) of `size`
bytes each (`size < 2^31`, so every buffer reports its true length) whose TOTAL may exceed 4 GiB: the
continuation state (`skip: u64`, src/io/mod.rs:600-660; src/net.rs:1440-1500) has to count past
2^32. -/
def stepWBig (toks : List String) : Option (List String) := do
  let fut ← findKv "fut" toks
  let n ← (findKv "n" toks).bind parseU64
  let size ← (findKv "size" toks).bind parseU64
  let ks ← (findKv "ks" toks).bind (parseList parseU64)
  if n < 2 ∨ n > 4 ∨ size = 0 ∨ size ≥ 2147483648 then none else
  let bufs : WBufs := ⟨List.replicate n ⟨size, none⟩, none⟩
  let okText := fun (_ : Unit) => ""
  let r : Option (List Exch × Res Unit) :=
    if fut == "write_all_vectored" then
      some ((writeAllV bufs NO_OFFSET ks).1, (writeAllV bufs NO_OFFSET ks).2.map fun _ => ())
    else if fut == "send_all_vectored" then
      some ((sendAllV bufs 0 false ks).1, (sendAllV bufs 0 false ks).2.map fun _ => ())
    else none
  let r ← r
  let handed := (r.1.map (·.res)).foldl (· + ·) 0
  some (showExchs r.1 ++ showRes okText r.2 ++ [s!"input={n * size} handed={handed}"])

/-- One op: `composite w …` (a writing future) or `composite r …` (a reading
future); output = the requests with their results, then the final result. -/
def stepLine (toks : List String) : List String :=
  match toks with
  | ["composite", "begin", _] => []
  | "composite" :: "w" :: rest => (stepW rest).getD ["bad-op"]
  | "composite" :: "r" :: rest => (stepR rest).getD ["bad-op"]
  | "composite" :: "whuge" :: rest => (stepWHuge rest).getD ["bad-op"]
  | "composite" :: "wbig" :: rest => (stepWBig rest).getD ["bad-op"]
  | _ => ["bad-op"]

end A10.Composite
