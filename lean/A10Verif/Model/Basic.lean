/-
Shared definitions for the executable models. Core Lean only (no Mathlib), so
the line-protocol driver links as a `lean_exe`.
-/
namespace A10

/-- 2^32: ring counters are free-running 32-bit values. -/
def W32 : Nat := 4294967296
/-- 2^16: the buffer-ring tail. -/
def W16 : Nat := 65536

/-- `u32::wrapping_add`. -/
def wadd (a b : Nat) : Nat := (a + b) % 4294967296
/-- `u32::wrapping_sub` (for `a b < 2^32`). -/
def wsub (a b : Nat) : Nat := (a + 4294967296 - b) % 4294967296
/-- `u16::wrapping_add`. -/
def wadd16 (a b : Nat) : Nat := (a + b) % 65536

/-- `x as u32`. -/
def asU32 (x : Nat) : Nat := x % 4294967296

/-- Parse a decimal natural number; `none` on anything else. -/
def parseNat (s : String) : Option Nat := s.toNat?

/-- Parse a decimal integer with optional leading `-`. -/
def parseInt (s : String) : Option Int := s.toInt?

/-- Parse `key=value`, returning the value if the key matches. -/
def kv (key : String) (tok : String) : Option String :=
  match tok.splitOn "=" with
  | [k, v] => if k == key then some v else none
  | _ => none

/-- Find `key=value` among tokens. -/
def findKv (key : String) : List String → Option String
  | [] => none
  | t :: ts => match kv key t with
    | some v => some v
    | none => findKv key ts

def findNat (key : String) (toks : List String) : Option Nat :=
  (findKv key toks).bind parseNat

def findInt (key : String) (toks : List String) : Option Int :=
  (findKv key toks).bind parseInt

/-- Render a list with a separator. -/
def joinWith (sep : String) : List String → String
  | [] => ""
  | [x] => x
  | x :: xs => x ++ sep ++ joinWith sep xs

/-- Parse a comma separated list of naturals; the empty string or `-` is `[]`. -/
def parseNatList (s : String) : Option (List Nat) :=
  if s == "" || s == "-" then some []
  else (s.splitOn ",").mapM parseNat

def showNatList (xs : List Nat) : String :=
  if xs.isEmpty then "-" else joinWith "," (xs.map toString)

end A10
