/-
Model of the `SubmissionQueue::wake` / `Ring::poll` handshake (C11):
`PollingState` (src/lib.rs:531-565), `Completions::poll` (cq.rs:58-101),
`Submissions::wake` (sq.rs:94-144), `Shared::enter` (mod.rs:154-210).

One poller `P` and any number of wakers `W j`, interleaved at the points where
they touch the polling word, enter the kernel, or (for the poller) reload the
completion-queue tail. The segments between those points only read/write the
submission-queue words under the submission lock and are merged into the
preceding step (they commute with everything the handshake depends on).

The polling word has two bits: POLLING = 1, AWOKEN = 2.
-/
import A10Verif.Model.Basic

namespace A10.Wake

open A10

/-- Ring configuration. -/
inductive Mode where
  | default
  /-- IORING_SETUP_SQPOLL: a kernel thread consumes submissions, `enter` submits nothing -/
  | sqpoll
  /-- IORING_SETUP_SINGLE_ISSUER: wake uses the synchronous register call -/
  | single
  deriving Repr, DecidableEq

inductive PPc where
  /-- not polling (before the first call / after a call returned) -/
  | idle
  /-- `Ring::poll` called, about to look at the completion queue (c1, c2) -/
  | start (inf : Bool)
  /-- about to `set_polling(true)` (c3) -/
  | c3 (inf : Bool)
  /-- about to call `io_uring_enter(to_submit = n, GETEVENTS, min 1)`; `block` = it may
  block (infinite timeout and not awoken); `n` was computed from the queue words before the call -/
  | e3 (block : Bool) (n : Nat)
  /-- blocked inside the kernel -/
  | waiting
  /-- about to `set_polling(false)` (c4) -/
  | c4
  /-- about to reload the tail and process the completions (c5 … c6) -/
  | c5
  deriving Repr, DecidableEq

inductive WPc where
  /-- about to `fetch_or(AWOKEN)` (k1) -/
  | k1
  /-- message queued (or not: `added = false` after QueueFull), about to
  `enter(to_submit = n, 0, timeout 0)` -/
  | enter (added : Bool) (n : Nat)
  /-- single issuer: about to `io_uring_register(SEND_MSG_RING)` -/
  | sync
  | done
  deriving Repr, DecidableEq

structure St where
  mode : Mode := .default
  sqLen : Nat := 4
  /-- the polling word -/
  word : Nat := 0
  /-- completions in the completion queue (wake messages, or anything else) -/
  cq : Nat := 0
  /-- number of slots of the completion queue -/
  cqLen : Nat := 64
  /-- completions that did not fit (IORING_FEAT_NODROP): kept by the kernel in its overflow
  list, moved into the queue, oldest first, by the next `io_uring_enter(GETEVENTS)` -/
  ovf : Nat := 0
  /-- entries published in the submission queue, not yet consumed, oldest first:
  `true` = a wake message (MSG_RING), `false` = any other submission (an operation
  somebody started; it stays in flight once consumed: nothing completes here) -/
  sq : List Bool := []
  p : PPc := .idle
  w : List WPc := []
  /-- ghost: a `wake()` call passed its `fetch_or` since the poller last returned -/
  oblig : Bool := false
  /-- ghost: number of `Ring::poll` calls that returned -/
  returns : Nat := 0
  deriving Repr

def POLLING : Nat := 1
def AWOKEN : Nat := 2

/-- The kernel posts `k` completions (KC3): into the queue while there is room and the
overflow list is empty, onto the overflow list otherwise. -/
def post (s : St) (k : Nat) : St :=
  { s with
    cq := if s.ovf = 0 then s.cq + min k (s.cqLen - s.cq) else s.cq
    ovf := if s.ovf = 0 then k - min k (s.cqLen - s.cq) else s.ovf + k }

/-- `io_uring_enter(GETEVENTS)` (and the wait loop inside it) moves overflown completions
into the free slots of the queue. -/
def flush (s : St) : St :=
  { s with cq := s.cq + min s.ovf (s.cqLen - s.cq), ovf := s.ovf - min s.ovf (s.cqLen - s.cq) }

/-- Completions the poller can get at: in the queue, or on the overflow list. -/
def St.avail (s : St) : Nat := s.cq + s.ovf

/-- The kernel consumes the published wake messages: each posts two completions on the ring
(KC7, probed on the real kernel by `a10h kc`): the message itself (`user_data` = `off` = 1) on the
target ring, and the completion of the MSG_RING submission (`user_data` 1, `res` 0) on the source
ring — a10 sends the message to its own ring and does not ask for CQE_SKIP_SUCCESS. -/
def consume (s : St) (n : Nat) : St :=
  post { s with sq := s.sq.drop n } (2 * ((s.sq.take n).filter id).length)

/-- `unsubmitted_submissions()` as passed to `io_uring_enter` (0 with SQPOLL). -/
def toSubmit (s : St) : Nat := if s.mode == .sqpoll then 0 else s.sq.length

/-- One step of the poller. -/
def stepP (s : St) : St :=
  match s.p with
  | .idle => s
  | .start inf =>
    if s.cq > 0 then { s with cq := 0, p := .idle, oblig := false, returns := s.returns + 1 }
    else { s with p := .c3 inf }
  | .c3 inf =>
    -- swap(POLLING): awoken ⇒ poll with a zero timeout. (Since d4303dd the call also does not
    -- wait when futures are waiting for a submission slot — `Model/Blocked.lean`; there are none
    -- in this model, and not waiting only ever removes the `.waiting` state from a run.)
    let awoken := s.word / 2 % 2 == 1
    { s with word := POLLING, p := .e3 (inf && !awoken) (toSubmit s) }
  | .e3 block n =>
    let s := flush (consume s n)
    if s.cq > 0 then { s with p := .c4 }
    else if block then { s with p := .waiting }
    else { s with p := .c4 }
  | .waiting =>
    let s := flush s
    if s.cq > 0 then { s with p := .c4 } else s
  | .c4 => { s with word := 0, p := .c5 }
  | .c5 => { s with cq := 0, p := .idle, oblig := false, returns := s.returns + 1 }

/-- The poller's step when a signal is delivered to its thread while it is in (or about to
enter) `io_uring_enter`: the kernel consumes the submissions and moves what fits from the
overflow list as usual, but the wait — if one is needed — ends at once with `EINTR`, which
`Shared::enter` swallows (src/io_uring/mod.rs: `ETIME | EINTR => Ok(0)`): the call goes on to
`set_polling(false)`. A poller already blocked in the kernel returns the same way. -/
def stepPI (s : St) : St :=
  match s.p with
  | .e3 _ n => { flush (consume s n) with p := .c4 }
  | .waiting => { flush s with p := .c4 }
  | _ => stepP s

/-- Try to queue the wake message (`Submissions::add`). -/
def tryAdd (s : St) : St × Bool :=
  if s.sq.length < s.sqLen then ({ s with sq := s.sq ++ [true] }, true) else (s, false)

/-- One step of waker `j`. -/
def stepW (s : St) (j : Nat) : St :=
  match s.w[j]? with
  | none => s
  | some pc =>
    match pc with
    | .k1 =>
      let prev := s.word
      let s := { s with word := if prev / 2 % 2 == 1 then prev else prev + 2, oblig := true }
      if prev == POLLING then
        if s.mode == .single then { s with w := s.w.set j .sync }
        else
          let (s, ok) := tryAdd s
          { s with w := s.w.set j (.enter ok (toSubmit s)) }
      else { s with w := s.w.set j .done }
    | .enter added n =>
      let s := consume s n
      if added then { s with w := s.w.set j .done }
      else
        let (s, ok) := tryAdd s
        { s with w := s.w.set j (.enter ok (toSubmit s)) }
    | .sync => { post s 1 with w := s.w.set j .done }
    | .done => s

/-- The SQPOLL kernel thread consumes the submissions. -/
def stepK (s : St) : St := if s.mode == .sqpoll then consume s s.sq.length else s

/-- Something else completes (any I/O): one more completion in the queue. -/
def stepIo (s : St) : St := post s 1

/-- Somebody starts an operation: its submission is queued (not submitted) if
there is room. -/
def stepFill (s : St) : St :=
  if s.sq.length < s.sqLen then { s with sq := s.sq ++ [false] } else s

/-- A new `Ring::poll(timeout)` call (only when the previous one returned). -/
def startPoll (s : St) (inf : Bool) : St :=
  match s.p with
  | .idle => { s with p := .start inf }
  | _ => s

/-- A new `wake()` call by waker `j` (a fresh waker if `j` is the next index). -/
def startWake (s : St) (j : Nat) : St :=
  if j == s.w.length then { s with w := s.w ++ [.k1] }
  else match s.w[j]? with
    | some .done => { s with w := s.w.set j .k1 }
    | _ => s

/-! ### Line protocol (component `wake`) -/

def showP : PPc → String
  | .idle => "idle"
  | .start _ => "start"
  | .c3 _ => "at-set-polling"
  | .e3 _ n => s!"at-enter/{n}"
  | .waiting => "blocked"
  | .c4 => "at-clear-polling"
  | .c5 => "at-reload"

def showW : WPc → String
  | .k1 => "at-fetch-or"
  | .enter _ n => s!"at-enter/{n}"
  | .sync => "at-register"
  | .done => "done"

def showState (s : St) : String :=
  s!"word={s.word} cq={s.cq} ovf={s.ovf} sq={s.sq.length} returns={s.returns}"

def parseMode (m : String) : Option Mode :=
  if m == "default" then some .default
  else if m == "sqpoll" then some .sqpoll
  else if m == "single" then some .single
  else none

def stepLine (s : St) (toks : List String) : St × List String :=
  match toks with
  | "wake" :: "begin" :: _ :: rest =>
    match (findKv "mode" rest).bind parseMode, findNat "sq" rest with
    | some m, some n =>
      -- `cq=`: size of the completion queue (a power of two, at least the submission queue's)
      let c := (findNat "cq" rest).getD 64
      if n == 0 || n > 64 || (n &&& (n - 1)) != 0 || c < n || c > 64 || (c &&& (c - 1)) != 0 then
        ({ s with p := .idle, w := [] }, ["bad-op"])
      else ({ mode := m, sqLen := n, cqLen := c }, [showState { mode := m, sqLen := n, cqLen := c }])
    | _, _ => (s, ["bad-op"])
  | ["wake", "poll", inf] =>
    if inf != "0" && inf != "1" then (s, ["bad-op"]) else
    match s.p with
    | .idle => let s' := startPoll s (inf == "1"); (s', [s!"p {showP s'.p} {showState s'}"])
    | _ => (s, ["bad-op"])
  -- a `Ring::poll(None)` during which a signal arrives: an interrupted `io_uring_enter` is an
  -- `io_uring_enter` that does not wait (`stepPI`, `C11_interrupted_enter_is_zero_timeout`), so
  -- the call behaves as one with a zero timeout
  | ["wake", "polli"] =>
    match s.p with
    | .idle => let s' := startPoll s false; (s', [s!"p {showP s'.p} {showState s'}"])
    | _ => (s, ["bad-op"])
  | ["wake", "p"] =>
    match s.p with
    | .idle => (s, ["bad-op"])
    | _ => let s' := stepP s; (s', [s!"p {showP s'.p} {showState s'}"])
  | ["wake", "call", j] =>
    match parseNat j with
    | some j =>
      let s' := startWake s j
      if s'.w == s.w then (s, ["bad-op"])
      else (s', [s!"w{j} {(s'.w[j]?).map showW |>.getD "?"} {showState s'}"])
    | none => (s, ["bad-op"])
  | ["wake", "w", j] =>
    match parseNat j with
    | some j =>
      match s.w[j]? with
      | none => (s, ["bad-op"])
      | some .done => (s, ["bad-op"])
      | some _ => let s' := stepW s j; (s', [s!"w{j} {(s'.w[j]?).map showW |>.getD "?"} {showState s'}"])
    | none => (s, ["bad-op"])
  | ["wake", "k"] => let s' := stepK s; (s', [s!"k {showState s'}"])
  | ["wake", "io"] => let s' := stepIo s; (s', [s!"io {showState s'}"])
  | ["wake", "fill"] => let s' := stepFill s; (s', [s!"fill {showState s'}"])
  | _ => (s, ["bad-op"])

end A10.Wake
