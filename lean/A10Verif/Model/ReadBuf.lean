/-
Model of `ReadBuf` (src/io/read_buf.rs:153-338, 357-453) over the memory of
its `ReadBufPool` (src/io_uring/io.rs:46-225).

The pool's buffer allocation (`bufs_addr`, `pool_size * buf_size` bytes,
io.rs:97,122) is a `List UInt8`; addresses are offsets from `bufs_addr`.
A `ReadBuf` is `owned : Option<NonNull<[u8]>>` (read_buf.rs:157): a fat
pointer = (offset of the first byte, length). All edits go through
`change_size` (read_buf.rs:335-338), which keeps the address and rewrites only
the length.

`dev` selects the profile: `true` = debug assertions on (the profile of the
pinned suite and of the harness), `false` = release (`debug_assert!` in
`set_len` compiled out). Bounds of `usize::MAX` are rejected in both.
-/
import A10Verif.Model.Basic

namespace A10.ReadBuf

abbrev Byte := UInt8

/-- 2^64: `usize` on the target. -/
def USIZE : Nat := 18446744073709551616

/-- `std::ops::Bound<usize>`. -/
inductive Bound where
  | unbounded
  | incl (n : Nat)
  | excl (n : Nat)
  deriving Repr, DecidableEq

/-- `ReadBuf::owned` (read_buf.rs:157): `None`, or the fat pointer
(offset from `bufs_addr`, length). -/
inductive RB where
  | unowned
  | owned (off len : Nat)
  deriving Repr, DecidableEq

/-- What a call reports. `num` is the `usize` returned by
`BufMut::extend_from_slice`. -/
inductive Res where
  | ok
  | panic
  | err
  | num (n : Nat)
  deriving Repr, DecidableEq

/-- The editing calls. -/
inductive Op where
  /-- `truncate(n)` read_buf.rs:189-196 -/
  | truncate (n : Nat)
  /-- `clear()` read_buf.rs:204-208 -/
  | clear
  /-- `remove(range)` read_buf.rs:215-259 -/
  | remove (lo hi : Bound)
  /-- `set_len(n)` read_buf.rs:267-272 -/
  | setLen (n : Nat)
  /-- `extend_from_slice(d)` read_buf.rs:279-300 -/
  | extend (d : List Byte)
  /-- `spare_capacity_mut()[..d.len()].copy_from_slice(d)` read_buf.rs:304-314 -/
  | spareWrite (d : List Byte)
  /-- `as_mut_slice()[i] = b` (DerefMut, read_buf.rs:448-453) -/
  | set (i : Nat) (b : Byte)
  /-- `BufMut::extend_from_slice(d)`: `parts_mut`, copy, `set_init`
  (traits.rs, read_buf.rs:358-373) -/
  | bmExtend (d : List Byte)
  /-- A read into the (owned) buffer: `parts`/`parts_mut` give the spare
  capacity, the kernel writes `min |d| spare` bytes, `set_init` /
  `buffer_init` (owned branch) add them (read_buf.rs:392-413, io.rs:337-364). -/
  | kread (d : List Byte)
  deriving Repr, DecidableEq

/-! ### Memory -/

/-- Store `d` at offset `a`. -/
def writeAt (mem : List Byte) (a : Nat) (d : List Byte) : List Byte :=
  mem.take a ++ d ++ mem.drop (a + d.length)

/-- `ptr::copy` (memmove, read_buf.rs:254): `n` bytes from `src` to `dst`,
the source is read before anything is written. -/
def copyWithin (mem : List Byte) (dst src n : Nat) : List Byte :=
  writeAt mem dst ((mem.drop src).take n)

/-! ### The calls -/

/-- read_buf.rs:217-223: `start_idx.checked_add(1)`, a panic for `usize::MAX`
in every profile (since the `fix:` commit 3770672; before it `start_idx + 1`
wrapped to 0 without overflow checks). -/
def startOf : Bound → Option Nat
  | .unbounded => some 0
  | .incl s => some s
  | .excl s => if s + 1 < USIZE then some (s + 1) else none

/-- read_buf.rs:224-230: `end_idx.checked_add(1)`. -/
def endOf (len : Nat) : Bound → Option Nat
  | .unbounded => some len
  | .incl e => if e + 1 < USIZE then some (e + 1) else none
  | .excl e => some e

/-- One call on a buffer. Returns the outcome, the new `owned` and the new pool
memory. `bs` = `buf_size` (`capacity()`, read_buf.rs:162-164). -/
def step (dev : Bool) (bs : Nat) (rb : RB) (mem : List Byte) (op : Op) :
    Res × RB × List Byte :=
  match rb with
  | .owned off len =>
    match op with
    | .truncate n =>
      -- read_buf.rs:190-195
      if n > len then (.ok, rb, mem) else (.ok, .owned off n, mem)
    | .clear => (.ok, .owned off 0, mem)
    | .remove lo hi =>
      match startOf lo, endOf len hi with
      | some s, some e =>
        -- read_buf.rs:233-237
        if s > e then (.panic, rb, mem)
        else if e > len then (.panic, rb, mem)
        else
          -- read_buf.rs:239-241
          let newLen := len - (e - s)
          -- read_buf.rs:243-246
          if newLen = 0 ∨ s ≥ newLen then (.ok, .owned off newLen, mem)
          -- read_buf.rs:249-255
          else (.ok, .owned off newLen, copyWithin mem (off + s) (off + e) (newLen - s))
      | _, _ => (.panic, rb, mem)
    | .setLen n =>
      -- read_buf.rs:268-271
      if dev ∧ n > bs then (.panic, rb, mem) else (.ok, .owned off n, mem)
    | .extend d =>
      -- read_buf.rs:281-296
      if len + d.length > bs then (.err, rb, mem)
      else (.ok, .owned off (len + d.length), writeAt mem (off + len) d)
    | .spareWrite d =>
      -- read_buf.rs:306-310: the slice starts at `off + len`, `bs - len` long
      if d.length > bs - len then (.panic, rb, mem)
      else (.ok, rb, writeAt mem (off + len) d)
    | .set i b =>
      if i < len then (.ok, rb, writeAt mem (off + i) [b]) else (.panic, rb, mem)
    | .bmExtend d =>
      -- read_buf.rs:360-361 (`parts_mut`), traits.rs `copy_bytes`, read_buf.rs:369
      let w := min d.length (bs - len)
      (.num w, .owned off (len + w), writeAt mem (off + len) (d.take w))
    | .kread d =>
      -- read_buf.rs:395-397 (`parts`), kernel, read_buf.rs:369 / 409
      let w := min d.length (bs - len)
      (.ok, .owned off (len + w), writeAt mem (off + len) (d.take w))
  | .unowned =>
    match op with
    | .truncate _ => (.ok, rb, mem)
    | .clear => (.ok, rb, mem)
    | .remove lo hi =>
      -- read_buf.rs:216 `original_len = 0`, 256-258
      match startOf lo, endOf 0 hi with
      | some s, some e => if s ≠ 0 ∨ e ≠ 0 then (.panic, rb, mem) else (.ok, rb, mem)
      | _, _ => (.panic, rb, mem)
    | .setLen n => if dev ∧ n > bs then (.panic, rb, mem) else (.ok, rb, mem)
    | .extend _ => (.err, rb, mem)           -- read_buf.rs:297-299
    | .spareWrite d => if d.length > 0 then (.panic, rb, mem) else (.ok, rb, mem)
    | .set _ _ => (.panic, rb, mem)
    | .bmExtend _ => (.num 0, rb, mem)       -- read_buf.rs:363, 370-372
    | .kread _ => (.ok, rb, mem)             -- a read without a buffer: nothing
                                             -- (selection is `System`-level, below)

/-- `ReadBufPool::init_buffer` (io.rs:151-163) via `buffer_init`
(read_buf.rs:410-412) / `new_buffer` (read_buf.rs:87-92). -/
def initBuffer (bs id n : Nat) : RB := .owned (id * bs) n

/-- `ReadBufPool::release` (io.rs:173-176, 194-199): the ring entry written
back: `(bid, addr)`. -/
def releaseEntry (bs off : Nat) : Nat × Nat := (off / bs % 65536, off)

/-! ### Reference: a byte vector with a fixed capacity

`buf` is the vector's allocation (`buf.length` = capacity), the first `len`
bytes are its contents. Written with list surgery only (`drain` semantics for
`remove`), no addresses. -/

structure V where
  buf : List Byte
  len : Nat
  deriving Repr, DecidableEq

def V.contents (v : V) : List Byte := v.buf.take v.len
def V.cap (v : V) : Nat := v.buf.length

/-- `usize::checked_add(1)`. -/
def checkedSucc (n : Nat) : Option Nat := if n + 1 < USIZE then some (n + 1) else none

/-- `core::slice::range(range, ..len)`: `None` = panic. -/
def vecRange (lo hi : Bound) (len : Nat) : Option (Nat × Nat) :=
  let s := match lo with
    | .unbounded => some 0
    | .incl s => some s
    | .excl s => checkedSucc s
  let e := match hi with
    | .unbounded => some len
    | .incl e => checkedSucc e
    | .excl e => some e
  match s, e with
  | some s, some e => if s > e then none else if e > len then none else some (s, e)
  | _, _ => none

/-- Replace the bytes at `[a, a + |d|)` of the allocation. -/
def V.put (v : V) (a : Nat) (d : List Byte) : List Byte :=
  v.buf.take a ++ d ++ v.buf.drop (a + d.length)

def vecStep (v : V) (op : Op) : Res × V :=
  match op with
  | .truncate n => if n > v.len then (.ok, v) else (.ok, { v with len := n })
  | .clear => (.ok, { v with len := 0 })
  | .remove lo hi =>
    match vecRange lo hi v.len with
    | none => (.panic, v)
    | some (s, e) =>
      -- `drain(s..e)`: the head stays, the tail `[e, len)` moves down to `s`,
      -- everything from the new length on is left alone.
      let newLen := v.len - (e - s)
      (.ok, { buf := v.buf.take s ++ (v.buf.drop e).take (v.len - e) ++ v.buf.drop newLen,
              len := newLen })
  | .setLen n => if n > v.cap then (.panic, v) else (.ok, { v with len := n })
  | .extend d =>
    if v.len + d.length > v.cap then (.err, v)
    else (.ok, { buf := v.put v.len d, len := v.len + d.length })
  | .spareWrite d =>
    if d.length > v.cap - v.len then (.panic, v) else (.ok, { v with buf := v.put v.len d })
  | .set i b => if i < v.len then (.ok, { v with buf := v.put i [b] }) else (.panic, v)
  | .bmExtend d =>
    let w := min d.length (v.cap - v.len)
    (.num w, { buf := v.put v.len (d.take w), len := v.len + w })
  | .kread d =>
    let w := min d.length (v.cap - v.len)
    (.ok, { buf := v.put v.len (d.take w), len := v.len + w })

/-- The vector a buffer denotes: its slot of the pool and its length. -/
def abs (bs : Nat) (mem : List Byte) (off len : Nat) : V :=
  { buf := (mem.drop off).take bs, len := len }

/-- Run a sequence of calls (a rejected call leaves the buffer usable). -/
def run (dev : Bool) (bs : Nat) : RB → List Byte → List Op → List Res × RB × List Byte
  | rb, mem, [] => ([], rb, mem)
  | rb, mem, op :: ops =>
    let (r, rb', mem') := step dev bs rb mem op
    let (rs, rb'', mem'') := run dev bs rb' mem' ops
    (r :: rs, rb'', mem'')

def vecRun : V → List Op → List Res × V
  | v, [] => ([], v)
  | v, op :: ops =>
    let (r, v') := vecStep v op
    let (rs, v'') := vecRun v' ops
    (r :: rs, v'')

/-! ### System: pool, kernel side of the buffer ring, several buffers -/

/-- Number of `ReadBuf` handles a script can use. -/
def NH : Nat := 6

structure St where
  live : Bool
  bs : Nat
  ps : Nat
  mem : List Byte
  /-- Entries published in the buffer ring and not yet taken by the kernel,
  oldest first: `(bid, addr)`. -/
  ring : List (Nat × Nat)
  bufs : List RB
  deriving Repr

def init : St := { live := false, bs := 0, ps := 0, mem := [], ring := [], bufs := [] }

/-- The pattern the harness writes over the whole pool before a case. -/
def canary (i : Nat) : Byte := UInt8.ofNat ((i * 31 + 167) % 256)

/-- `ReadBufPool::new` (io.rs:121-131): entry `i` is `(i, i * buf_size)`. -/
def begin (ps bs : Nat) : St :=
  { live := true, bs := bs, ps := ps,
    mem := (List.range (ps * bs)).map canary,
    ring := (List.range ps).map (fun i => (i, i * bs)),
    bufs := List.replicate NH .unowned }

/-- A read with buffer handle `h` (io.rs:328-365) completed by the kernel with
the bytes `d`. `kind`: 0 = plain read, 1 = the completion of a read into an
owned buffer carries a buffer flag with id 0 (read_buf.rs:405-409), 2 = end of
file (result 0, no buffer). Returns `none` for `ENOBUFS`. -/
def readOp (s : St) (h : Nat) (kind : Nat) (d : List Byte) : Option St :=
  match s.bufs.getD h .unowned with
  | .owned off len =>
    let d := if kind = 2 then [] else d
    let (_, rb, mem) := step true s.bs (.owned off len) s.mem (.kread d)
    some { s with mem := mem, bufs := s.bufs.set h rb }
  | .unowned =>
    if kind = 2 then some s
    else match s.ring with
      | [] => none
      | (bid, addr) :: rest =>
        -- kernel: the entry's length is `buf_size` (io.rs:126,196)
        let n := min d.length s.bs
        some { s with mem := writeAt s.mem addr (d.take n), ring := rest,
                      bufs := s.bufs.set h (initBuffer s.bs bid n) }

/-- `release` / drop (read_buf.rs:326-332, io.rs:166-216). -/
def releaseOp (s : St) (h : Nat) : St :=
  match s.bufs.getD h .unowned with
  | .owned off _ =>
    { s with ring := s.ring ++ [releaseEntry s.bs off], bufs := s.bufs.set h .unowned }
  | .unowned => s

/-! ### Line protocol -/

def hexDigit (n : Nat) : Char :=
  if n < 10 then Char.ofNat (48 + n) else Char.ofNat (87 + n)

def hexByte (b : Byte) : String :=
  String.ofList [hexDigit (b.toNat / 16 % 16), hexDigit (b.toNat % 16)]

def hex (bs : List Byte) : String :=
  if bs.isEmpty then "-" else String.join (bs.map hexByte)

def unhexDigit (c : Char) : Option Nat :=
  if '0' ≤ c ∧ c ≤ '9' then some (c.toNat - 48)
  else if 'a' ≤ c ∧ c ≤ 'f' then some (c.toNat - 87)
  else none

def unhexList : List Char → Option (List Byte)
  | [] => some []
  | [_] => none
  | a :: b :: rest => do
    let x ← unhexDigit a
    let y ← unhexDigit b
    let r ← unhexList rest
    pure (UInt8.ofNat (16 * x + y) :: r)

def unhex (s : String) : Option (List Byte) :=
  if s == "-" then some [] else if s.isEmpty then none else unhexList s.toList

/-- Decimal `usize`: digits only, at most 20 of them, `< 2^64`. -/
def parseUsize (s : String) : Option Nat :=
  let cs := s.toList
  if cs.isEmpty || cs.length > 20 then none
  else if cs.all (fun c => '0' ≤ c ∧ c ≤ '9') then
    let n := cs.foldl (fun a c => a * 10 + (c.toNat - 48)) 0
    if n < USIZE then some n else none
  else none

def parseBound (s : String) : Option Bound :=
  match s.toList with
  | ['u'] => some .unbounded
  | 'i' :: rest => (parseUsize (String.ofList rest)).map .incl
  | 'e' :: rest => (parseUsize (String.ofList rest)).map .excl
  | _ => none

def parseHandle (s : String) : Option Nat :=
  match parseUsize s with
  | some h => if h < NH then some h else none
  | none => none

/-- Maximal runs of changed bytes `(offset, new bytes)`. -/
def diffGo : List Byte → List Byte → Nat → Option (Nat × List Byte) →
    List (Nat × List Byte) → List (Nat × List Byte)
  | a :: as, b :: bs, i, cur, acc =>
    if a == b then
      match cur with
      | some (o, l) => diffGo as bs (i + 1) none ((o, l.reverse) :: acc)
      | none => diffGo as bs (i + 1) none acc
    else
      match cur with
      | some (o, l) => diffGo as bs (i + 1) (some (o, b :: l)) acc
      | none => diffGo as bs (i + 1) (some (i, [b])) acc
  | _, _, _, cur, acc =>
    match cur with
    | some (o, l) => ((o, l.reverse) :: acc).reverse
    | none => acc.reverse

def showDiff (old new : List Byte) : String :=
  let runs := diffGo old new 0 none []
  if runs.isEmpty then "-"
  else joinWith "," (runs.map (fun (o, l) => s!"{o}:{hex l}"))

def showRing (r : List (Nat × Nat)) : String :=
  if r.isEmpty then "-" else joinWith "," (r.map (fun (b, a) => s!"{b}@{a}"))

def showRes : Res → String
  | .ok => "ok"
  | .panic => "panic"
  | .err => "err"
  | .num n => s!"n={n}"

def contentsOf (s : St) : RB → List Byte
  | .owned off len => (s.mem.drop off).take len
  | .unowned => []

def showBuf (s : St) (rb : RB) : String :=
  match rb with
  | .owned off len => s!"own={off} len={len} data={hex (contentsOf s rb)}"
  | .unowned => "own=- len=0 data=-"

/-- The line printed after every state-changing op. -/
def report (res : String) (old s : St) (h : Nat) : List String :=
  [s!"{res} {showBuf s (s.bufs.getD h .unowned)} ring={showRing s.ring} w={showDiff old.mem s.mem}"]

def editOp (s : St) (h : Nat) (op : Op) : St × List String :=
  let (r, rb, mem) := step true s.bs (s.bufs.getD h .unowned) s.mem op
  let s' := { s with mem := mem, bufs := s.bufs.set h rb }
  (s', report (showRes r) s s' h)

/-- `capacity/len/is_empty/spare_capacity/has_spare_capacity/parts_mut/Buf::parts`. -/
def showParts (s : St) (h : Nat) : String :=
  match s.bufs.getD h .unowned with
  | .owned off len =>
    s!"cap={s.bs} len={len} empty={if len = 0 then 1 else 0} spare={s.bs - len} has={if s.bs > len then 1 else 0} pm={off + len}:{s.bs - len} bp={off}:{len}"
  | .unowned => s!"cap={s.bs} len=0 empty=1 spare=0 has=0 pm=null:0 bp=-:0"

def stepLine (s : St) (toks : List String) : St × List String :=
  match toks with
  | "readbuf" :: "begin" :: _ :: rest =>
    match findKv "ps" rest, findKv "bs" rest with
    | some ps, some bs =>
      match parseUsize ps, parseUsize bs with
      | some ps, some bs =>
        if (ps = 1 ∨ ps = 2 ∨ ps = 4 ∨ ps = 8 ∨ ps = 16) ∧ 1 ≤ bs ∧ bs ≤ 4096 ∧ rest.length = 2
        then (begin ps bs, [])
        else (init, [])
      | _, _ => (init, [])
    | _, _ => (init, [])
  | "readbuf" :: rest =>
    if ¬ s.live then (s, ["bad-op"]) else
    match rest with
    | [kind, h, d] =>
      match parseHandle h with
      | none => (s, ["bad-op"])
      | some h =>
        let rd (k : Nat) : St × List String :=
          match unhex d with
          | none => (s, ["bad-op"])
          | some d =>
            match readOp s h k d with
            | some s' => (s', report "ok" s s' h)
            | none => (s, report "err ENOBUFS" s s h)
        if kind == "read" then rd 0
        else if kind == "readbf" then rd 1
        else if kind == "truncate" then
          match parseUsize d with
          | some n => editOp s h (.truncate n)
          | none => (s, ["bad-op"])
        else if kind == "setlen" then
          match parseUsize d with
          | some n => editOp s h (.setLen n)
          | none => (s, ["bad-op"])
        else if kind == "extend" then
          match unhex d with
          | some d => editOp s h (.extend d)
          | none => (s, ["bad-op"])
        else if kind == "exthuge" then
          -- `extend_from_slice` with a slice of `n ≥ 2^32` bytes: more than any capacity
          -- (`bs ≤ 4096`), so it takes the same refusing branch as a slice of `bs + 1`
          -- bytes (`extend_refused_of_long` in Props/C15.lean: the outcome depends on the
          -- length only)
          match parseUsize d with
          | some n =>
            if 4294967296 ≤ n ∧ n ≤ 17179869184 then editOp s h (.extend (List.replicate (s.bs + 1) 0))
            else (s, ["bad-op"])
          | none => (s, ["bad-op"])
        else if kind == "spare" then
          match unhex d with
          | some d => editOp s h (.spareWrite d)
          | none => (s, ["bad-op"])
        else if kind == "bmext" then
          match unhex d with
          | some d => editOp s h (.bmExtend d)
          | none => (s, ["bad-op"])
        else (s, ["bad-op"])
    | [kind, h] =>
      match parseHandle h with
      | none => (s, ["bad-op"])
      | some h =>
        if kind == "clear" then editOp s h .clear
        else if kind == "eof" then
          match readOp s h 2 [] with
          | some s' => (s', report "ok" s s' h)
          | none => (s, ["bad-op"])
        else if kind == "release" || kind == "drop" then
          let s' := releaseOp s h
          (s', report "ok" s s' h)
        else if kind == "parts" then (s, [showParts s h])
        else (s, ["bad-op"])
    | [kind, h, a, b] =>
      match parseHandle h with
      | none => (s, ["bad-op"])
      | some h =>
        if kind == "remove" then
          match parseBound a, parseBound b with
          | some lo, some hi => editOp s h (.remove lo hi)
          | _, _ => (s, ["bad-op"])
        else if kind == "set" then
          match parseUsize a, parseUsize b with
          | some i, some b => if b < 256 then editOp s h (.set i (UInt8.ofNat b)) else (s, ["bad-op"])
          | _, _ => (s, ["bad-op"])
        else (s, ["bad-op"])
    | ["end"] =>
      -- every buffer is dropped (handles in order), then the pool
      let s' := (List.range NH).foldl releaseOp s
      ({ s' with live := false }, [s!"mem={hex s'.mem} ring={showRing s'.ring}"])
    | _ => (s, ["bad-op"])
  | _ => (s, ["bad-op"])

end A10.ReadBuf
