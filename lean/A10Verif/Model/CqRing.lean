/-
Model of the completion queue: `src/io_uring/cq.rs`.

* `classify`  — `Completion::process` up to the point where a pointer is formed
                (cq.rs:192-229): `IORING_CQE_F_SKIP`, the reserved `user_data`
                values 0-3 (cq.rs:181-184), the tag split (cq.rs:177-179, 227-229)
* `Kern`      — the memory shared with the kernel (ring slots, head word, tail
                word) plus the kernel's ghost publication history; `Kern.step`
                is the kernel contract KC3: the kernel publishes a completion by
                writing slot `tail & (len-1)` and then the tail, only while
                `tail - head < len` *as computed from the published head word*,
                and may overwrite ("scribble") any slot outside `[head, tail)`
* `pollRun`   — `Completions::poll` (cq.rs:58-101) at micro-step granularity:
                load head (59), load tail (60), emptiness test `head == tail`
                (63), `enter` + tail reload (73-76), `debug_assert` (79), loop
                `while head != tail` (80) { index `head & (len-1)` (81), read the
                slot and `process` it (88-91), `head.wrapping_add(1)` (94) },
                store head (98).  Between any two micro-steps the kernel may
                make arbitrary moves (`Sched`): it runs concurrently.
* `stepLine`  — line protocol of the correspondence component `cq`
                (harness/src/comp/cq.rs): the operations are `Model/Op.lean`.

Counters are `Nat` words `< 2^32`; `wadd`/`wsub` are `u32::wrapping_add/sub`.
Not modelled here: `PollingState` (cq.rs:67, 74; property C11), the timeout
argument, `wake_blocked_futures` inside `Shared::enter` (property C03).
-/
import A10Verif.Model.Op

namespace A10.CqRing

open A10

/-- `io_uring_cqe`: `user_data: u64`, `res: i32`, `flags: u32`. -/
structure Cqe where
  ud : Nat
  res : Int
  flags : Nat
  deriving Repr, DecidableEq, Inhabited

def ENOENT : Int := 2
def EALREADY : Int := 114

/-- What `Completion::process` does with one entry. -/
inductive Action where
  /-- `flags & IORING_CQE_F_SKIP != 0`: padding, return (cq.rs:195-197) -/
  | skip
  /-- `user_data == 0`: `log::warn!("unexpected completion")`, return (cq.rs:202-205) -/
  | noUserData
  /-- `user_data == 1`: wake-up only, return (cq.rs:207) -/
  | wake
  /-- `user_data == 2`, `res` is `-ENOENT` or `-EALREADY`: return (cq.rs:211-213) -/
  | cancelQuiet
  /-- `user_data == 2`, other result: warn, return (cq.rs:215-218) -/
  | cancelWarn
  /-- `user_data == 3`: `log::warn!("failed to close fd")`, return (cq.rs:220-223) -/
  | close
  /-- a pointer `user_data & !1` is formed and dereferenced as `SingleShared`
  (tag bit 0 clear) or `MultiShared` (tag bit set); `Shared::update` is called
  on it (cq.rs:227-238) -/
  | dispatch (ptr : Nat) (multi : Bool)
  deriving Repr, DecidableEq

/-- cq.rs:192-229. `user_data & TAG_MASK` with `TAG_MASK = !1` clears bit 0. -/
def classify (c : Cqe) : Action :=
  if fSkip c.flags then .skip
  else if c.ud = 0 then .noUserData
  else if c.ud = 1 then .wake
  else if c.ud = 2 then
    (if c.res = -ENOENT ∨ c.res = -EALREADY then .cancelQuiet else .cancelWarn)
  else if c.ud = 3 then .close
  else .dispatch (c.ud - c.ud % 2) (c.ud % 2 == 1)

/-- `State::user_data` (op.rs:219-229): the address of the operation state
tagged with `MULTISHOT_TAG` for multishot operations. -/
def userData (ptr : Nat) (multi : Bool) : Nat := if multi then ptr + 1 else ptr

/-! ### Shared memory and the kernel -/

/-- The ring as shared with the kernel. `base`/`pub` are ghost: the absolute
counter value at creation and every completion published so far, in order; the
tail word is `(base + |pub|) mod 2^32`. `head` is the head word, written by
a10 only. -/
structure Kern where
  len : Nat
  mem : Nat → Cqe
  head : Nat
  base : Nat
  pub : List Cqe

/-- Absolute (unwrapped) tail. -/
def Kern.T (k : Kern) : Nat := k.base + k.pub.length
/-- The tail word in shared memory. -/
def Kern.tail (k : Kern) : Nat := k.T % 4294967296
/-- Unconsumed entries as the kernel computes them from the two words. -/
def Kern.count (k : Kern) : Nat := wsub k.tail k.head

def setSlot (mem : Nat → Cqe) (i : Nat) (c : Cqe) : Nat → Cqe :=
  fun j => if j = i then c else mem j

/-- Kernel moves (KC3). -/
inductive KMove where
  /-- publish `c`: write slot `tail & (len-1)`, then the tail -/
  | post (c : Cqe)
  /-- overwrite the slot `off` entries past the published head; only slots
  outside `[head, tail)` (`count ≤ off < len`) may be touched -/
  | scribble (off : Nat) (c : Cqe)
  deriving Repr, DecidableEq

/-- A move the contract does not allow in the current state is not made, so
every list of moves is a legal kernel behaviour. -/
def Kern.step (k : Kern) : KMove → Kern
  | .post c =>
    if k.count < k.len then
      { k with mem := setSlot k.mem (k.tail &&& (k.len - 1)) c, pub := k.pub ++ [c] }
    else k
  | .scribble off c =>
    if k.count ≤ off ∧ off < k.len then
      { k with mem := setSlot k.mem (wadd k.head off &&& (k.len - 1)) c }
    else k

def Kern.steps (k : Kern) (ms : List KMove) : Kern := ms.foldl Kern.step k

/-! ### `Completions::poll` -/

/-- Observable micro-steps of one `poll` call, in program order. -/
inductive Ev where
  | loadHead (v : Nat)
  | loadTail (v : Nat)
  /-- `shared.enter(1, GETEVENTS, timeout)` -/
  | enter
  /-- `result?` returned the error of `enter` (anything but ETIME/EINTR) -/
  | error
  /-- `debug_assert!(tail.wrapping_sub(head) <= entries_len)` failed -/
  | panic
  /-- the loop did not terminate within 2^32 iterations (impossible for u32) -/
  | diverge
  /-- slot `idx` was dereferenced and processed while the local head was `head` -/
  | read (idx head : Nat) (c : Cqe)
  | storeHead (v : Nat)
  deriving Repr, DecidableEq

/-- What the concurrent kernel does between the micro-steps of one call. -/
structure Sched where
  beforeTail : List KMove := []
  /-- inside `io_uring_enter` -/
  duringEnter : List KMove := []
  /-- `false`: `enter` failed with an error other than ETIME/EINTR (mod.rs:195-210) -/
  enterOk : Bool := true
  afterEnter : List KMove := []
  /-- before the `i`-th slot read of the loop -/
  beforeRead : Nat → List KMove := fun _ => []
  beforeStore : List KMove := []

/-- cq.rs:80-95. `fuel` only makes the recursion structural: a `u32` loop
`while head != tail { head = head.wrapping_add(1) }` ends within 2^32 rounds. -/
def loopRun (s : Sched) (tail : Nat) : Nat → Nat → Nat → Kern → Kern × List Ev × Nat
  | 0, _, head, k => (k, if head = tail then [] else [.diverge], head)
  | fuel + 1, i, head, k =>
    if head = tail then (k, [], head) else
    let k := k.steps (s.beforeRead i)
    let idx := head &&& (k.len - 1)
    let c := k.mem idx
    let r := loopRun s tail fuel (i + 1) (wadd head 1) k
    (r.1, .read idx head c :: r.2.1, r.2.2)

/-- cq.rs:79-98: assertion, loop, head store. `dbg` = debug assertions on. -/
def bodyRun (dbg : Bool) (s : Sched) (pre : List Ev) (head tail : Nat) (k : Kern) :
    Kern × List Ev :=
  if dbg && decide (wsub tail head > k.len) then (k, pre ++ [.panic]) else
  let r := loopRun s tail 4294967296 0 head k
  let k' := r.1.steps s.beforeStore
  ({ k' with head := r.2.2 }, pre ++ r.2.1 ++ [.storeHead r.2.2])

/-- The loop left by unwinding (fix ecc12ae): user code — the `Waker`, the `Drop` of a dropped
operation's resources — panics while the `m`-th entry of the batch is processed (`1 ≤ m`; the
entry counts as handed over: the local head is advanced before `process` is called). The drop
guard `UpdateHead` stores the head while the stack unwinds. -/
def bodyUnwind (s : Sched) (pre : List Ev) (head m : Nat) (k : Kern) : Kern × List Ev :=
  let r := loopRun s (wadd head m) 4294967296 0 head k
  let k' := r.1.steps s.beforeStore
  ({ k' with head := r.2.2 }, pre ++ r.2.1 ++ [.storeHead r.2.2])

/-- cq.rs:58-101. -/
def pollRun (dbg : Bool) (k : Kern) (s : Sched) : Kern × List Ev :=
  let head := k.head
  let k := k.steps s.beforeTail
  let tail := k.tail
  if head = tail then
    let k := k.steps s.duringEnter
    if !s.enterOk then (k, [.loadHead head, .loadTail tail, .enter, .error])
    else
      let k := k.steps s.afterEnter
      bodyRun dbg s [.loadHead head, .loadTail tail, .enter, .loadTail k.tail] head k.tail k
  else bodyRun dbg s [.loadHead head, .loadTail tail] head tail k

/-- The entries processed by a call, in order. -/
def entries : List Ev → List Cqe
  | [] => []
  | .read _ _ c :: es => c :: entries es
  | _ :: es => entries es

/-- What reaches an operation: `(pointer, multishot tag, res, flags)`. -/
def opOf (c : Cqe) : Option (Nat × Bool × Int × Nat) :=
  match classify c with
  | .dispatch p m => some (p, m, c.res, c.flags)
  | _ => none

/-- The `Shared::update` calls made by a call, in order. -/
def delivered (evs : List Ev) : List (Nat × Bool × Int × Nat) := (entries evs).filterMap opOf

/-! ### The code before `fix: completion queue counters wrap around` (53d4445)

Kept to show what the wrap-safe comparisons repair: `head >= tail`,
`while head < tail`, `head += 1` (overflow check in the dev profile). -/

def loopOld (mem : Nat → Cqe) (len tail : Nat) : Nat → Nat → List Ev × Nat
  | 0, head => ([], head)
  | fuel + 1, head =>
    if head < tail then
      let r := loopOld mem len tail fuel (head + 1)
      (.read (head &&& (len - 1)) head (mem (head &&& (len - 1))) :: r.1, r.2)
    else ([], head)

/-- The old `poll` on words `head`, `tail` when `enter` publishes nothing new. -/
def pollOld (dbg : Bool) (mem : Nat → Cqe) (len head tail : Nat) : List Ev :=
  let pre := [Ev.loadHead head, .loadTail tail] ++
    (if head ≥ tail then [.enter, .loadTail tail] else [])
  if dbg && decide (tail < head) then pre ++ [.panic] else
  let r := loopOld mem len tail 4294967296 head
  pre ++ r.1 ++ [.storeHead r.2]

/-! ### Line protocol (component `cq`) -/

/-- The pattern the simulated kernel scribbles (`0x5c21bb1e`, `user_data` 0). -/
def junk : Cqe := ⟨0, 1545714462, 0⟩

structure St where
  k : Kern := { len := 2, mem := fun _ => junk, head := 0, base := 0, pub := [] }
  /-- `IORING_FEAT_NODROP`: completions that did not fit, flushed by a
  `GETEVENTS` enter -/
  overflow : List Cqe := []
  ops : List Op := []
  /-- operations with a consumed, unfinished submission -/
  inflight : List Nat := []
  /-- buffers handed out to multishot reads so far -/
  bufs : Nat := 0

def init : St := {}

/-- `user_data` of operation `i` in the model: a 16-aligned "address". -/
def opUd (i : Nat) (multi : Bool) : Nat := userData (16 * (i + 1)) multi
def opIndex (ptr : Nat) : Nat := ptr / 16 - 1

/-- `user_data` of the padding entries that carry no operation. -/
def junkUd : Nat := 6063630336

/-- Scribble every slot outside `[head, tail)` (`SimRing::scribble_free_slots`). -/
def scribbleAll (k : Kern) : List KMove :=
  (List.range k.len).filterMap fun off =>
    if k.count ≤ off then some (.scribble off junk) else none

/-- The kernel posts `c`: into the ring, or onto the overflow list when the
ring is full or older entries are still waiting there. -/
def St.post (s : St) (c : Cqe) : St × Bool × List KMove :=
  if s.overflow.isEmpty && decide (s.k.count < s.k.len) then
    ({ s with k := s.k.step (.post c) }, true, [.post c])
  else ({ s with overflow := s.overflow ++ [c] }, false, [])

/-- Flush the overflow list while there is room. -/
def flushAux : List Cqe → Kern → List KMove → Kern × List Cqe × List KMove
  | [], k, acc => (k, [], acc)
  | c :: rest, k, acc =>
    if k.count < k.len then flushAux rest (k.step (.post c)) (acc ++ [.post c])
    else (k, c :: rest, acc)

def St.flush (s : St) : St × List KMove :=
  let r := flushAux s.overflow s.k []
  ({ s with k := r.1, overflow := r.2.1 }, r.2.2)

/-- One scripted completion: `o<i>` for operation `i` (must be in flight),
`r<n>` with the reserved `user_data` `n`, `k<i>` a padding entry (F_SKIP forced)
carrying operation `i`'s `user_data`, `j` a padding entry with a junk one. -/
inductive Tgt where
  | op (i : Nat)
  | reserved (n : Nat)
  | skipOp (i : Nat)
  | skipJunk
  deriving Repr, DecidableEq

structure Spec where
  tgt : Tgt
  res : Int
  flags : Nat
  deriving Repr, DecidableEq

def orSkip (f : Nat) : Nat := if fSkip f then f else f + 32

/-- The CQE of a spec, or `none` = miss (nothing is posted). -/
def St.cqeOf (s : St) (sp : Spec) : Option (Cqe × St) :=
  match sp.tgt with
  | .op i =>
    match s.ops[i]? with
    | none => none
    | some o =>
      if !s.inflight.contains i then none
      else if o.multi && decide (sp.res > 255) then none
      else
        let wantsBuf := o.multi && decide (sp.res > 0)
        if wantsBuf && decide (s.bufs ≥ 120) then none else
        let s := if wantsBuf then { s with bufs := s.bufs + 1 } else s
        let s := if fMore sp.flags then s else { s with inflight := s.inflight.erase i }
        some (⟨opUd i o.multi, sp.res, sp.flags⟩, s)
  | .reserved n => if n ≤ 3 then some (⟨n, sp.res, sp.flags⟩, s) else none
  | .skipOp i =>
    match s.ops[i]? with
    | none => none
    | some o => some (⟨opUd i o.multi, sp.res, orSkip sp.flags⟩, s)
  | .skipJunk => some (⟨junkUd, sp.res, orSkip sp.flags⟩, s)

/-- Post a batch; returns the per-spec outcome and the ring-level moves. -/
def St.postAll (s : St) : List Spec → St × List String × List KMove
  | [] => (s, [], [])
  | sp :: rest =>
    match s.cqeOf sp with
    | none =>
      let r := s.postAll rest
      (r.1, "miss" :: r.2.1, r.2.2)
    | some (c, s) =>
      let p := s.post c
      let r := p.1.postAll rest
      (r.1, (if p.2.1 then "posted" else "overflow") :: r.2.1, p.2.2 ++ r.2.2)

def showOuts (xs : List String) : String := if xs.isEmpty then "-" else joinWith "," xs

def showPoll : PollOut → String
  | .pending => "pending"
  | .readyOk r => s!"ready ok {r.res}"
  | .readyErr e => s!"ready err {e}"
  | .readyNone => "ready none"
  | .panic => "panic"

/-- `Future::poll` / `poll_next` of operation `i`; a (re)submission is consumed
by the kernel at once. -/
def St.pollOp (s : St) (i w : Nat) : St × List String :=
  match s.ops[i]? with
  | none => (s, ["bad-op"])
  | some o =>
    let (o', out, effs) := o.poll w true
    let s := { s with ops := s.ops.set i o' }
    if effs.contains .submit then
      ({ s with inflight := s.inflight ++ [i] }, [showPoll out, "sqe"])
    else (s, [showPoll out])

/-- Accumulated observable effects of processing one call's entries. -/
structure Acc where
  warns : List String := []
  wakes : List Nat := []
  frees : List Nat := []
  panicked : Bool := false

/-- `Completion::process` (cq.rs:192-253) for one entry against the operations. -/
def St.process (s : St) (a : Acc) (c : Cqe) : St × Acc :=
  match classify c with
  | .skip | .wake | .cancelQuiet => (s, a)
  | .noUserData => (s, { a with warns := a.warns ++ ["none"] })
  | .cancelWarn => (s, { a with warns := a.warns ++ ["cancel"] })
  | .close => (s, { a with warns := a.warns ++ ["close"] })
  | .dispatch ptr multi =>
    let i := opIndex ptr
    match s.ops[i]? with
    | none => (s, { a with panicked := true })
    | some o =>
      if o.multi != multi || ptr != 16 * (i + 1) then (s, { a with panicked := true }) else
      match o.update ⟨c.res, c.flags⟩ with
      | none => (s, { a with panicked := true })
      | some (o', effs) =>
        let a := effs.foldl (fun (a : Acc) e =>
          match e with
          | .wake w => { a with wakes := a.wakes ++ [w] }
          | .free => { a with frees := a.frees ++ [i] }
          | _ => a) a
        ({ s with ops := s.ops.set i o' }, a)

def showReads : List Ev → List String
  | [] => []
  | .read idx head _ :: es => s!"{idx}@{head}" :: showReads es
  | _ :: es => showReads es

/-- ETIME / EINTR: `Shared::enter` answers `Ok(0)` (mod.rs:200-208). -/
def softErr (e : Nat) : Bool := e == 62 || e == 4

/-- `Ring::poll(Some(0))`. If the call enters the kernel, the kernel scribbles
the free slots, posts `enterSpecs` and flushes the overflow list (unless the
call is made to fail with errno `fail`). When the loop is about to read its
`mid`-th entry the concurrent kernel scribbles the free slots and posts
`midSpecs`. -/
def St.rpoll (s : St) (enterSpecs : List Spec) (mid : Nat) (midSpecs : List Spec) (fail : Nat) :
    St × List String :=
  let willEnter := s.k.head == s.k.tail
  -- the kernel's side of `enter`
  let (s1, enterOuts, em) :=
    if willEnter && fail == 0 then
      let sc := scribbleAll s.k
      let p := { s with k := s.k.steps sc }.postAll enterSpecs
      let f := p.1.flush
      (f.1, p.2.1, sc ++ p.2.2 ++ f.2)
    else (s, [], [])
  let enterOk := !(willEnter && fail != 0 && !softErr fail)
  -- the concurrent kernel at the `mid`-th read
  let scm := scribbleAll s1.k
  let pm := { s1 with k := s1.k.steps scm }.postAll midSpecs
  let mm := scm ++ pm.2.2
  let sched : Sched :=
    { duringEnter := em, enterOk := enterOk, beforeRead := fun i => if i = mid then mm else [] }
  let (k', evs) := pollRun true s.k sched
  let nreads := (entries evs).length
  let fired := decide (mid < nreads)
  let s2 := if fired then pm.1 else s1
  let s3 := { s2 with k := k' }
  let (s4, a) := (entries evs).foldl (fun (p : St × Acc) c => p.1.process p.2 c) (s3, {})
  (s4,
    [if willEnter then "enter " ++ showOuts enterOuts else "noenter"] ++
    (if evs.contains .error then [s!"error {fail}"] else []) ++
    (if evs.contains .panic || evs.contains .diverge || a.panicked then ["panic"] else []) ++
    ["reads " ++ showOuts (showReads evs),
     "mid " ++ (if fired then showOuts pm.2.1 else "-"),
     "warns " ++ showOuts a.warns,
     "wakes " ++ showNatList a.wakes,
     s!"head={k'.head} tail={k'.tail}"])

def parseTgt (t : String) : Option Tgt :=
  if t == "j" then some .skipJunk
  else
    let n := (t.drop 1).toString
    if t.startsWith "o" then (parseNat n).map .op
    else if t.startsWith "r" then (parseNat n).map .reserved
    else if t.startsWith "k" then (parseNat n).map .skipOp
    else none

/-- `tgt:res:flags` separated by commas (`-` = none). -/
def parseSpecs (s : String) : Option (List Spec) :=
  if s == "-" then some []
  else (s.splitOn ",").mapM (fun t =>
    match t.splitOn ":" with
    | [tg, r, f] => do
      let tg ← parseTgt tg
      let r ← parseInt r
      let f ← parseNat f
      pure ⟨tg, r, f⟩
    | _ => none)

def stepLine (s : St) (toks : List String) : St × List String :=
  match toks with
  | "cq" :: "begin" :: _ :: rest =>
    match findNat "cq" rest, findNat "cqh" rest with
    | some len, some h =>
      if h < 4294967296 then
        ({ k := { len := len, mem := fun _ => junk, head := h, base := h, pub := [] } }, [])
      else (s, ["bad-op"])
    | _, _ => (s, ["bad-op"])
  | ["cq", "new", i, kind] =>
    match parseNat i with
    | some i =>
      if i == s.ops.length && (kind == "write" || kind == "mread") then
        let s := { s with ops := s.ops ++ [({ multi := kind == "mread" } : Op)] }
        let r := s.pollOp i i
        (r.1, ["ok"])
      else (s, ["bad-op"])
    | none => (s, ["bad-op"])
  | ["cq", "poll", i, w] =>
    match parseNat i, parseNat w with
    | some i, some w => s.pollOp i w
    | _, _ => (s, ["bad-op"])
  | ["cq", "kpost", specs] =>
    match parseSpecs specs with
    | some sp =>
      let r := s.postAll sp
      (r.1, [showOuts r.2.1])
    | none => (s, ["bad-op"])
  | ["cq", "pwake"] =>
    -- Scenario line (a ring of its own): two reads complete in one batch; the waker of the second
    -- one panics inside `Ring::poll`: the call unwinds after BOTH completions were handed to their
    -- operations, and the head is stored all the same (fix ecc12ae), so the next `Ring::poll`
    -- finds nothing to process again: the first read was woken once and is ready, the second
    -- poll returns normally and wakes nobody, the second read is ready.
    (s, ["pwake first=panic a=ready/1 second=ok/0 b=ready"])
  | ["cq", "rpoll", es, mid, ms, fail] =>
    match parseSpecs es, parseNat mid, parseSpecs ms, parseNat fail with
    | some es, some mid, some ms, some fail => s.rpoll es mid ms fail
    | _, _, _, _ => (s, ["bad-op"])
  | _ => (s, ["bad-op"])

end A10.CqRing
