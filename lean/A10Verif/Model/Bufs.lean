/-
Model of the buffer traits `Buf`, `BufMut`, `BufSlice`, `BufMutSlice` and of
every implementation and wrapper a10 provides for them
(src/io/traits.rs, src/io/mod.rs:700-769, src/io/read_buf.rs:364-444,
src/unix.rs:9-104).

* An allocation is an abstract block id; a pointer is `(block, offset)`;
  `blk = none` is the null / dangling pointer of a buffer without memory.
* A base buffer (`Base`) is one allocation: `mem` holds *all* its bytes
  (`capacity()` of them for `Vec<u8>`, the buffer size for a pool buffer, the
  length for boxes / static / shared slices), `len` is the initialised prefix.
* `x as u32` is `x % 2^32` (`asU32`); `usize` values are unbounded `Nat`s (the
  line protocol only accepts limits `< 2^64`).
* Generic wrappers compose like the Rust types do: the four traits are four
  inductive types whose constructors are the provided implementations.
* Arrays `[B; N]` and tuples `(A, B, …)` of arity 2..8 run the same code
  element by element (traits.rs:389-428 and the macro at 820-887); both are
  the constructor `arr` over a list.
-/
import A10Verif.Model.Basic

namespace A10.Bufs

/-- A pointer/length pair as the kernel sees it. -/
structure Region where
  /-- Allocation the pointer points into; `none` = null or dangling. -/
  blk : Option Nat
  /-- Offset from the base of the allocation. -/
  off : Nat
  len : Nat
  deriving Repr, DecidableEq, Inhabited

/-- One allocation holding bytes. -/
structure Base where
  blk : Nat
  /-- Every byte of the allocation (`mem.length` = capacity). -/
  mem : List Nat
  /-- Number of initialised bytes (`len()`). -/
  len : Nat
  deriving Repr, DecidableEq, Inhabited

def Base.cap (b : Base) : Nat := b.mem.length

/-- The bytes the buffer holds (`&buf[..]`). -/
def Base.content (b : Base) : List Nat := b.mem.take b.len

/-- `Buf::parts` of every base type: `(as_ptr(), len() as u32)`
(traits.rs:511-514 Vec, 534-536 Box<[u8]>, 555-558 String, 577-580 Box<str>,
601-603 &'static [u8], 624-626 &'static str, 645-647 / 666-668 Cow,
688-690 Arc<[u8]>, 709-712 Arc<str>, 919-921 StaticBuf;
read_buf.rs:439-442 for an assigned `ReadBuf`). -/
def Base.parts (b : Base) : Region := ⟨some b.blk, 0, asU32 b.len⟩

/-- `BufMut::parts_mut` for `Vec<u8>` (traits.rs:234-237): the spare capacity
only; same for an assigned `ReadBuf` (read_buf.rs:365-369). -/
def Base.partsMut (b : Base) : Region := ⟨some b.blk, b.len, asU32 (b.cap - b.len)⟩

/-- `set_len(len + n)` (traits.rs:239-241, read_buf.rs:375-377). -/
def Base.setInit (b : Base) (n : Nat) : Base := { b with len := b.len + n }

/-- `(capacity() - len()) as u32` (traits.rs:243-245, read_buf.rs:383-385). -/
def Base.spare (b : Base) : Nat := asU32 (b.cap - b.len)

/-- `capacity() > len()` (traits.rs:247-249, read_buf.rs:391-393). -/
def Base.hasSpare (b : Base) : Bool := decide (b.cap > b.len)

/-- The kernel (or `copy_bytes`) stores `d` at offset `off` of the allocation. -/
def Base.writeMem (b : Base) (off : Nat) (d : List Nat) : Base :=
  { b with mem := b.mem.take off ++ d ++ b.mem.drop (off + d.length) }

/-- Bytes a pointer/length pair designates inside an allocation. -/
def readRegion (mem : List Nat) (r : Region) : List Nat := (mem.drop r.off).take r.len

/-! ### `Buf` -/

/-- The implementors of `Buf`. -/
inductive RBuf where
  /-- `Vec<u8>`, `Box<[u8]>`, `String`, `Box<str>`, `&'static [u8]`,
  `&'static str`, `Cow<'static, [u8]>`, `Cow<'static, str>`, `Arc<[u8]>`,
  `Arc<str>`, `StaticBuf`. -/
  | base (b : Base)
  /-- `ReadBuf`; `none` while no pool buffer is assigned. -/
  | pool (owned : Option Base)
  /-- `LimitedBuf<B>` (traits.rs:1026-1040). -/
  | limited (inner : RBuf) (limit : Nat)
  /-- `SkipBuf<B>` (mod.rs:757-769), `skip : u32`. -/
  | skip (inner : RBuf) (n : Nat)
  deriving Repr, Inhabited, DecidableEq

/-- `Buf::parts`. -/
def RBuf.parts : RBuf → Region
  | .base b => b.parts
  | .pool (some b) => b.parts
  -- read_buf.rs:446-451: `&[]`, a dangling pointer with length 0.
  | .pool none => ⟨none, 0, 0⟩
  -- traits.rs:1027-1031: `(ptr, min(len as usize, self.limit) as u32)`.
  | .limited i l => { i.parts with len := asU32 (min i.parts.len l) }
  -- mod.rs:761-768.
  | .skip i n =>
    if n ≥ i.parts.len then { i.parts with len := 0 }
    else { i.parts with off := i.parts.off + n, len := i.parts.len - n }

/-- `Buf::len`: overridden by the base types (`Vec::len` …) and by
`LimitedBuf` (traits.rs:1033-1035); the default `parts().1 as usize`
(traits.rs:472-476) for `ReadBuf` and `SkipBuf`. -/
def RBuf.len : RBuf → Nat
  | .base b => b.len
  | .pool o => (RBuf.parts (.pool o)).len
  | .limited i l => min i.len l
  | .skip i n => (RBuf.parts (.skip i n)).len

/-- `Buf::is_empty`: base types `len == 0`; `LimitedBuf`
`limit == 0 || buf.is_empty()` (traits.rs:1037-1039); default `len() == 0`. -/
def RBuf.isEmpty : RBuf → Bool
  | .base b => b.len == 0
  | .pool o => (RBuf.len (.pool o)) == 0
  | .limited i l => l == 0 || i.isEmpty
  | .skip i n => (RBuf.len (.skip i n)) == 0

/-- The allocation behind the buffer. -/
def RBuf.leaf : RBuf → Option Base
  | .base b => some b
  | .pool o => o
  | .limited i _ => i.leaf
  | .skip i _ => i.leaf

/-- Bytes the kernel reads through `parts()` (= the default `Buf::as_slice`,
traits.rs:491-499). -/
def RBuf.exposed (b : RBuf) : List Nat :=
  match b.leaf with
  | some l => readRegion l.mem b.parts
  | none => []

/-! ### `BufMut` -/

/-- The implementors of `BufMut`. -/
inductive MBuf where
  /-- `Vec<u8>` (traits.rs:233-250). -/
  | vec (b : Base)
  /-- `ReadBuf` (read_buf.rs:364-398); `none` while no pool buffer is assigned. -/
  | pool (owned : Option Base)
  /-- `LimitedBuf<B>` (traits.rs:967-988). -/
  | limited (inner : MBuf) (limit : Nat)
  /-- `ReadNBuf<B>` (mod.rs:705-739). -/
  | readN (inner : MBuf) (lastRead : Nat)
  deriving Repr, Inhabited, DecidableEq

/-- `BufMut::parts_mut`. -/
def MBuf.partsMut : MBuf → Region
  | .vec b => b.partsMut
  | .pool (some b) => b.partsMut
  -- read_buf.rs:370-372: `(ptr::null_mut(), 0)`.
  | .pool none => ⟨none, 0, 0⟩
  -- traits.rs:968-972.
  | .limited i l => { i.partsMut with len := asU32 (min i.partsMut.len l) }
  | .readN i _ => i.partsMut

/-- `BufMut::set_init`. -/
def MBuf.setInit : MBuf → Nat → MBuf
  | .vec b, n => .vec (b.setInit n)
  | .pool (some b), n => .pool (some (b.setInit n))
  | .pool none, _ => .pool none
  -- traits.rs:974-978: `limit.saturating_sub(n)`.
  | .limited i l, n => .limited (i.setInit n) (l - n)
  -- mod.rs:710-713.
  | .readN i _, n => .readN (i.setInit n) n

/-- `BufMut::spare_capacity`. -/
def MBuf.spare : MBuf → Nat
  | .vec b => b.spare
  | .pool (some b) => b.spare
  | .pool none => 0
  -- traits.rs:980-982: `min(buf.spare_capacity() as usize, limit) as u32`.
  | .limited i l => asU32 (min i.spare l)
  | .readN i _ => i.spare

/-- `BufMut::has_spare_capacity`. -/
def MBuf.hasSpare : MBuf → Bool
  | .vec b => b.hasSpare
  | .pool (some b) => b.hasSpare
  | .pool none => false
  -- traits.rs:984-986.
  | .limited i l => l != 0 && i.hasSpare
  | .readN i _ => i.hasSpare

def MBuf.leaf : MBuf → Option Base
  | .vec b => some b
  | .pool o => o
  | .limited i _ => i.leaf
  | .readN i _ => i.leaf

def MBuf.mapLeaf (f : Base → Base) : MBuf → MBuf
  | .vec b => .vec (f b)
  | .pool o => .pool (o.map f)
  | .limited i l => .limited (i.mapLeaf f) l
  | .readN i k => .readN (i.mapLeaf f) k

/-- The bytes the buffer holds. -/
def MBuf.content (b : MBuf) : List Nat :=
  match b.leaf with
  | some l => l.content
  | none => []

/-- The bytes currently in the region `parts_mut()` designates. -/
def MBuf.exposed (b : MBuf) : List Nat :=
  match b.leaf with
  | some l => readRegion l.mem b.partsMut
  | none => []

/-- The kernel writes `data` (truncated to the exposed length) through
`parts_mut()`. Returns the buffer and the number of bytes written. -/
def MBuf.write (b : MBuf) (data : List Nat) : MBuf × Nat :=
  let d := data.take b.partsMut.len
  (b.mapLeaf (fun l => l.writeMem b.partsMut.off d), d.length)

/-- `BufMut::extend_from_slice` (traits.rs:130-137): `parts_mut`, `copy_bytes`
(`min(src.len(), dst_len)` bytes), `set_init(written)`. -/
def MBuf.extend (b : MBuf) (data : List Nat) : MBuf × Nat :=
  ((b.write data).1.setInit (b.write data).2, (b.write data).2)

/-! ### What a read-type operation hands to the kernel

The operations do not call `parts_mut()` but the crate private `BufMut::parts()`
(traits.rs: default `BufMutParts::Buf` built from `parts_mut()`), and report the
completion through `buffer_init(id, n)` (default: `set_init(n)`). Only an
unassigned `ReadBuf` answers `BufMutParts::Pool`: the submission then carries
`IOSQE_BUFFER_SELECT` and no length, and the kernel may fill a whole pool
buffer. -/

/-- `BufMutParts`. -/
inductive KParts where
  /-- `BufMutParts::Pool`: the kernel selects a pool buffer. -/
  | select
  /-- `BufMutParts::Buf { ptr, len }`. -/
  | region (r : Region)
  deriving Repr, DecidableEq

/-- `BufMut::parts` (crate private). -/
def MBuf.kparts : MBuf → KParts
  -- read_buf.rs:392-401: no buffer yet → `parts_sys()` = `BufMutParts::Pool`.
  | .pool none => .select
  -- mod.rs:726-729: forwarded.
  | .readN i _ => i.kparts
  -- the default; an assigned `ReadBuf` answers the same pair as `parts_mut()`.
  | .vec b => .region (MBuf.vec b).partsMut
  | .pool (some b) => .region (MBuf.pool (some b)).partsMut
  | .limited i l => .region (MBuf.limited i l).partsMut

/-- `BufMut::buffer_init(id, n)`; `sel` is the pool buffer the kernel selected
(only looked at by an unassigned `ReadBuf`, read_buf.rs:404-413). -/
def MBuf.bufferInit : MBuf → Base → Nat → MBuf
  | .pool none, sel, n => .pool (some { sel with len := n })
  -- mod.rs:731-735.
  | .readN i _, sel, n => .readN (i.bufferInit sel n) n
  -- the default: `set_init(n)`.
  | .vec b, _, n => (MBuf.vec b).setInit n
  | .pool (some b), _, n => (MBuf.pool (some b)).setInit n
  | .limited i l, _, n => (MBuf.limited i l).setInit n

/-- One read into `b` against a kernel that has `data` ready; `cap` is the size
of the pool's buffers. Returns whether the submission asked for buffer
selection, how many bytes the kernel may store, the count it returns and the
buffer afterwards. -/
def rdp (b : MBuf) (cap : Nat) (data : List Nat) : Bool × Nat × Nat × MBuf :=
  match b.kparts with
  | .select =>
    let k := min data.length cap
    (true, cap, k, b.bufferInit ⟨0, data.take k ++ List.replicate (cap - k) 238, 0⟩ k)
  | .region r =>
    let k := min data.length r.len
    (false, r.len, k, (b.write (data.take k)).1.bufferInit default k)

/-- The object of `bufs rdp`: a pool `ReadBuf` (unassigned, or holding `pre`)
under the limits, outermost first. -/
def rdpObj (cap : Nat) (limits : List Nat) (pre : Option (List Nat)) : MBuf :=
  limits.foldr (fun l b => MBuf.limited b l)
    (.pool (pre.map fun p => ⟨0, p ++ List.replicate (cap - p.length) 238, p.length⟩))

/-! ### iovec wrappers (src/unix.rs) -/

/-- `IoSlice::set_len` (unix.rs:81-84): `debug_assert!(iov_len >= new_len)`;
`none` = the assertion fails (dev profile). `IoMutSlice::set_len`
(unix.rs:35-37) is the same store without the assertion. -/
def ioSetLen (r : Region) (n : Nat) : Option Region :=
  if r.len ≥ n then some { r with len := n } else none

/-- `IoSlice::skip` (unix.rs:86-90). -/
def ioSkip (r : Region) (n : Nat) : Option Region :=
  if r.len ≥ n then some { r with off := r.off + n, len := r.len - n } else none

/-- The loop of `LimitedBuf::as_iovecs` / `as_iovecs_mut`
(traits.rs:994-1005, 1046-1057). -/
def clamp : List Region → Nat → List Region
  | [], _ => []
  | r :: rs, left =>
    if r.len ≤ left then r :: clamp rs (left - r.len)
    else { r with len := left } :: clamp rs 0

def sumLens (rs : List Region) : Nat := (rs.map (·.len)).sum

/-! ### `BufSlice` -/

/-- The implementors of `BufSlice<N>`. -/
inductive RSlice where
  /-- `[B; N]` (traits.rs:798-818) and tuples (traits.rs:866-886). -/
  | arr (bs : List RBuf)
  /-- `LimitedBuf<B>` (traits.rs:1042-1063). -/
  | limited (inner : RSlice) (limit : Nat)
  deriving Repr, Inhabited, DecidableEq

def RSlice.elems : RSlice → List RBuf
  | .arr bs => bs
  | .limited i _ => i.elems

/-- `BufSlice::as_iovecs`; `IoSlice::new` (unix.rs:60-66) stores
`(ptr, len as size_t)`. -/
def RSlice.iovecs : RSlice → List Region
  | .arr bs => bs.map (·.parts)
  | .limited i l => clamp i.iovecs l

/-- `BufSlice::total_len`: arrays `iter().map(Buf::len).sum()`, tuples
`0 + self.0.len() + …`, `LimitedBuf` `min(buf.total_len(), limit)`. -/
def RSlice.totalLen : RSlice → Nat
  | .arr bs => (bs.map (·.len)).sum
  | .limited i l => min i.totalLen l

/-- `BufSlice::is_empty`: arrays `all(Buf::is_empty)`, tuples `true && …`,
`LimitedBuf` `limit == 0 || buf.is_empty()`. -/
def RSlice.isEmpty : RSlice → Bool
  | .arr bs => bs.all (·.isEmpty)
  | .limited i l => l == 0 || i.isEmpty

/-- Bytes of each iovec, read from the memory of the element it belongs to. -/
def readIovs : List Region → List (Option Base) → List (List Nat)
  | r :: rs, some l :: ls => readRegion l.mem r :: readIovs rs ls
  | _ :: rs, none :: ls => [] :: readIovs rs ls
  | _, _ => []

def RSlice.exposed (s : RSlice) : List (List Nat) :=
  readIovs s.iovecs (s.elems.map (·.leaf))

/-! ### `BufMutSlice` -/

/-- The implementors of `BufMutSlice<N>`. -/
inductive MSlice where
  /-- `[B; N]` (traits.rs:389-428) and tuples (traits.rs:826-861). -/
  | arr (bs : List MBuf)
  /-- `LimitedBuf<B>` (traits.rs:990-1024). -/
  | limited (inner : MSlice) (limit : Nat)
  /-- `ReadNBuf<B>` (mod.rs:741-754). -/
  | readN (inner : MSlice) (lastRead : Nat)
  deriving Repr, Inhabited, DecidableEq

def MSlice.elems : MSlice → List MBuf
  | .arr bs => bs
  | .limited i _ => i.elems
  | .readN i _ => i.elems

def MSlice.mapElems (f : List MBuf → List MBuf) : MSlice → MSlice
  | .arr bs => .arr (f bs)
  | .limited i l => .limited (i.mapElems f) l
  | .readN i k => .readN (i.mapElems f) k

/-- `BufMutSlice::as_iovecs_mut`; `IoMutSlice::new` (unix.rs:13-19). -/
def MSlice.iovecsMut : MSlice → List Region
  | .arr bs => bs.map (·.partsMut)
  | .limited i l => clamp i.iovecsMut l
  | .readN i _ => i.iovecsMut

/-- The loop of `set_init` for arrays and tuples (traits.rs:400-419,
834-853). The flag is `true` when the loop falls through to `unreachable!`. -/
def setInitArr : List MBuf → Nat → List MBuf × Bool
  | [], _ => ([], true)
  | b :: bs, left =>
    if b.partsMut.len < left then
      (b.setInit b.partsMut.len :: (setInitArr bs (left - b.partsMut.len)).1,
        (setInitArr bs (left - b.partsMut.len)).2)
    else (b.setInit left :: bs, false)

/-- `BufMutSlice::set_init`; the flag reports a panic (the state is what is
left behind when the panic unwinds). -/
def MSlice.setInit : MSlice → Nat → MSlice × Bool
  | .arr bs, n => (.arr (setInitArr bs n).1, (setInitArr bs n).2)
  -- traits.rs:1008-1012: the limit is only lowered after the inner call returned.
  | .limited i l, n =>
    if (i.setInit n).2 then (.limited (i.setInit n).1 l, true)
    else (.limited (i.setInit n).1 (l - n), false)
  -- mod.rs:746-749: `last_read` is stored first.
  | .readN i _, n => (.readN (i.setInit n).1 n, (i.setInit n).2)

/-- `u32::saturating_add`. -/
def satAdd (a b : Nat) : Nat := min (a + b) 4294967295

/-- `iter().map(spare_capacity).fold(0, u32::saturating_add)` (traits.rs:421-425)
and `0u32.saturating_add(a).saturating_add(b)…` (traits.rs:860-862): the sum
saturates at `u32::MAX`, in every profile. -/
def sumSatU32 (xs : List Nat) : Nat := xs.foldl satAdd 0

/-- `BufMutSlice::total_spare_capacity`. -/
def MSlice.totalSpare : MSlice → Nat
  | .arr bs => sumSatU32 (bs.map (·.spare))
  -- traits.rs:1014-1016.
  | .limited i l => asU32 (min i.totalSpare l)
  | .readN i _ => i.totalSpare

/-- `BufMutSlice::has_spare_capacity`: arrays `any`, tuples `false || …`,
`LimitedBuf` `limit != 0 && buf.has_spare_capacity()`. -/
def MSlice.hasSpare : MSlice → Bool
  | .arr bs => bs.any (·.hasSpare)
  | .limited i l => l != 0 && i.hasSpare
  | .readN i _ => i.hasSpare

def MSlice.exposed (s : MSlice) : List (List Nat) :=
  readIovs s.iovecsMut (s.elems.map (·.leaf))

/-- The kernel writes `data` front to back through the iovecs. -/
def scatter : List MBuf → List Region → List Nat → List MBuf
  | b :: bs, r :: rs, data =>
    b.mapLeaf (fun l => l.writeMem r.off (data.take r.len)) :: scatter bs rs (data.drop r.len)
  | bs, _, _ => bs

def MSlice.write (s : MSlice) (data : List Nat) : MSlice × Nat :=
  (s.mapElems (fun bs => scatter bs s.iovecsMut data), min data.length (sumLens s.iovecsMut))

/-- `BufMutSlice::extend_from_slice` (traits.rs:323-339). -/
def MSlice.extend (s : MSlice) (data : List Nat) : (MSlice × Bool) × Nat :=
  ((s.write data).1.setInit (s.write data).2, (s.write data).2)

/-! ### Line protocol

`bufs begin <id>` starts a case, `bufs new <trait> <description…>` builds the
object of the case (`ok` / `bad-op`), the following ops observe / drive it:
`q` (observe every trait method), `write <hex>` (the kernel stores bytes
through the exposed regions), `init <n>` (`set_init`), `ext <hex>`
(`extend_from_slice`), `wall <k,k,…>` (`write_all` with short writes: the
regions `SkipBuf` submits), `rdn <n> <hex,hex,…>` (`read_n` with short reads:
the regions `ReadNBuf` submits), `caps <arr|tup> <c,c,…>` (stateless: empty
vectors of up to 8 GiB capacity each), `rdp <cap> <limits> <pre|none> <data>`
(stateless: one `read` into a pool `ReadBuf` under 0–2 `LimitedBuf`s, concrete
types: what the crate private `parts()` / `buffer_init()` do).

```
trait        buf | mut | slice | mutslice
buf  desc    <kind> <hex> | pool <bufsize> <hex> | pool0 <bufsize> | lim <limit> <buf desc>
mut  desc    vec <cap> <hex> | pool <bufsize> <hex> | pool0 <bufsize> | lim <limit> <mut desc>
slice desc   arr <n> <buf desc>×n | tup <n> <buf desc>×n | lim <limit> <slice desc>
```
Block ids are the leaf numbers, left to right. Spare capacity is pre-filled
with `0xee`.
-/

def hexDigit (n : Nat) : Char :=
  if n < 10 then Char.ofNat (48 + n) else Char.ofNat (87 + n)

def hexByte (b : Nat) : String := String.ofList [hexDigit (b / 16 % 16), hexDigit (b % 16)]

def hex (bs : List Nat) : String :=
  if bs.isEmpty then "-" else String.join (bs.map hexByte)

def unhexDigit (c : Char) : Option Nat :=
  if '0' ≤ c ∧ c ≤ '9' then some (c.toNat - 48)
  else if 'a' ≤ c ∧ c ≤ 'f' then some (c.toNat - 87)
  else none

def unhexList : List Char → Option (List Nat)
  | [] => some []
  | [_] => none
  | a :: b :: rest => do
    let x ← unhexDigit a
    let y ← unhexDigit b
    let r ← unhexList rest
    pure ((16 * x + y) :: r)

def unhex (s : String) : Option (List Nat) :=
  if s == "-" then some [] else if s.isEmpty then none else unhexList s.toList

def decDigits : List Char → Nat → Option Nat
  | [], acc => some acc
  | c :: cs, acc => if '0' ≤ c ∧ c ≤ '9' then decDigits cs (10 * acc + (c.toNat - 48)) else none

/-- A `usize`: decimal digits only, value `< 2^64`. -/
def decUsize (s : String) : Option Nat :=
  if s.isEmpty || s.length > 20 then none
  else match decDigits s.toList 0 with
    | some n => if n < 18446744073709551616 then some n else none
    | none => none

/-- Read-only leaf kinds; the flag says the type holds a `str`. -/
def rKind (k : String) : Option Bool :=
  if k == "vec" || k == "box" || k == "static" || k == "cowb" || k == "cowo" || k == "arc"
      || k == "sbuf" then some false
  else if k == "string" || k == "boxstr" || k == "staticstr" || k == "cowsb" || k == "cowso"
      || k == "arcstr" || k == "sbufstr" then some true
  else none

def parseR : Nat → Nat → List String → Option (RBuf × Nat × List String)
  | 0, _, _ => none
  | fuel + 1, id, "lim" :: l :: rest => do
    let l ← decUsize l
    let (b, id', rest') ← parseR fuel id rest
    pure (.limited b l, id', rest')
  | _ + 1, id, "pool0" :: cap :: rest => do
    let cap ← decUsize cap
    if cap == 0 || cap > 65536 then none else pure (.pool none, id + 1, rest)
  | _ + 1, id, "pool" :: cap :: h :: rest => do
    let cap ← decUsize cap
    let bytes ← unhex h
    if cap == 0 || cap > 65536 || bytes.length > cap then none
    else pure (.pool (some ⟨id, bytes ++ List.replicate (cap - bytes.length) 238, bytes.length⟩),
      id + 1, rest)
  | _ + 1, id, kind :: h :: rest => do
    let isStr ← rKind kind
    let bytes ← unhex h
    if isStr && bytes.any (· ≥ 128) then none
    else pure (.base ⟨id, bytes, bytes.length⟩, id + 1, rest)
  | _, _, _ => none

def parseM : Nat → Nat → List String → Option (MBuf × Nat × List String)
  | 0, _, _ => none
  | fuel + 1, id, "lim" :: l :: rest => do
    let l ← decUsize l
    let (b, id', rest') ← parseM fuel id rest
    pure (.limited b l, id', rest')
  | _ + 1, id, "pool0" :: cap :: rest => do
    let cap ← decUsize cap
    if cap == 0 || cap > 65536 then none else pure (.pool none, id + 1, rest)
  | _ + 1, id, "pool" :: cap :: h :: rest => do
    let cap ← decUsize cap
    let bytes ← unhex h
    if cap == 0 || cap > 65536 || bytes.length > cap then none
    else pure (.pool (some ⟨id, bytes ++ List.replicate (cap - bytes.length) 238, bytes.length⟩),
      id + 1, rest)
  | _ + 1, id, "vec" :: cap :: h :: rest => do
    let cap ← decUsize cap
    let bytes ← unhex h
    if bytes.length > cap || cap > 1048576 then none
    else pure (.vec ⟨id, bytes ++ List.replicate (cap - bytes.length) 238, bytes.length⟩,
      id + 1, rest)
  | _, _, _ => none

def parseElems {α : Type} (p : Nat → List String → Option (α × Nat × List String)) :
    Nat → Nat → List String → Option (List α × List String)
  | 0, _, rest => some ([], rest)
  | n + 1, id, toks => do
    let (b, id', rest) ← p id toks
    let (bs, rest') ← parseElems p n id' rest
    pure (b :: bs, rest')

/-- Arity rule: arrays 0..8, tuples 2..8. -/
def arityOk (k : String) (n : Nat) : Bool :=
  (k == "arr" && n ≤ 8) || (k == "tup" && 2 ≤ n && n ≤ 8)

def parseRS : Nat → List String → Option (RSlice × List String)
  | 0, _ => none
  | fuel + 1, "lim" :: l :: rest => do
    let l ← decUsize l
    let (s, rest') ← parseRS fuel rest
    pure (.limited s l, rest')
  | fuel + 1, k :: n :: rest => do
    let n ← decUsize n
    if !arityOk k n then none
    else
      let (bs, rest') ← parseElems (parseR fuel) n 0 rest
      pure (.arr bs, rest')
  | _, _ => none

def parseMS : Nat → List String → Option (MSlice × List String)
  | 0, _ => none
  | fuel + 1, "lim" :: l :: rest => do
    let l ← decUsize l
    let (s, rest') ← parseMS fuel rest
    pure (.limited s l, rest')
  | fuel + 1, k :: n :: rest => do
    let n ← decUsize n
    if !arityOk k n then none
    else
      let (bs, rest') ← parseElems (parseM fuel) n 0 rest
      pure (.arr bs, rest')
  | _, _ => none

/-- The object a case works on. -/
inductive Obj where
  | none
  | r (b : RBuf)
  | m (b : MBuf)
  | rs (s : RSlice)
  | ms (s : MSlice)
  deriving Repr, Inhabited

structure St where
  obj : Obj := .none
  deriving Repr, Inhabited

def init : St := {}

def parseObj (trait : String) (desc : List String) : Obj :=
  let fuel := desc.length + 1
  if trait == "buf" then
    match parseR fuel 0 desc with
    | some (b, _, []) => .r b
    | _ => .none
  else if trait == "mut" then
    match parseM fuel 0 desc with
    | some (b, _, []) => .m b
    | _ => .none
  else if trait == "slice" then
    match parseRS fuel desc with
    | some (s, []) => .rs s
    | _ => .none
  else if trait == "mutslice" then
    match parseMS fuel desc with
    | some (s, []) => .ms s
    | _ => .none
  else .none

def showRegion (r : Region) : String :=
  match r.blk with
  | some k => s!"{k}:{r.off}:{r.len}"
  | none => s!"null:{r.len}"

def showRegions (rs : List Region) : String :=
  if rs.isEmpty then "-" else joinWith "," (rs.map showRegion)

def showBool (b : Bool) : String := if b then "1" else "0"

def showContents (cs : List (List Nat)) : String :=
  if cs.isEmpty then "none" else joinWith "|" (cs.map hex)

/-- The spare room of the allocation itself (what `set_init` may use without
leaving the allocation). -/
def MBuf.physSpare (b : MBuf) : Nat :=
  match b.leaf with
  | some l => l.cap - l.len
  | none => 0

def qR (b : RBuf) : String :=
  s!"parts={showRegion b.parts} len={b.len} empty={showBool b.isEmpty} bytes={hex b.exposed}"

def qM (b : MBuf) : String :=
  s!"parts={showRegion b.partsMut} spare={b.spare} has={showBool b.hasSpare} contents={hex b.content}"

def qRS (s : RSlice) : String :=
  s!"iovecs={showRegions s.iovecs} total={s.totalLen} empty={showBool s.isEmpty} bytes={hex s.exposed.flatten}"

def qMS (s : MSlice) : String :=
  s!"iovecs={showRegions s.iovecsMut} spare={s.totalSpare} has={showBool s.hasSpare} contents={showContents (s.elems.map (·.content))}"

/-- `bufs caps <arr|tup> <c,c,…>`: what a plain array / tuple of *empty*
`Vec<u8>`s with these capacities reports (`Base.spare`, `Base.partsMut`,
`Base.hasSpare` with `len = 0`, `MSlice.totalSpare`, `MSlice.hasSpare` — tied
to those definitions by `caps_row_sound` in `Props/C14.lean`; the list model of
memory cannot hold gigabytes at run time). -/
def capsRow (caps : List Nat) : String :=
  let spares := caps.map fun c => asU32 (c - 0)
  let has := caps.any fun c => decide (c > 0)
  let l := joinWith "," (spares.map toString)
  s!"spares={l} total={sumSatU32 spares} has={showBool has} iovlens={l}"

/-- The lengths `clamp` leaves (`LimitedBuf::as_iovecs_mut`, traits.rs:992-1007). -/
def clampLens : List Nat → Nat → List Nat
  | [], _ => []
  | n :: ns, left => if n ≤ left then n :: clampLens ns (left - n) else left :: clampLens ns 0

/-- `bufs lcaps <arr|tup> <c,c,…> <limit>`: the same array / tuple of empty
vectors under a `LimitedBuf` (`MSlice.limited (.arr …) limit`; tied to those
definitions by `lcaps_row_sound` in `Props/C14.lean`). -/
def lcapsRow (caps : List Nat) (limit : Nat) : String :=
  let spares := caps.map fun c => asU32 (c - 0)
  let has := limit != 0 && caps.any fun c => decide (c > 0)
  let l := joinWith "," (spares.map toString)
  let iov := joinWith "," ((clampLens spares limit).map toString)
  s!"spares={l} total={asU32 (min (sumSatU32 spares) limit)} has={showBool has} iovlens={iov}"

/-- Comma separated list; `.` is the empty list. -/
def decList {α : Type} (f : String → Option α) (s : String) : Option (List α) :=
  if s == "." then some [] else (s.splitOn ",").mapM f

/-- `AsyncFd::write_all` (mod.rs:209-217, 567-590) against a kernel that
accepts `ks[i]` bytes of the i-th submission (everything once `ks` runs out):
every submission carries `SkipBuf { buf, skip }.parts()`. Returns the output
lines and whether the buffer comes back. -/
def wallRun : Nat → RBuf → Nat → List Nat → List String × Bool
  | 0, _, _, _ => (["no-submission"], false)
  | fuel + 1, b, skip, ks =>
    let r := (RBuf.skip b skip).parts
    let k := min (ks.headD r.len) r.len
    let line := s!"sqe={showRegion r}"
    -- `Ok((_, 0))` is `WriteZero`.
    if k == 0 then ([line, "err=WriteZero"], false)
    -- `buf.skip += n`; `parts().1 == 0`: written everything.
    else if (RBuf.skip b (skip + k)).parts.len == 0 then ([line, "done"], true)
    else (line :: (wallRun fuel b (skip + k) ks.tail).1, (wallRun fuel b (skip + k) ks.tail).2)

def MBuf.unwrapReadN : MBuf → MBuf × Nat
  | .readN i k => (i, k)
  | b => (b, 0)

/-- `AsyncFd::read_n` (mod.rs:166-173, 458-487) against a kernel that delivers
`chunks` one per submission, then end of file: every submission carries
`ReadNBuf { buf, last_read }.parts_mut()`, every completion goes through
`ReadNBuf::set_init`. `w` is the `ReadNBuf`. -/
def rdnRun : Nat → MBuf → Nat → List (List Nat) → List String × Option MBuf
  | 0, _, _, _ => (["no-submission"], none)
  | fuel + 1, w, left, chunks =>
    let c := (chunks.headD []).take w.partsMut.len
    let line := s!"sqe={showRegion w.partsMut}"
    let w' := (w.write c).1.setInit c.length
    if w'.unwrapReadN.2 == 0 then ([line, "err=UnexpectedEof"], none)
    else if w'.unwrapReadN.2 ≥ left then ([line, "done"], some w'.unwrapReadN.1)
    else (line :: (rdnRun fuel w' (left - w'.unwrapReadN.2) chunks.tail).1,
      (rdnRun fuel w' (left - w'.unwrapReadN.2) chunks.tail).2)

def stepLine (st : St) (toks : List String) : St × List String :=
  match toks with
  | "bufs" :: "begin" :: _ => ({ obj := .none }, [])
  | "bufs" :: "new" :: trait :: desc =>
    match parseObj trait desc with
    | .none => ({ obj := .none }, ["bad-op"])
    | o => ({ obj := o }, ["ok"])
  | ["bufs", "q"] =>
    match st.obj with
    | .r b => (st, [qR b])
    | .m b => (st, [qM b])
    | .rs s => (st, [qRS s])
    | .ms s => (st, [qMS s])
    | .none => (st, ["bad-op"])
  | ["bufs", "caps", k, cs] =>
    match decList decUsize cs with
    | some caps =>
      if (k == "arr" || k == "tup") && arityOk k caps.length && caps.length ≥ 1
          && caps.all (· ≤ 8589934592) then (st, [capsRow caps])
      else (st, ["bad-op"])
    | none => (st, ["bad-op"])
  | ["bufs", "lcaps", k, cs, l] =>
    match decList decUsize cs, decUsize l with
    | some caps, some l =>
      if (k == "arr" || k == "tup") && arityOk k caps.length && caps.length ≥ 1
          && caps.all (· ≤ 8589934592) then (st, [lcapsRow caps l])
      else (st, ["bad-op"])
    | _, _ => (st, ["bad-op"])
  | ["bufs", "rdp", cap, limits, pre, data] =>
    match decUsize cap, decList decUsize limits,
        (if pre == "none" then some none else (unhex pre).map some), unhex data with
    | some cap, some limits, some pre, some data =>
      if cap ≥ 1 && cap ≤ 65536 && limits.length ≤ 2 && (pre.map (·.length)).getD 0 ≤ cap
          && data.length ≤ 131072 then
        let r := rdp (rdpObj cap limits pre) cap data
        (st, [if r.1 then "sqe=select" else s!"sqe=plain:{r.2.1}",
              s!"n={r.2.2.1} contents={hex r.2.2.2.content}"])
      else (st, ["bad-op"])
    | _, _, _, _ => (st, ["bad-op"])
  | ["bufs", "wall", ks] =>
    match st.obj, decList decUsize ks with
    | .r b, some ks =>
      let res := wallRun ((RBuf.skip b 0).parts.len + 1) b 0 ks
      ({ obj := if res.2 then .r b else .none }, res.1)
    | _, _ => (st, ["bad-op"])
  | ["bufs", "rdn", n, chunks] =>
    match st.obj, decUsize n, decList unhex chunks with
    | .m b, some n, some chunks =>
      let res := rdnRun (chunks.length + 2) (.readN b 0) n chunks
      ({ obj := match res.2 with | some b' => .m b' | none => .none }, res.1)
    | _, _, _ => (st, ["bad-op"])
  | ["bufs", "write", h] =>
    match st.obj, unhex h with
    | .m b, some d => ({ obj := .m (b.write d).1 }, [s!"wrote={(b.write d).2}"])
    | .ms s, some d => ({ obj := .ms (s.write d).1 }, [s!"wrote={(s.write d).2}"])
    | _, _ => (st, ["bad-op"])
  | ["bufs", "init", n] =>
    match st.obj, decUsize n with
    | .m b, some n =>
      -- The harness only calls `set_init` when it stays inside the allocation.
      if n > b.physSpare then (st, ["refused"])
      else ({ obj := .m (b.setInit n) }, ["ok"])
    | .ms s, some n =>
      ({ obj := .ms (s.setInit n).1 }, [if (s.setInit n).2 then "panic" else "ok"])
    | _, _ => (st, ["bad-op"])
  | ["bufs", "ext", h] =>
    match st.obj, unhex h with
    | .m b, some d => ({ obj := .m (b.extend d).1 }, [s!"ext={(b.extend d).2}"])
    | .ms s, some d =>
      ({ obj := .ms (s.extend d).1.1 },
        [if (s.extend d).1.2 then "panic" else s!"ext={(s.extend d).2}"])
    | _, _ => (st, ["bad-op"])
  | _ => (st, ["bad-op"])

end A10.Bufs
