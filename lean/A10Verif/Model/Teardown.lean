/-
Teardown model (component `teardown`, property C12): every object that keeps
the ring's shared state alive, dropped in any order.

Objects
* the `Ring` (src/lib.rs:184-187: `cq: Completions`, `sq: Submissions`),
* extra `SubmissionQueue` clones (src/lib.rs:286, src/io_uring/sq.rs:12-15:
  `Arc<Shared>`),
* `AsyncFd`s (src/fd.rs:40-59: `fd`, `sq`) of both kinds: regular descriptors
  and DIRECT descriptors (`Kind::Direct`: `fd` is an index into the ring's
  registered-file table, created by `with_direct_descriptors`,
  src/io_uring/config.rs:278-291),
* operations: futures made by `fd_operation!` borrow their `AsyncFd`
  (src/op.rs:198-218), futures made by `operation!` own a `SubmissionQueue`
  (src/op.rs:149-170); besides single-shot reads / writes the population has
  the multishot pool read (`fd_iter_operation!`, any number of `F_MORE`
  completions) and the zero-copy send (result with `F_MORE`, then the
  `F_NOTIF` notification); the state box (`Box<Data>`, src/io_uring/op.rs:128-141)
  is reclaimed by the future's drop (src/op.rs:314-319 → `State::drop`,
  src/io_uring/op.rs:182-205) or, if it was running, by the processing of its
  final completion (`Shared::update`, op.rs:268-312; cq.rs:239-252),
* a `ReadBufPool` (src/io/read_buf.rs:42-45: `Arc<sys::io::ReadBufPool>`;
  the shared part holds a `SubmissionQueue`, src/io_uring/io.rs:21-25) and the
  `ReadBuf`s / operation resources that reference it (read_buf.rs:153-158).

Ledger: the three mappings, the ring descriptor, the regular descriptors, the
slots of the registered-file table, the pool's registration and two
allocations, the operation state boxes.

Steps are atomic (single-threaded executor). Every function is a state
transformer `St → St`; the lines a step prints are appended to `St.out`
(scratch, irrelevant to the theorems). `St` = `Objs` (the objects and the
ledger: untouched by the kernel's moves) + `Queues` (shared with the kernel:
untouched by the processing of completions) + constants + scratch.

* `St.poll`      — `Future::poll` (`poll_inner`, op.rs:786-955; `Submissions::add`, sq.rs:25-87)
* `St.dropOp`    — drop of a future (`State::drop`, op.rs:182-205), then of its fields
* `St.kpost`     — the kernel posts the completion of an in-flight submission
* `St.rpoll`     — `Ring::poll` (cq.rs:58-103; `Shared::enter`, mod.rs:154-211)
* `St.dropRing`  — `Ring` drop (lib.rs:268-272): `Completions::drop` (cq.rs:105-153),
                   then the fields: `Completions` (munmap, cq.rs:161-173), `Submissions` (Arc)
* `St.dropFd`    — `AsyncFd` drop (src/io_uring/fd.rs:213-233), regular descriptor
* `St.dropDfd`   — the same drop for a direct descriptor: CLOSE with
                   `file_index = fd + 1` (io.rs:646-657) or, queue full,
                   `close_direct_fd` (io.rs:659-671): `IORING_REGISTER_FILES_UPDATE`
                   of slot `fd` with -1 on the ring descriptor
* `St.dropClone` / `St.dropPool` / `St.dropBuf` — `Arc` decrements
* `St.sharedDrop` — `Drop for Shared` (mod.rs:271-297): submit what is still
                    queued, unmap the SQEs, unmap the SQ ring; the ring fd
                    (`rfd`, the last field, mod.rs:86-88) is closed last
* `St.settlePool` — `Drop for sys::io::ReadBufPool` (io.rs:242-291)
-/
import A10Verif.Model.Op

namespace A10.Teardown

open A10

/-- Kinds of operations in the population. `read`/`write`/`pread`/`sendzc`/
`mread` borrow the `AsyncFd` (`fd_operation!` / `fd_iter_operation!`); `pread`
reads into a `ReadBuf` of the pool (its resources hold a reference to the
pool); `mread` is the MULTISHOT read with the pool (`AsyncFd::multishot_read`,
an `AsyncIterator`: any number of completions with `IORING_CQE_F_MORE`, each
`Ok` item is a `ReadBuf`; the stream's resources are the pool); `sendzc` is the
zero-copy send (`send(..).zc()`: single-shot with TWO completions, the result
with `F_MORE`, then the notification `F_NOTIF`); `unlink` is an `operation!`
future (`fs::remove_file`, owns a `SubmissionQueue`). -/
inductive Kind where
  | read | write | pread | unlink | mread | sendzc
  deriving Repr, DecidableEq

def Kind.opc : Kind → String
  | .read => "READ"
  | .write => "WRITE"
  | .pread => "READ"
  | .unlink => "UNLINKAT"
  | .mread => "READ_MULTISHOT"
  | .sendzc => "SEND_ZC"

/-- The operation's state is a multishot one (`Results.multi`). -/
def Kind.multi : Kind → Bool
  | .mread => true
  | _ => false

/-- The operation's resources hold a reference to the pool and its `Ok`
results are `ReadBuf`s of the pool. -/
def Kind.pool : Kind → Bool
  | .pread => true
  | .mread => true
  | _ => false

structure TOp where
  op : Op
  kind : Kind
  /-- index of the `AsyncFd` it borrows (unused for `unlink`) -/
  fd : Nat
  /-- ghost: a submission of this operation was made after the Ring was dropped -/
  late : Bool := false
  deriving Repr

inductive SqEntry where
  | op (i : Nat)
  | cancel (i : Nat)
  /-- CLOSE of descriptor `k`, user_data 3, CQE_SKIP_SUCCESS (fd.rs:215-219) -/
  | close (k : Nat)
  /-- CLOSE of a direct descriptor: `fd` unset, `file_index = fi` (the slot + 1:
  "zero means a file descriptor, so indices need to be encoded +1",
  io.rs:651-654), user_data 3, CQE_SKIP_SUCCESS -/
  | closeIdx (fi : Nat)
  deriving Repr, DecidableEq

inductive Ud where
  | op (i : Nat)
  | reserved (n : Nat)
  deriving Repr, DecidableEq

/-- A completion. `flags`: the raw CQE flags as far as the operation machine
looks at them (`IORING_CQE_F_MORE` = 2: not the final one; `IORING_CQE_F_NOTIF`
= 8: zero-copy notification). -/
structure Cqe where
  ud : Ud
  res : Int
  flags : Nat := 0
  deriving Repr, DecidableEq

/-- A scripted completion: operation, result, flags. -/
abbrev Post := Nat × Int × Nat

inductive Region where
  | cq | sqes | sq
  deriving Repr, DecidableEq

/-- Ledger events. -/
inductive LEv where
  | munmap (r : Region)
  | closeRing
  | unregister
  | poolFree
  deriving Repr, DecidableEq

/-- The objects and the ledger: everything the kernel's moves leave alone. -/
structure Objs where
  ops : List TOp := []
  ringLive : Bool := true
  clones : List Bool := []
  /-- per descriptor: the `AsyncFd` object exists -/
  fdLive : List Bool := []
  /-- per descriptor, constant: it is a DIRECT descriptor (`Kind::Direct`); its
  number `k` is then the index of its slot in the ring's registered-file table -/
  fdDir : List Bool := []
  /-- the user's `ReadBufPool` handle -/
  poolHandle : Bool := false
  /-- `ReadBuf`s handed to the caller -/
  bufs : List Bool := []
  /-- `sys::io::ReadBufPool` exists (registration + two allocations + its sq) -/
  poolLive : Bool := false
  hadPool : Bool := false
  /-- `Shared` exists (SQ ring mapping, SQE mapping, ring descriptor) -/
  sharedLive : Bool := true
  -- ledger
  cqMapped : Bool := true
  sqesMapped : Bool := true
  sqMapped : Bool := true
  ringFdOpen : Bool := true
  log : List LEv := []
  /-- ghost: a10 code touched an unmapped ring mapping / the closed ring descriptor -/
  bad : Nat := 0
  deriving Repr

/-- The queues shared with the kernel and the kernel's own state: everything
the processing of completions leaves alone. -/
structure Queues where
  /-- published, not yet consumed -/
  sq : List SqEntry := []
  /-- operations with a consumed, not finalised submission -/
  inflight : List Nat := []
  cq : List Cqe := []
  overflow : List Cqe := []
  /-- wakers waiting for a submission slot -/
  blocked : List Nat := []
  cqHead : Nat := 0
  /-- per descriptor, ledger: close requests executed for it (CLOSE consumed by
  the kernel, or `close(2)`) -/
  fdCloses : List Nat := []
  /-- the kernel's registered-file table (`IORING_REGISTER_FILES2`, sparse): slot
  `j` holds a file. It lives as long as the ring descriptor. -/
  slotReg : List Bool := []
  /-- per slot, ledger: release requests executed for it (CLOSE with
  `file_index = j + 1` consumed by the kernel, or `FILES_UPDATE(offset j, -1)`) -/
  slotRel : List Nat := []
  /-- buffers of the pool's ring the kernel may still select (never replenished
  in the model: a lower bound of what the real ring holds) -/
  pbufLeft : Nat := 16
  deriving Repr

structure St extends Objs, Queues where
  sqLen : Nat := 1
  cqLen : Nat := 2
  maxOps : Nat := 8
  panicked : Bool := false
  -- scratch of the current step (printing only)
  out : List String := []
  wk : List Nat := []
  fr : List Nat := []
  pf : Nat := 0
  deriving Repr

def ENOENT : Int := 2
def ENXIO : Int := 6
def EBADF : Int := 9

def b2n (b : Bool) : Nat := if b then 1 else 0

def St.emit (s : St) (l : String) : St := { s with out := s.out ++ [l] }

def St.sqRoom (s : St) : Bool := s.sq.length < s.sqLen

/-- Number of owners of the `Arc<Shared>`: the Ring, every clone, every
`AsyncFd`, the pool's shared part, every live `operation!` future. -/
def handles (s : Objs) : Nat :=
  b2n s.ringLive + s.clones.count true + s.fdLive.count true + b2n s.poolLive
    + s.ops.countP (fun t => t.kind == .unlink && t.op.futLive)

/-- Number of owners of the `Arc<sys::io::ReadBufPool>`: the user's handle,
every `ReadBuf`, the resources of every `pread` operation state. -/
def poolRefs (s : Objs) : Nat :=
  b2n s.poolHandle + s.bufs.count true
    + s.ops.countP (fun t => t.kind.pool && t.op.resInit)

/-- a10 reads/writes the SQ ring or the SQE array, or makes a system call on
the ring descriptor (all reached through `Shared`). -/
def St.useSq (s : St) : St :=
  { s with bad := s.bad + (if s.sqMapped && s.sqesMapped && s.ringFdOpen then 0 else 1) }

/-- a10 reads/writes the CQ ring (only through `&mut Ring`). -/
def St.useCq (s : St) : St :=
  { s with bad := s.bad + (if s.cqMapped then 0 else 1) }

/-! ### Kernel side -/

/-- KC3: publish a CQE, or park it on the overflow list when the CQ is full. -/
def St.postCqe (s : St) (c : Cqe) : St :=
  if s.overflow.isEmpty && s.cq.length < s.cqLen then { s with cq := s.cq ++ [c] }
  else { s with overflow := s.overflow ++ [c] }

/-- Flush the overflow list while there is room (GETEVENTS). -/
def St.flushOverflow (s : St) : St :=
  { s with cq := s.cq ++ s.overflow.take (s.cqLen - s.cq.length),
           overflow := s.overflow.drop (s.cqLen - s.cq.length) }

/-- A close request for descriptor `k` is executed. -/
def St.closeFd (s : St) (k : Nat) : St :=
  { s with fdCloses := s.fdCloses.set k (s.fdCloses.getD k 0 + 1) }

/-- A release request for slot `j` of the registered-file table is executed. -/
def St.releaseSlot (s : St) (j : Nat) : St :=
  { s with slotReg := s.slotReg.set j false,
           slotRel := s.slotRel.set j (s.slotRel.getD j 0 + 1) }

/-- The kernel executes a CLOSE whose `file_index` is `fi`: `0` would mean "a
regular descriptor" and is never produced for a direct one; `j + 1` is slot `j`
of the registered-file table (-EBADF: nothing registered there, -ENXIO: outside
the table). -/
def St.closeIdx (s : St) : Nat → St
  | 0 => s.emit "closereq bad-index"
  | j + 1 =>
    if s.slotReg.getD j false then (s.releaseSlot j).emit s!"closereq slot{j} ok"
    else if j < s.slotReg.length then
      ((s.releaseSlot j).postCqe ⟨.reserved 3, -EBADF, 0⟩).emit s!"closereq slot{j} EBADF"
    else ((s.releaseSlot j).postCqe ⟨.reserved 3, -ENXIO, 0⟩).emit s!"closereq slot{j} ENXIO"

/-- The kernel consumes one submission (KC1); cancel and close requests are
executed at once (KC5): a cancel whose target is not in flight is answered
with `-ENOENT` on the reserved `user_data` 2, a successful one posts nothing;
a failing CLOSE is answered on the reserved `user_data` 3. -/
def St.consumeOne (s : St) : SqEntry → St
  | .op i => { s with inflight := s.inflight ++ [i] }
  | .cancel i => if s.inflight.contains i then s else s.postCqe ⟨.reserved 2, -ENOENT, 0⟩
  | .close k =>
    if s.fdCloses.getD k 0 == 0 then (s.closeFd k).emit s!"closereq fd{k} ok"
    else ((s.closeFd k).postCqe ⟨.reserved 3, -EBADF, 0⟩).emit s!"closereq fd{k} EBADF"
  | .closeIdx fi => s.closeIdx fi

def St.consume (s : St) : List SqEntry → St
  | [] => s
  | e :: es => (s.consumeOne e).consume es

def St.consumeAll (s : St) : St := ({ s with sq := [] }).consume s.sq

/-- `wake_blocked_futures` (mod.rs:214-248, single-threaded): wakes as many
blocked futures as there are free submission slots, oldest first. -/
def St.wakeBlocked (s : St) : St :=
  { s with blocked := s.blocked.drop (min (s.sqLen - s.sq.length) s.blocked.length),
           wk := s.wk ++ s.blocked.take (min (s.sqLen - s.sq.length) s.blocked.length) }

/-- The completion selects a buffer of the pool's ring (a positive result of a
pool read). -/
def takesBuf (s : St) (i : Nat) (res : Int) : Bool :=
  decide (res > 0) && (match s.ops[i]? with
    | some t => t.kind.pool
    | none => false)

/-- The kernel may post `res` for `i` now: the submission is in flight and, if
the completion selects a pool buffer, one is left. -/
def St.canPost (s : St) (i : Nat) (res : Int) : Bool :=
  s.inflight.contains i && (!takesBuf s i res || decide (0 < s.pbufLeft))

/-- The kernel posts a completion of `i`'s in-flight submission (KC2); the
submission stays in flight when `IORING_CQE_F_MORE` is set. -/
def St.kpostQuiet (s : St) (i : Nat) (res : Int) (f : Nat) : St :=
  if s.canPost i res then
    ({ s with inflight := if fMore f then s.inflight else s.inflight.erase i,
              pbufLeft := s.pbufLeft - b2n (takesBuf s i res) }).postCqe ⟨.op i, res, f⟩
  else s

/-- One `io_uring_enter` call (`Shared::enter`, mod.rs:154-211): the kernel
consumes everything published, posts the scripted completions, flushes the
overflow list if `GETEVENTS` is set; then a10 wakes the blocked futures. -/
def St.enter (s : St) (min : Nat) (ge : Bool) (posts : List Post) : St :=
  let n := s.sq.length
  let s := s.consumeAll
  let s := posts.foldl (fun (s : St) p => s.kpostQuiet p.1 p.2.1 p.2.2) s
  let s := if ge then s.flushOverflow else s
  (s.emit s!"enter n={n} min={min} ge={b2n ge}").wakeBlocked

/-! ### Drops of the shared parts -/

/-- `Drop for sys::io::ReadBufPool` (io.rs:242-291) once the last reference is
gone: unregister the group (a system call on the ring descriptor), free the
ring allocation and the buffer allocation; its `sq` field goes afterwards
(accounted for by `handles` through `poolLive`). -/
def St.settlePool (s : St) : St :=
  if s.poolLive && poolRefs s.toObjs == 0 then
    ({ s.useSq with poolLive := false,
                    log := s.log ++ [LEv.unregister, LEv.poolFree, LEv.poolFree],
                    pf := s.pf + 2 } : St).emit "register unregister-pbuf ok"
  else s

/-- `Drop for Shared` (mod.rs:271-297), then its fields (`rfd: OwnedFd` last). -/
def St.sharedDrop (s : St) : St :=
  let s := s.useSq
  let s := if s.sq.isEmpty then s else
    ((s.consumeAll).emit s!"enter n={s.sq.length} min=0 ge=0").wakeBlocked
  let s := ((s.emit "munmap sqes").emit "munmap sq").emit "close ringfd"
  { s with sharedLive := false, sqesMapped := false, sqMapped := false, ringFdOpen := false,
           log := s.log ++ [.munmap .sqes, .munmap .sq, .closeRing] }

def St.settleShared (s : St) : St :=
  if s.sharedLive && handles s.toObjs == 0 then s.sharedDrop else s

/-- After every step: free what lost its last owner (pool first: its `sq`
may be the last owner of `Shared`). -/
def St.settle (s : St) : St := s.settlePool.settleShared

/-! ### Completion processing -/

def applyEffs (s : St) (i : Nat) : List Eff → St
  | [] => s
  | .wake w :: es => applyEffs { s with wk := s.wk ++ [w] } i es
  | .free :: es => applyEffs { s with fr := s.fr ++ [i] } i es
  | _ :: es => applyEffs s i es

/-- `Completion::process` (cq.rs:194-255) for one entry. Freeing an operation
state drops its resources, possibly the last reference to the pool. -/
def St.process (s : St) (c : Cqe) : St :=
  match c.ud with
  | .reserved _ => s
  | .op i =>
    match s.ops[i]? with
    | none => { s with panicked := true }
    | some t =>
      match t.op.update ⟨c.res, c.flags⟩ with
      | none => { s with panicked := true }
      | some r =>
        (applyEffs { s with ops := s.ops.set i { t with op := r.1 } } i r.2).settlePool

def St.processAll (s : St) : List Cqe → St
  | [] => s
  | c :: cs => (s.process c).processAll cs

/-- Process every published completion in order and release the slots
(`Completions::poll`, cq.rs:82-102). -/
def St.drainCq (s : St) : St :=
  let s' := ({ s with cq := [] }).processAll s.cq
  { s' with cqHead := wadd s'.cqHead s.cq.length }

/-! ### API steps

Every step is `core` followed by `settle` (see `step`): whatever lost its last
owner during the step is released at its end; `process` releases the pool in
the middle of a step when the freed operation state held the last reference. -/

def fdLive (s : St) (k : Nat) : Bool := s.fdLive.getD k false

/-- The object through which the future reaches the submission queue exists:
the borrowed `AsyncFd`, or the future's own `SubmissionQueue`. -/
def holderLive (s : St) (t : TOp) : Bool :=
  match t.kind with
  | .unlink => true
  | _ => fdLive s t.fd

def showPoll : PollOut → String
  | .pending => "pending"
  | .readyOk r => s!"ready ok {r.res}"
  | .readyErr e => s!"ready err {e}"
  | .readyNone => "ready none"
  | .panic => "panic"

def isReadyOk : PollOut → Bool
  | .readyOk _ => true
  | _ => false

def blockedOf : List Eff → Option Nat
  | [] => none
  | .blocked w :: _ => some w
  | _ :: es => blockedOf es

/-- May operation `i` of kind `k` on descriptor `fd` be created now? A future
needs a live `AsyncFd` to borrow (and the pool handle for `pool.get()`), or a
live `SubmissionQueue` to clone. -/
def canNew (s : St) (i : Nat) (k : Kind) (fd : Nat) : Bool :=
  i == s.ops.length && s.ops.length < s.maxOps &&
    (match k with
     | .unlink => s.ringLive || s.clones.contains true
     | .pread => fdLive s fd && s.poolHandle
     | .mread => fdLive s fd && s.poolHandle
     | _ => fdLive s fd)

/-- Create operation `i` (allocates its state box). -/
def St.newOp (s : St) (i : Nat) (k : Kind) (fd : Nat) : St :=
  if canNew s i k fd then
    ({ s with ops := s.ops ++ [({ op := { multi := k.multi }, kind := k, fd := fd } : TOp)] } : St).emit "ok"
  else s.emit "bad-op"

/-- State after `Future::poll` of operation `i` (= `t`) with waker `w`. -/
def St.pollCore (s : St) (i w : Nat) (t : TOp) : St :=
  let r := t.op.poll w s.sqRoom
  let sub := r.2.2.contains .submit
  { s.useSq with
    ops := s.ops.set i { t with op := r.1, late := t.late || (sub && !s.ringLive) },
    sq := if sub then s.sq ++ [SqEntry.op i] else s.sq,
    blocked := match blockedOf r.2.2 with
      | some w => s.blocked ++ [w]
      | none => s.blocked,
    bufs := if t.kind.pool && isReadyOk r.2.1 then s.bufs ++ [true] else s.bufs,
    out := s.out ++ [showPoll r.2.1] ++ (if sub then [s!"sqe op{i} {t.kind.opc}"] else [])
      ++ (if t.kind.pool && isReadyOk r.2.1 then [s!"buf {s.bufs.length}"] else []) }

/-- `Future::poll` / `poll_next` of operation `i` with waker `w`. A `pread`
that returns `Ok` hands its `ReadBuf` (resources) to the caller; every `Ok`
item of an `mread` stream is a new `ReadBuf` (a reference to the pool), the
stream keeps its own reference until it ends or is dropped. -/
def St.poll (s : St) (i w : Nat) : St :=
  match s.ops[i]? with
  | none => s.emit "bad-op"
  | some t => if t.op.futLive && holderLive s t then s.pollCore i w t else s.emit "bad-op"

def St.dropOpCore (s : St) (i : Nat) (t : TOp) : St :=
  let r := t.op.dropFut s.sqRoom
  { s.useSq with
    ops := s.ops.set i { t with op := r.1 },
    sq := if r.2.contains .cancel then s.sq ++ [SqEntry.cancel i] else s.sq,
    fr := if r.2.contains .free then s.fr ++ [i] else s.fr,
    out := s.out ++ (if r.2.contains .cancel then [s!"sqe cancel op{i}"] else []) }

/-- Drop of operation `i`'s future: `State::drop` (cancel or free); the
future's fields (its `SubmissionQueue`, for `operation!` futures) go with it. -/
def St.dropOp (s : St) (i : Nat) : St :=
  match s.ops[i]? with
  | none => s.emit "bad-op"
  | some t => if t.op.futLive && holderLive s t then s.dropOpCore i t else s.emit "bad-op"

/-- A completion the simulated kernel may post for operation `i` (the harness
refuses anything else): `remove_file` completes with 0 or an error, reads and
writes with at most the 64 bytes of their buffers; `F_MORE` (2) only for the
multishot read and the zero-copy send, `F_NOTIF` (8) only for the latter. -/
def postOk (s : St) (p : Post) : Bool :=
  match s.ops[p.1]? with
  | none => false
  | some t => !(t.kind == .unlink && p.2.1 > 0) && p.2.1 ≥ -4095 && p.2.1 ≤ 64 &&
      (p.2.2 == 0 || (p.2.2 == 2 && (t.kind == .mread || t.kind == .sendzc)) ||
        (p.2.2 == 8 && t.kind == .sendzc))

/-- The kernel posts `(res, flags)` for `i`'s in-flight submission. -/
def St.kpost (s : St) (i : Nat) (res : Int) (f : Nat) : St :=
  if s.ringFdOpen && postOk s (i, res, f) then
    if s.inflight.contains i then
      -- (`kpostQuiet` does nothing when no pool buffer is left)
      (s.kpostQuiet i res f).emit
        (if !s.canPost i res then "nobuf"
         else if s.overflow.isEmpty && s.cq.length < s.cqLen then "posted" else "overflow")
    else s.emit "miss"
  else s.emit "bad-op"

/-- `Ring::poll(Some(0))`; `posts` are completions the kernel posts during the
`io_uring_enter` call (ignored when no call is made). -/
def St.rpoll (s : St) (posts : List Post) : St :=
  if s.ringLive then
    let s1 := s.useCq
    let s2 := if s1.cq.isEmpty then s1.useSq.enter 1 true (posts.filter (postOk s)) else s1
    let s3 := s2.drainCq
    s3.emit s!"cqhead={s3.cqHead}"
  else s.emit "bad-op"

/-- One round of the final loop of `Completions::drop` up to the processing:
enter with GETEVENTS, then `poll`, which enters again when the queue is empty. -/
def St.loopFetch (s : St) : St :=
  if (s.enter 1 true []).cq.isEmpty then (s.enter 1 true []).enter 1 true [] else s.enter 1 true []

/-- The final loop of `Completions::drop` (cq.rs:133-152): fetch, one pass of
processing, until a pass processes nothing. -/
def St.dropLoop (s : St) : Nat → St
  | 0 => s
  | fuel + 1 =>
    if s.loopFetch.cq.isEmpty then s.loopFetch.drainCq else s.loopFetch.drainCq.dropLoop fuel

/-- SYNC_CANCEL(ANY|ALL): every in-flight submission ends with -ECANCELED (KC5). -/
def St.cancelAll (s : St) : List Nat → St
  | [] => s
  | i :: is => (s.postCqe ⟨.op i, -ECANCELED, 0⟩).cancelAll is

/-- `Completions::drop`: flush the submissions, cancel everything in flight
synchronously, then fetch and process completions until none are left. -/
def St.cqDrop (s : St) : St :=
  let s1 := s.enter 4294967295 false []
  let s2 := s1.emit s!"register sync-cancel n={s1.inflight.length}"
  let s3 := ({ s2 with inflight := [] } : St).cancelAll s2.inflight
  s3.dropLoop (s3.overflow.length + s3.cq.length + 2)

/-- `Ring` drop: `Completions::drop`, then the fields in declaration order:
`cq` (unmaps the CQ ring), `sq` (one owner of `Shared` less). -/
def St.dropRing (s : St) : St :=
  if s.ringLive then
    let s1 := s.useSq.useCq.cqDrop
    { s1 with ringLive := false, cqMapped := false, log := s1.log ++ [LEv.munmap .cq],
              out := s1.out ++ [s!"cqhead={s1.cqHead} lost={s1.overflow.length}", "munmap cq"] }
  else s.emit "bad-op"

def St.dropClone (s : St) (k : Nat) : St :=
  if s.clones[k]? == some true then { s with clones := s.clones.set k false }
  else s.emit "bad-op"

/-- A live future borrows `AsyncFd` `k` (the borrow checker forbids its drop). -/
def fdBorrowed (s : St) (k : Nat) : Bool :=
  s.ops.any (fun t => t.kind != .unlink && t.fd == k && t.op.futLive)

def fdDir (s : St) (k : Nat) : Bool := s.fdDir.getD k false

/-- `AsyncFd` drop (fd.rs:213-233), regular descriptor: queue a CLOSE, or close
synchronously when the queue is full; then its `sq` field goes. -/
def St.dropFd (s : St) (k : Nat) : St :=
  if s.fdLive[k]? == some true && !fdBorrowed s k && !fdDir s k then
    let s1 : St := { s.useSq with fdLive := s.fdLive.set k false }
    if s1.sqRoom then ({ s1 with sq := s1.sq ++ [SqEntry.close k] } : St).emit s!"sqe close fd{k}"
    else (s1.closeFd k).emit s!"close fd{k} {if s.fdCloses.getD k 0 == 0 then "ok" else "EBADF"}"
  else s.emit "bad-op"

/-- `AsyncFd` drop (fd.rs:213-233), direct descriptor `k` (= its index in the
registered-file table): queue a CLOSE with `file_index = k + 1`
(`close_file_fd`, io.rs:646-657), or, when the queue is full, release the slot
synchronously (`close_direct_fd`, io.rs:659-671: `io_uring_register(ring fd,
FILES_UPDATE, {offset: k, fds: [-1]}, 1)` — a system call on the ring
descriptor, hence the second `useSq`); then its `sq` field goes. -/
def St.dropDfd (s : St) (k : Nat) : St :=
  if s.fdLive[k]? == some true && !fdBorrowed s k && fdDir s k then
    let s1 : St := { s.useSq with fdLive := s.fdLive.set k false }
    if s1.sqRoom then
      ({ s1 with sq := s1.sq ++ [SqEntry.closeIdx (k + 1)] } : St).emit s!"sqe close slot{k}"
    else (s1.useSq.releaseSlot k).emit
      s!"register files-update slot{k} {if k < s.slotReg.length then "ok" else "EINVAL"}"
  else s.emit "bad-op"

def St.dropPool (s : St) : St :=
  if s.poolHandle then { s with poolHandle := false } else s.emit "bad-op"

def St.dropBuf (s : St) (j : Nat) : St :=
  if s.bufs[j]? == some true then { s with bufs := s.bufs.set j false }
  else s.emit "bad-op"

/-! ### Scripts -/

inductive Step where
  | newOp (i : Nat) (k : Kind) (fd : Nat)
  | poll (i w : Nat)
  | kpost (i : Nat) (res : Int) (f : Nat := 0)
  | rpoll (posts : List Post)
  | dropRing
  | dropClone (k : Nat)
  | dropFd (k : Nat)
  | dropDfd (k : Nat)
  | dropOp (i : Nat)
  | dropPool
  | dropBuf (j : Nat)
  deriving Repr

def core (s : St) : Step → St
  | .newOp i k fd => s.newOp i k fd
  | .poll i w => s.poll i w
  | .kpost i res f => s.kpost i res f
  | .rpoll posts => s.rpoll posts
  | .dropRing => s.dropRing
  | .dropClone k => s.dropClone k
  | .dropFd k => s.dropFd k
  | .dropDfd k => s.dropDfd k
  | .dropOp i => s.dropOp i
  | .dropPool => s.dropPool
  | .dropBuf j => s.dropBuf j

/-- One step of a script: the call itself, then whatever lost its last owner
is released. -/
def step (s : St) (e : Step) : St := (core s e).settle

def run (s : St) : List Step → St
  | [] => s
  | e :: es => run (step s e) es

/-- The population of a case. -/
structure Cfg where
  sq : Nat
  cq : Nat
  cqh : Nat := 0
  clones : Nat := 0
  fds : Nat := 1
  pool : Bool := false
  maxOps : Nat := 8
  /-- per descriptor `k < fds`: it is a direct descriptor, registered in slot `k`
  of the ring's file table (descriptors beyond the list are regular) -/
  direct : List Bool := []
  /-- size of the registered-file table (`with_direct_descriptors(dtab)`) -/
  dtab : Nat := 0
  deriving Repr

/-- Every direct descriptor is one of the `fds` descriptors and its slot lies
inside the table. -/
def Cfg.directOk (c : Cfg) : Prop := c.direct.length ≤ c.fds ∧ c.direct.length ≤ c.dtab

instance (c : Cfg) : Decidable c.directOk := by unfold Cfg.directOk; infer_instance

def init (c : Cfg) : St :=
  { sqLen := c.sq, cqLen := c.cq, cqHead := c.cqh, maxOps := c.maxOps,
    clones := List.replicate c.clones true,
    fdLive := List.replicate c.fds true,
    fdDir := c.direct,
    fdCloses := List.replicate c.fds 0,
    slotReg := c.direct ++ List.replicate (c.dtab - c.direct.length) false,
    slotRel := List.replicate c.dtab 0,
    poolHandle := c.pool, poolLive := c.pool, hadPool := c.pool }

/-! ### Line protocol -/

def insertSorted (x : Nat) : List Nat → List Nat
  | [] => [x]
  | y :: ys => if x ≤ y then x :: y :: ys else y :: insertSorted x ys

def sortNat (l : List Nat) : List Nat := l.foldr insertSorted []

def parseKind (k : String) : Option Kind :=
  if k == "read" then some .read
  else if k == "write" then some .write
  else if k == "pread" then some .pread
  else if k == "unlink" then some .unlink
  else if k == "mread" then some .mread
  else if k == "sendzc" then some .sendzc
  else none

/-- CQE flags of a scripted completion: absent / `0` = final, `m` =
`IORING_CQE_F_MORE`, `n` = `IORING_CQE_F_NOTIF` (final). -/
def parseFlags (f : String) : Option Nat :=
  if f == "0" then some 0 else if f == "m" then some 2 else if f == "n" then some 8 else none

/-- Parse `i:res` / `i:res:flags` items separated by commas (`-` = none). -/
def parsePosts (s : String) : Option (List Post) :=
  if s == "-" then some []
  else (s.splitOn ",").mapM (fun t =>
    match t.splitOn ":" with
    | [i, r] => do
      let i ← parseNat i
      let r ← parseInt r
      pure (i, r, 0)
    | [i, r, f] => do
      let i ← parseNat i
      let r ← parseInt r
      let f ← parseFlags f
      pure (i, r, f)
    | _ => none)

def parseStep : List String → Option Step
  | ["new", i, kind, fd] => do
    let i ← parseNat i
    let k ← parseKind kind
    let fd ← if fd == "-" then (if k == .unlink then some 0 else none)
             else (if k == .unlink then none else parseNat fd)
    pure (.newOp i k fd)
  | ["poll", i, w] => do pure (.poll (← parseNat i) (← parseNat w))
  | ["kpost", i, r] => do pure (.kpost (← parseNat i) (← parseInt r) 0)
  | ["kpost", i, r, f] => do pure (.kpost (← parseNat i) (← parseInt r) (← parseFlags f))
  | ["rpoll", posts] => do pure (.rpoll (← parsePosts posts))
  | ["drop", "ring"] => some .dropRing
  | ["drop", "clone", k] => do pure (.dropClone (← parseNat k))
  | ["drop", "fd", k] => do pure (.dropFd (← parseNat k))
  | ["drop", "dfd", k] => do pure (.dropDfd (← parseNat k))
  | ["drop", "op", i] => do pure (.dropOp (← parseNat i))
  | ["drop", "pool"] => some .dropPool
  | ["drop", "buf", j] => do pure (.dropBuf (← parseNat j))
  | _ => none

/-- Does the step run a10 code (and therefore print the effects line)? -/
def Step.runsCode : Step → Bool
  | .newOp .. => false
  | .kpost .. => false
  | _ => true

def clearScratch (s : St) : St := { s with out := [], wk := [], fr := [], pf := 0 }

def fxLine (s : St) : String :=
  s!"fx wakes={showNatList (sortNat s.wk)} frees={showNatList (sortNat s.fr)} pool={s.pf}"

def isPow2 (n : Nat) : Bool := [1, 2, 4, 8, 16, 32, 64, 128].contains n

structure Driver where
  st : St := {}
  live : Bool := false

def parseBool (s : String) : Option Bool :=
  if s == "1" then some true else if s == "0" then some false else none

/-! ### Ring drop with a kernel submission thread (`Completions::drop`, src/io_uring/cq.rs)

With a kernel thread the flush at the start of the Ring's drop only wakes the thread; it takes the
queue on its own time. A small model of the order of the steps: the queue holds abandoned
operations (each followed by its cancel request, which is of no consequence for an operation
that has not started), `inflight` the operations the kernel has started. -/

structure KtDrop where
  /-- abandoned operations still in the submission queue, not yet taken by the thread -/
  queued : List Nat := []
  /-- operations the kernel has started -/
  inflight : List Nat := []
  /-- completions posted, not yet processed -/
  posted : List Nat := []
  /-- operations whose state and resources were released -/
  released : List Nat := []
  /-- the Ring has finished its drop: nobody processes completions any more -/
  gone : Bool := false
  deriving Repr, DecidableEq

inductive KtStep where
  /-- the kernel thread takes the queue -/
  | take
  /-- `IORING_REGISTER_SYNC_CANCEL(ANY | ALL)`: everything in flight completes with `-ECANCELED` -/
  | sweep
  /-- the final collection: every posted completion is processed, abandoned states are released -/
  | drain
  /-- the drop returns -/
  | done
  deriving Repr, DecidableEq

def KtDrop.step (s : KtDrop) : KtStep → KtDrop
  | .take => { s with queued := [], inflight := s.inflight ++ s.queued }
  | .sweep => { s with inflight := [], posted := s.posted ++ s.inflight }
  | .drain => if s.gone then s else { s with posted := [], released := s.released ++ s.posted }
  | .done => { s with gone := true }

def KtDrop.run (s : KtDrop) (l : List KtStep) : KtDrop := l.foldl KtDrop.step s

/-- The drop as repaired by c481592: wait for the thread to take the queue, then cancel, collect,
return. (The thread may run again later: nothing is queued any more.) -/
def ktDropFixed : List KtStep := [.take, .sweep, .drain, .done, .take]

/-- The drop before the repair, with a thread that is slower than the drop: cancel and collect
first, the thread takes the queue afterwards. -/
def ktDropOld : List KtStep := [.sweep, .drain, .done, .take, .sweep, .drain]

/-- Bits `0 .. n-1` of `m`, least significant first, without trailing `false`s
beyond the highest set bit (`dmask=` of the header: bit `k` = descriptor `k`
is direct). -/
def maskBits (m : Nat) : Nat → List Bool
  | 0 => []
  | n + 1 => if m == 0 then [] else (m % 2 == 1) :: maskBits (m / 2) n

def stepLine (d : Driver) (toks : List String) : Driver × List String :=
  match toks with
  | "teardown" :: "begin" :: _ :: rest =>
    -- `dmask` / `dtab` are optional (absent = no direct descriptors, no table)
    let dmask := match findKv "dmask" rest with
      | none => some 0
      | some v => parseNat v
    let dtab := match findKv "dtab" rest with
      | none => some 0
      | some v => parseNat v
    match findNat "sq" rest, findNat "cq" rest, findNat "cqh" rest, findNat "clones" rest,
          findNat "fds" rest, (findKv "pool" rest).bind parseBool, findNat "maxops" rest, dmask, dtab with
    | some sq, some cq, some cqh, some cl, some fds, some pool, some mo, some dmask, some dtab =>
      if isPow2 sq ∧ sq ≤ 64 ∧ isPow2 cq ∧ cq ≤ 128 ∧ cq ≥ sq ∧ cqh < 4294967296 ∧ cl ≤ 4 ∧ fds ≤ 4
          ∧ mo ≤ 16 ∧ dtab ≤ 16 ∧ dmask < 2 ^ fds ∧ (maskBits dmask 4).length ≤ dtab then
        ({ st := init { sq := sq, cq := cq, cqh := cqh, clones := cl, fds := fds, pool := pool,
                        maxOps := mo, direct := maskBits dmask 4, dtab := dtab }, live := true },
         ["mmap sq", "mmap sqes", "mmap cq"] ++ (if dtab > 0 then ["register files ok"] else [])
           ++ (if pool then ["register pbuf ok"] else []))
      else ({ live := false }, ["bad-op"])
    | _, _, _, _, _, _, _, _, _ => ({ live := false }, ["bad-op"])
  | ["teardown", "single-last-handle", w] =>
    -- A single-issuer ring of its own: polled once (that thread is the submitter), dropped, then a
    -- regular `AsyncFd` — the last handle — is dropped. On the submitter's thread `Shared::drop`
    -- submits the queued CLOSE. On ANOTHER thread the kernel refuses its `io_uring_enter` (EEXIST):
    -- as the code stands the CLOSE is never submitted and the descriptor stays open (known finding
    -- F23; C12 demands `closes=1 open=0` there as well — the harness oracle judges that).
    if !d.live then (d, ["bad-op"])
    else if w == "same" then (d, ["single-last-handle closes=1 open=0 refused=0"])
    else if w == "other" then (d, ["single-last-handle closes=0 open=1 refused=1"])
    -- built disabled on another thread, enabled on this one: the enabling thread is the submitter
    -- (IORING_REGISTER_ENABLE_RINGS), so this is the `same` case
    else if w == "enabled-elsewhere" then (d, ["single-last-handle closes=1 open=0 refused=0"])
    else (d, ["bad-op"])
  | ["teardown", "sqpoll-ring-drop"] =>
    -- A ring with a kernel submission thread whose queue (an abandoned read and its cancel
    -- request) the thread has not taken when the Ring is dropped: the drop waits for the thread to
    -- take it, then cancels what is in flight and processes the last completions, which releases
    -- the read's state and buffer.
    if !d.live then (d, ["bad-op"])
    else
      let r := KtDrop.run { queued := [0] } ktDropFixed
      (d, [s!"sqpoll-ring-drop queued=2 released={r.released.length}/1"])
  | ["teardown", "sqpoll-last-handle"] =>
    -- A ring with a kernel submission thread, of its own: the Ring is dropped, then a regular
    -- `AsyncFd` — the last handle. Its CLOSE is queued after the Ring is gone and consumed by the
    -- kernel thread asynchronously; the last handle waits for that before it closes the ring
    -- (`Shared::drop`, fix 5ae3e32): the descriptor is closed exactly once and nothing is left queued.
    if !d.live then (d, ["bad-op"]) else (d, ["sqpoll-last-handle closes=1 left=0 open=0"])
  | ["teardown", "disabled-drop", n] =>
    -- A ring created disabled (`Config::disable()`) and never enabled, of its own: `n` reads are
    -- started — queued, never submitted: `io_uring_enter` is refused with EBADFD —, abandoned, and
    -- the Ring is dropped. As the code stands nothing reclaims their state: no completion will ever
    -- arrive for a submission the kernel never saw (known finding F24; C12 demands `freed=n/n` —
    -- the harness oracle judges that).
    if !d.live then (d, ["bad-op"]) else
    match parseNat n with
    | some n => if 1 ≤ n ∧ n ≤ 6 then (d, [s!"disabled-drop freed=0/{n}"]) else (d, ["bad-op"])
    | none => (d, ["bad-op"])
  | ["teardown", "defer-drop", n, b] =>
    -- A single-issuer ring with deferred completions (IORING_SETUP_DEFER_TASKRUN) of its own: `n`
    -- reads in flight are abandoned, then the Ring is dropped while the kernel hands over at most
    -- `b` completions per `io_uring_enter(GETEVENTS)`. `Completions::drop` keeps entering until a
    -- call brings nothing new (the loop of `rdrop`, fix c86db5e): every buffer is released.
    if !d.live then (d, ["bad-op"]) else
    match parseNat n, parseNat b with
    | some n, some b =>
      if 1 ≤ n ∧ n ≤ 6 ∧ 1 ≤ b ∧ b ≤ 4 then (d, [s!"defer-drop freed={n}/{n}"]) else (d, ["bad-op"])
    | _, _ => (d, ["bad-op"])
  | "teardown" :: rest =>
    if !d.live then (d, ["bad-op"]) else
    match parseStep rest with
    | none => (d, ["bad-op"])
    | some e =>
      let s := step (clearScratch d.st) e
      let bad := s.out == ["bad-op"]
      ({ d with st := s }, s.out ++ (if e.runsCode && !bad then [fxLine s] else []))
  | _ => (d, ["bad-op"])

end A10.Teardown
