/-
Model of `SocketAddress` (src/net.rs:1583-1813): conversion of socket
addresses to the kernel's byte representation and back.

Bytes are `Nat`s `< 256`; storages are byte lists (x86-64 Linux layout:
`sockaddr_in` 16 bytes, `sockaddr_in6` 28 bytes, `sockaddr_un` 110 bytes,
`sa_family_t` = u16 little endian).
-/
import A10Verif.Model.Basic

namespace A10.Addr

/-- Socket addresses, as the values the public API deals in. -/
inductive Addr where
  /-- IPv4: 4 octets, port. -/
  | v4 (ip : List Nat) (port : Nat)
  /-- IPv6: 16 octets, port, flow info, scope id. -/
  | v6 (ip : List Nat) (port flow scope : Nat)
  /-- Unix path name (bytes, no NUL). -/
  | path (p : List Nat)
  /-- Unix abstract name (any bytes). -/
  | abstr (n : List Nat)
  | unnamed
  deriving Repr, DecidableEq

def AF_UNIX : Nat := 1
def AF_INET : Nat := 2
def AF_INET6 : Nat := 10

def zeros (n : Nat) : List Nat := List.replicate n 0

/-- Little-endian bytes of a 16-bit value. -/
def le16 (x : Nat) : List Nat := [x % 256, x / 256 % 256]
/-- Big-endian bytes of a 16-bit value (`to_be` then stored). -/
def be16 (x : Nat) : List Nat := [x / 256 % 256, x % 256]
/-- Little-endian bytes of a 32-bit value. -/
def le32 (x : Nat) : List Nat :=
  [x % 256, x / 256 % 256, x / 65536 % 256, x / 16777216 % 256]

def rd16le (bs : List Nat) (off : Nat) : Nat := bs.getD off 0 + 256 * bs.getD (off + 1) 0
def rd16be (bs : List Nat) (off : Nat) : Nat := 256 * bs.getD off 0 + bs.getD (off + 1) 0
def rd32le (bs : List Nat) (off : Nat) : Nat :=
  bs.getD off 0 + 256 * bs.getD (off + 1) 0 + 65536 * bs.getD (off + 2) 0
    + 16777216 * bs.getD (off + 3) 0

/-- `SocketAddrV4::into_storage`. -/
def storageV4 (ip : List Nat) (port : Nat) : List Nat :=
  le16 AF_INET ++ be16 port ++ ip ++ zeros 8

/-- `SocketAddrV6::into_storage`. -/
def storageV6 (ip : List Nat) (port flow scope : Nat) : List Nat :=
  le16 AF_INET6 ++ be16 port ++ le32 flow ++ ip ++ le32 scope

/-- `unix::net::SocketAddr::into_storage` (address part of the storage pair):
family, then the path / `\0name` / nothing, zero padded to 108 bytes. -/
def storageUnix : Addr → List Nat
  | .path p => le16 AF_UNIX ++ p ++ zeros (108 - p.length)
  | .abstr n => le16 AF_UNIX ++ [0] ++ n ++ zeros (107 - n.length)
  | _ => le16 AF_UNIX ++ zeros 108

/-- Length stored next to the address by `into_storage` and handed to the kernel
by `as_ptr` (src/net.rs): path names count their terminating NUL, abstract names
are exactly `\0name`, the unnamed address is only the family. -/
def ptrLenUnix : Addr → Nat
  | .path p => 2 + p.length + 1
  | .abstr n => 2 + 1 + n.length
  | _ => 2

/-- `SocketAddrV4::init` (the length is only asserted). -/
def initV4 (st : List Nat) : Addr :=
  .v4 ((st.drop 4).take 4) (rd16be st 2)

/-- `SocketAddrV6::init`. -/
def initV6 (st : List Nat) : Addr :=
  .v6 ((st.drop 8).take 16) (rd16be st 2) (rd32le st 4) (rd32le st 24)

/-- The either-family storage is a `sockaddr_in6` (28 bytes); a v4 address is
written over its first 16 bytes. -/
def storageAny : Addr → List Nat
  | .v4 ip port => storageV4 ip port ++ zeros 12
  | .v6 ip port flow scope => storageV6 ip port flow scope
  | _ => zeros 28

/-- `SocketAddr::as_ptr`: the length passed to the kernel is chosen by family. -/
def ptrLenAny (st : List Nat) : Nat :=
  if rd16le st 0 = AF_INET then 16 else 28

/-- `SocketAddr::init`: dispatch on the family field. -/
def initAny (st : List Nat) : Addr :=
  if rd16le st 0 = AF_INET then initV4 (st.take 16) else initV6 st

/-- `std::os::unix::net::SocketAddr::from_pathname` (modelled, trusted):
rejects interior NULs and paths that do not fit with their terminator. -/
def fromPathname (p : List Nat) : Option Addr :=
  if p.contains 0 then none
  else if p.length ≥ 108 then none
  else if p.isEmpty then some .unnamed
  else some (.path p)

/-- `SocketAddr::from_abstract_name` (modelled, trusted). -/
def fromAbstract (n : List Nat) : Option Addr :=
  if n.length + 1 > 108 then none else some (.abstr n)

/-- `unix::net::SocketAddr::init` (src/net.rs:1787-1808, with the fix that
strips the terminating NUL of path names and the fix 2945ba2 for a reported
length below the family field). `len` is the length the kernel reported. -/
def initUnixCore (st : List Nat) (len : Nat) : Addr :=
  let path := (st.drop 2).take (len - 2)
  let viaPath : Addr :=
    (fromPathname (path.takeWhile (· ≠ 0))).getD .unnamed
  match path with
  | 0 :: rest =>
    match fromAbstract rest with
    | some a => a
    | none => viaPath
  | _ => viaPath

/-- `init` proper: when the kernel wrote no address (reported length below the
family field; 0 for a datagram from an unbound socket) the address is unnamed
(`fix:` commit 2945ba2), otherwise the path bytes are decoded. -/
def initUnix (st : List Nat) (len : Nat) : Addr :=
  if len < 2 then .unnamed else initUnixCore st len

/-- Lengths the kernel reports for a Unix address (`unix_getname`,
`unix_mkname`): unnamed 2, and 0 when `recvmsg` has no sender address to
report (`unix_copy_addr` of an unbound sender); abstract `2 + 1 + |n|`; path name `2 + |p| + 1`
(with the terminating NUL) and, when the path fills `sun_path`, `2 + |p|`. -/
def kernelLens : Addr → List Nat
  | .unnamed => [2, 0]
  | .abstr n => [3 + n.length]
  | .path p => [2 + p.length + 1, 2 + p.length]
  | .v4 _ _ => [16]
  | .v6 _ _ _ _ => [28]

/-! ### Line protocol -/

def hexDigit (n : Nat) : Char :=
  if n < 10 then Char.ofNat (48 + n) else Char.ofNat (87 + n)

def hexByte (b : Nat) : String := String.ofList [hexDigit (b / 16 % 16), hexDigit (b % 16)]

def hex (bs : List Nat) : String :=
  if bs.isEmpty then "-" else String.join (bs.map hexByte)

def unhexDigit (c : Char) : Option Nat :=
  if '0' ≤ c ∧ c ≤ '9' then some (c.toNat - 48)
  else if 'a' ≤ c ∧ c ≤ 'f' then some (c.toNat - 87)
  else none

def unhexList : List Char → Option (List Nat)
  | [] => some []
  | [_] => none
  | a :: b :: rest => do
    let x ← unhexDigit a
    let y ← unhexDigit b
    let r ← unhexList rest
    pure ((16 * x + y) :: r)

def unhex (s : String) : Option (List Nat) :=
  if s == "-" then some [] else unhexList s.toList

def showAddr : Addr → String
  | .v4 ip port => s!"v4:{hex ip}:{port}"
  | .v6 ip port flow scope => s!"v6:{hex ip}:{port}:{flow}:{scope}"
  | .path p => s!"path:{hex p}"
  | .abstr n => s!"abstract:{hex n}"
  | .unnamed => "unnamed"

/-- One op: `addr <kind> …`; output `storage=<hex> ptrlen=<n> mutlen=<n> back=<addr>`. -/
def stepLine (toks : List String) : List String :=
  match toks with
  | ["addr", "begin", _] => []
  | ["addr", "v4", ip, port] =>
    match unhex ip, parseNat port with
    | some ip, some port =>
      let st := storageV4 ip port
      [s!"storage={hex st} ptrlen=16 mutlen=16 back={showAddr (initV4 st)}"]
    | _, _ => ["bad-op"]
  | ["addr", "v6", ip, port, flow, scope] =>
    match unhex ip, parseNat port, parseNat flow, parseNat scope with
    | some ip, some port, some flow, some scope =>
      let st := storageV6 ip port flow scope
      [s!"storage={hex st} ptrlen=28 mutlen=28 back={showAddr (initV6 st)}"]
    | _, _, _, _ => ["bad-op"]
  | ["addr", "any4", ip, port] =>
    match unhex ip, parseNat port with
    | some ip, some port =>
      let st := storageAny (.v4 ip port)
      [s!"storage={hex st} ptrlen={ptrLenAny st} mutlen=28 back={showAddr (initAny st)}"]
    | _, _ => ["bad-op"]
  | ["addr", "any6", ip, port, flow, scope] =>
    match unhex ip, parseNat port, parseNat flow, parseNat scope with
    | some ip, some port, some flow, some scope =>
      let st := storageAny (.v6 ip port flow scope)
      [s!"storage={hex st} ptrlen={ptrLenAny st} mutlen=28 back={showAddr (initAny st)}"]
    | _, _, _, _ => ["bad-op"]
  | ["addr", "unix", kind, name, klen] =>
    match unhex name, parseNat klen with
    | some name, some klen =>
      let a : Option Addr :=
        if kind == "path" then some (.path name)
        else if kind == "abstract" then some (.abstr name)
        else if kind == "unnamed" then some .unnamed
        else none
      match a with
      | some a =>
        let st := storageUnix a
        [s!"storage={hex st} ptrlen={ptrLenUnix a} mutlen=110 back={showAddr (initUnix st klen)}"]
      | none => ["bad-op"]
    | _, _ => ["bad-op"]
  | _ => ["bad-op"]

end A10.Addr
