/-
Micro-step model of futures blocked on a full submission queue (C03, part b):

* `poll_inner`, `NotStarted` arm (src/io_uring/op.rs:804-846): `Submissions::add`
  (sq.rs:25-80) and, on `QueueFull`, `wait_for_submission` (sq.rs:147-151);
* `Shared::enter` (mod.rs:154-210) as called by `Ring::poll` — with the `fix:`
  commit fcfcfbe it wakes the blocked futures after EVERY return from the
  kernel (Ok, ETIME, EINTR);
* `Shared::wake_blocked_futures` (mod.rs:213-247), including the
  take / wake / swap / extend dance around the two critical sections.

Threads: any number of futures `F i` (each polling one operation), one ring
thread `R` calling `Ring::poll` repeatedly. One step per scheduling point that
matters for this protocol (loads of the queue words, the queue and blocked-list
locks, the kernel entry); the kernel consumes submissions inside `enter`.
No operation ever completes here: the wake-ups must come from freed queue
space alone.
-/
import A10Verif.Model.Basic

namespace A10.Blocked

open A10

/-- Program counter of a future's poll. -/
inductive FPc where
  /-- about to load the queue head (unlocked pre-check) -/
  | ldHead
  | ldTail (h : Nat)
  /-- pre-check said full: about to lock the blocked list -/
  | lockBlocked
  /-- holds the blocked-list lock, about to push the waker and unlock -/
  | pushing
  /-- about to take the submission lock -/
  | lockSub
  | ldHead2
  | ldTail2 (h : Nat)
  /-- about to publish: store tail -/
  | stTail
  /-- returned `Pending`, waker registered in the blocked list -/
  | pending
  /-- returned `Pending`, operation submitted (running) -/
  | submitted
  deriving Repr, DecidableEq

/-- Program counter of the ring thread. -/
inductive RPc where
  | idle
  /-- `Ring::poll` called (completion queue empty): about to compute `to_submit` -/
  | start
  /-- about to enter the kernel with `to_submit = n` -/
  | enter (n : Nat)
  /-- `wake_blocked_futures`: about to load the head -/
  | w1
  | w2 (h : Nat)
  /-- about to `try_lock` the blocked list with `avail` free slots -/
  | tryLock (avail : Nat)
  /-- woke the first `k`; about to `lock` again to merge `rest` with new registrations;
  `left` = free slots not yet given away -/
  | lock2 (rest : List Nat) (left : Nat)
  /-- `Ring::poll(None)`: inside `io_uring_enter`, waiting for a completion -/
  | waiting
  deriving Repr, DecidableEq

structure St where
  len : Nat
  H : Nat := 0
  T : Nat := 0
  /-- holder of the submission lock -/
  subLock : Option Nat := none
  /-- `Shared::blocked_futures` (waker = future index) -/
  blocked : List Nat := []
  f : List FPc := []
  r : RPc := .idle
  /-- wakers invoked so far, in order -/
  woken : List Nat := []
  /-- GHOST (read by no step): every registration of a waker, in order -/
  pushed : List Nat := []
  /-- the `Ring::poll` call in progress (or the last one) has no timeout -/
  inf : Bool := false
  /-- decided at the start of the call (`Completions::poll`, cq.rs): this call may wait for
  a completion — no timeout, and (fix d4303dd) no future was waiting for a submission slot
  when the blocked list was looked at -/
  block : Bool := false
  /-- holder of the blocked-list lock among the futures (the ring thread only takes it inside
  one of its own steps) -/
  blockedLock : Option Nat := none
  /-- IORING_SETUP_SQPOLL: a kernel thread takes the submissions — everything that is published
  when the ring thread's `enter` wakes it, not only the `to_submit` the caller computed -/
  kt : Bool := false
  deriving Repr

def setF (s : St) (i : Nat) (pc : FPc) : St := { s with f := s.f.set i pc }

/-- One step of future `i`. -/
def stepF (s : St) (i : Nat) : St :=
  match s.f[i]? with
  | none => s
  | some pc =>
    match pc with
    | .ldHead => setF s i (.ldTail s.H)
    | .ldTail h => if s.T - h ≥ s.len then setF s i .lockBlocked else setF s i .lockSub
    | .lockBlocked =>
      -- `lock(&blocked_futures)`: spins while another future holds it
      match s.blockedLock with
      | none => { setF s i .pushing with blockedLock := some i }
      | some _ => s
    | .pushing =>
      -- push the waker, unlock
      { setF s i .pending with blocked := s.blocked ++ [i], pushed := s.pushed ++ [i],
                               blockedLock := none }
    | .lockSub =>
      match s.subLock with
      | none => { setF s i .ldHead2 with subLock := some i }
      | some _ => s
    | .ldHead2 => setF s i (.ldTail2 s.H)
    | .ldTail2 h =>
      if s.T - h ≥ s.len then { setF s i .lockBlocked with subLock := none }
      else setF s i .stTail
    | .stTail => { setF s i .submitted with T := s.T + 1, subLock := none }
    | .pending => s
    | .submitted => s

/-- One step of the ring thread. -/
def stepR (s : St) : St :=
  match s.r with
  | .idle => s
  | .start =>
    -- `has_blocked_futures()` (d4303dd) locks the blocked list (spinning while a future holds it):
    -- with futures waiting for a slot the call does not wait
    if s.blockedLock.isSome then s
    else { s with r := .enter (s.T - s.H), block := s.inf && s.blocked.isEmpty }
  | .enter n =>
    -- the kernel consumes `min n pending`; nothing completes: a call with a timeout returns
    -- (ETIME / Ok(n); both wake), a call without one stays in the kernel
    { s with H := if s.kt then s.T else s.H + min n (s.T - s.H),
             r := if s.block then .waiting else .w1 }
  | .waiting => s
  | .w1 => { s with r := .w2 s.H }
  | .w2 h =>
    let avail := s.len - (s.T - h)
    if avail = 0 then { s with r := .idle } else { s with r := .tryLock avail }
  | .tryLock avail =>
    -- `try_lock(&blocked_futures)`: a future is inside its push — give up, the next pass will do
    if s.blockedLock.isSome then { s with r := .idle }
    else if s.blocked.isEmpty then { s with r := .idle }
    else
      let k := min avail s.blocked.length
      { s with woken := s.woken ++ s.blocked.take k, blocked := [],
               r := .lock2 (s.blocked.drop k) (avail - k) }
  | .lock2 rest left =>
    -- `lock(&blocked_futures)`: spins while a future holds it
    if s.blockedLock.isSome then s else
    let n := s.blocked
    let j := min left n.length
    { s with blocked := rest ++ n.drop (n.length - j),
             woken := s.woken ++ n.take (n.length - j), r := .idle }

/-- A new `Ring::poll` call, with a timeout (`inf = false`) or without one. -/
def startPollT (s : St) (inf : Bool) : St :=
  match s.r with
  | .idle => { s with r := .start, inf := inf }
  | _ => s

/-- A new `Ring::poll(Some(_))` call. -/
def startPoll (s : St) : St := startPollT s false

/-- Some completion arrives (anything: an unrelated operation): a waiting `io_uring_enter`
returns and the call goes on to wake the blocked futures. -/
def stepIo (s : St) : St :=
  match s.r with
  | .waiting => { s with r := .w1 }
  | _ => s

/-- A future that returned `Pending` for lack of a slot is polled again (after
its waker was invoked, or spuriously — the `Future` contract allows both). -/
def repoll (s : St) (i : Nat) : St :=
  match s.f[i]? with
  | some .pending => setF s i .ldHead
  | _ => s

/-- `c` entries were already published and consumed before the threads start. -/
def init (len n c : Nat) : St := { len := len, H := c, T := c, f := List.replicate n .ldHead }

/-! ### Line protocol (component `blk`) -/

def showF : FPc → String
  | .ldHead => "at-ld-head1"
  | .ldTail _ => "at-ld-tail1"
  | .lockBlocked => "at-lock-blocked"
  | .pushing => "at-pushing"
  | .lockSub => "at-lock-sub"
  | .ldHead2 => "at-ld-head2"
  | .ldTail2 _ => "at-ld-tail2"
  | .stTail => "at-st-tail"
  | .pending => "pending-blocked"
  | .submitted => "pending-submitted"

def showR : RPc → String
  | .idle => "idle"
  | .start => "start"
  | .enter n => s!"at-enter/{n}"
  | .w1 => "at-w-ld-head"
  | .w2 _ => "at-w-ld-tail"
  | .tryLock _ => "at-try-lock"
  | .lock2 _ _ => "at-lock2"
  | .waiting => "waiting"

def showState (s : St) : String :=
  s!"H={s.H} T={s.T} woken={showNatList s.woken}"

/-! ### A waker that panics inside the wake pass

`Shared::wake_blocked_futures` takes the waiting wakers `ws` out of the list and wakes the first
`a` of them in order. If waking number `i < a` panics, the guard (`Unwoken`, src/io_uring/mod.rs)
counts it as woken and puts everything after it back on the list while unwinding. -/

/-- The pass over `ws` that is to wake `a` of them and panics at index `i`: the wakers woken
(without the panicking one) and the list afterwards. -/
def unwindPass (ws : List Nat) (a i : Nat) : List Nat × List Nat :=
  if i < min a ws.length then (ws.take i, ws.drop (i + 1)) else (ws.take (min a ws.length), ws.drop (min a ws.length))

def showIds (l : List Nat) : String :=
  if l.isEmpty then "-" else ",".intercalate (l.map toString)

def stepLine (s : St) (toks : List String) : St × List String :=
  match toks with
  | "blk" :: "begin" :: _ :: rest =>
    match findNat "len" rest, findNat "n" rest with
    | some len, some n =>
      if len == 0 || len > 16 || (len &&& (len - 1)) != 0 || n == 0 || n > 8 then
        ({ s with f := [], r := .idle }, ["bad-op"])
      else
        let kt := findNat "kt" rest == some 1
        ({ init len n 1 with kt := kt }, [showState (init len n 1)])
    | _, _ => (s, ["bad-op"])
  | ["blk", "f", i] =>
    match parseNat i with
    | some i =>
      match s.f[i]? with
      | none => (s, ["bad-op"])
      | some .pending => (s, ["bad-op"])
      | some .submitted => (s, ["bad-op"])
      | some _ =>
        let s' := stepF s i
        (s', [s!"f{i} {(s'.f[i]?).map showF |>.getD "?"} {showState s'}"])
    | none => (s, ["bad-op"])
  | ["blk", "poll"] =>
    match s.r with
    | .idle => let s' := startPoll s; (s', [s!"r {showR s'.r} {showState s'}"])
    | _ => (s, ["bad-op"])
  -- a `Ring::poll(None)` whose `io_uring_enter` is interrupted by a signal: `Shared::enter` treats
  -- EINTR like ETIME (wake pass, `Ok(0)`), i.e. the call is a zero-timeout poll
  | ["blk", "polli"] =>
    match s.r with
    | .idle => let s' := startPoll s; (s', [s!"r {showR s'.r} {showState s'}"])
    | _ => (s, ["bad-op"])
  -- A wake pass in which the first of three waiters' wakers panics (a ring of its own, queue of
  -- two filled and submitted by the poll): the pass was to wake two — the panicking one counts as
  -- woken, the other and the one without a slot go back on the list (`unwindPass`) — and the next
  -- poll, with two slots free, wakes both.
  | ["blk", "pwaker"] =>
    match s.r with
    | .idle =>
      let u := unwindPass [700, 701, 702] 2 0
      let woken2 := u.2.take 2
      (s, [s!"pwaker first=panic woken={showIds u.1} second=ok woken={showIds woken2}"])
    | _ => (s, ["bad-op"])
  | ["blk", "pollinf"] =>
    match s.r with
    | .idle => let s' := startPollT s true; (s', [s!"r {showR s'.r} {showState s'}"])
    | _ => (s, ["bad-op"])
  | ["blk", "io"] =>
    match s.r with
    | .waiting => let s' := stepIo s; (s', [s!"r {showR s'.r} {showState s'}"])
    | _ => (s, ["bad-op"])
  | ["blk", "r"] =>
    match s.r with
    | .idle => (s, ["bad-op"])
    | _ => let s' := stepR s; (s', [s!"r {showR s'.r} {showState s'}"])
  | ["blk", "repoll", i] =>
    match parseNat i with
    | some i =>
      let s' := repoll s i
      if s'.f == s.f then (s, ["bad-op"])
      else (s', [s!"f{i} {(s'.f[i]?).map showF |>.getD "?"} {showState s'}"])
    | none => (s, ["bad-op"])
  | _ => (s, ["bad-op"])

end A10.Blocked
