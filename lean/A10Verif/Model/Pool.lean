/-
Model of `ReadBufPool` (src/io_uring/io.rs:20-229), of the buffer ownership of
`ReadBuf` (src/io/read_buf.rs:153-158, 322-332, 398-413, 488-492) and of the
paths on which a kernel-chosen buffer id travels from a completion to a
`ReadBuf` (src/io_uring/op.rs:264-312, 398-405, 786-955; io.rs:357-369,
404-414; net.rs:242-254, 294-303).

Two layers.

**(A) the pool machine** `St` / `Act` / `step`: the kernel-shared buffer ring
(`ring`, 16-bit `tail`), the kernel's private head `khead`, the buffers owned
by `ReadBuf`s, the buffer ids that sit in completions not yet turned into a
`ReadBuf` (`inCqe`), the `ReadBufPool::release` calls in progress at
micro-step granularity (io.rs:166-220: id from the pointer, lock, load tail,
write slot `tail & mask`, store `tail + 1`, unlock) and the ids nobody will
ever give back (`lost`). Every action is one atomic step; a run is any
interleaving of actions of the kernel, of the threads releasing buffers and of
the code delivering / discarding completions. The theorems of
`Props/C08.lean` quantify over all runs of this machine.

**(B) the system** `Sys` / `SOp` / `sysStep`: real operations
(`Model/Op.lean`, one `Op` per future) reading into pool buffers, the
submission and completion queues, and the `ReadBuf` handles of the caller.
This is what the harness component `pool` executes step by step against the
real code; every change it makes to the pool goes through the actions of (A)
(`St.act`), which `C08_sys_reachable` makes precise.

Addresses are offsets from `bufs_addr`. `gH`, `gN`, `gen` and `Owned.stamp`
are ghost: they never influence behaviour.
-/
import A10Verif.Model.Op

namespace A10.Pool

open A10

/-! ## (A) The pool machine -/

/-- One `io_uring_buf` of the buffer ring (io.rs:124-129, 196-201). -/
structure Entry where
  /-- `addr - bufs_addr` -/
  off : Nat
  len : Nat
  bid : Nat
  deriving Repr, DecidableEq, Inhabited

/-- A `ReadBuf` whose `owned` is `Some(ptr)` (read_buf.rs:153-158). -/
structure Owned where
  /-- which `ReadBuf` object (handle number) -/
  rb : Nat
  /-- `ptr - bufs_addr` -/
  off : Nat
  /-- `ptr.len()` -/
  len : Nat
  /-- ghost: generation of the buffer's contents when it was delivered -/
  stamp : Nat
  deriving Repr, DecidableEq

/-- A `ReadBufPool::release(ptr)` call in progress: `owned.take()` happened
(read_buf.rs:327) and the id was computed (io.rs:173-176). -/
structure Rel where
  /-- thread -/
  tid : Nat
  /-- `ptr - bufs_addr` -/
  off : Nat
  /-- `(offset / buf_size) as u16` -/
  bid : Nat
  deriving Repr, DecidableEq

/-- Program counter of the thread inside the critical section. -/
inductive Pc where
  /-- `lock(&self.reregister_lock)` returned (io.rs:180) -/
  | locked
  /-- `ring_tail.load(Acquire)` done (io.rs:186) -/
  | loaded
  /-- `ring_buf.write(..)` done (io.rs:196-201) -/
  | written
  /-- `ring_tail.store(tail.wrapping_add(1), Release)` done (io.rs:218) -/
  | stored
  deriving Repr, DecidableEq

/-- The thread that holds `reregister_lock`. -/
structure Holder where
  rel : Rel
  pc : Pc
  /-- the tail value it loaded -/
  ltail : Nat
  deriving Repr, DecidableEq

structure St where
  /-- `pool_size` -/
  ps : Nat
  /-- `buf_size` -/
  bs : Nat
  /-- the `pool_size` physical entries of the buffer ring -/
  ring : List Entry
  /-- the 16-bit tail a10 publishes (byte offset 14 of the ring) -/
  tail : Nat
  /-- the kernel's private 16-bit head -/
  khead : Nat
  /-- buffers held by `ReadBuf`s -/
  owned : List Owned := []
  /-- release calls that have not taken the lock yet -/
  waiting : List Rel := []
  /-- the release call inside the critical section (`reregister_lock` is held
  iff this is `some`) -/
  holder : Option Holder := none
  /-- ids the kernel selected whose completion has not been turned into a `ReadBuf` -/
  inCqe : List Nat := []
  /-- ids whose completion was discarded: nobody will release them -/
  lost : List Nat := []
  /-- ghost: number of entries the kernel ever consumed (plus the start value) -/
  gH : Nat
  /-- ghost: number of published, unconsumed entries -/
  gN : Nat
  /-- ghost: how many times the kernel wrote into each buffer -/
  gen : List Nat
  deriving Repr, DecidableEq

/-- `x & (pool_size - 1)`: `tail & self.tail_mask` (io.rs:100, 187) and the
kernel's `head & (entries - 1)`. -/
def slot (x ps : Nat) : Nat := x &&& (ps - 1)

def entryAt (ring : List Entry) (i : Nat) : Entry := (ring[i]?).getD default

/-- `ReadBufPool::new` (io.rs:110-131): entry `i` is buffer `i` at
`bufs_addr + i * buf_size`; `tail = pool_size`. `t0` pre-advances both 16-bit
counters (the state after `t0` select/release cycles in ring order); the
real constructor is `t0 = 0`. -/
def init (ps bs t0 : Nat) : St :=
  { ps := ps, bs := bs,
    ring := (List.range ps).map (fun i => ⟨i * bs, bs, i⟩),
    tail := (t0 + ps) % 65536, khead := t0 % 65536,
    gH := t0, gN := ps, gen := List.replicate ps 0 }

/-- First buffer owned by handle `rb`. -/
def findRb : List Owned → Nat → Option Owned
  | [], _ => none
  | o :: os, rb => if o.rb = rb then some o else findRb os rb

/-- Remove the first buffer owned by handle `rb`. -/
def removeRb : List Owned → Nat → List Owned
  | [], _ => []
  | o :: os, rb => if o.rb = rb then os else o :: removeRb os rb

/-- Replace the length of the first buffer owned by handle `rb`. -/
def setLenRb : List Owned → Nat → Nat → List Owned
  | [], _, _ => []
  | o :: os, rb, n => if o.rb = rb then { o with len := n } :: os else o :: setLenRb os rb n

def findTid : List Rel → Nat → Option Rel
  | [], _ => none
  | r :: rs, t => if r.tid = t then some r else findTid rs t

def removeTid : List Rel → Nat → List Rel
  | [], _ => []
  | r :: rs, t => if r.tid = t then rs else r :: removeTid rs t

/-- Remove the first occurrence of `b`. -/
def removeId : List Nat → Nat → List Nat
  | [], _ => []
  | x :: xs, b => if x = b then xs else x :: removeId xs b

def bump (gen : List Nat) (i : Nat) : List Nat := gen.set i ((gen[i]?).getD 0 + 1)

inductive Act where
  /-- KC4: the kernel takes the oldest published entry and writes the data of
  a read into that buffer; the id goes into the completion. -/
  | kselect
  /-- `init_buffer(id, n)` (io.rs:151-163) through `buffer_init` /
  `new_buffer` (read_buf.rs:87-92, 404-413): the id of a completion becomes
  the `owned` pointer of `ReadBuf` `rb`. -/
  | deliver (bid rb n : Nat)
  /-- the completion carrying `bid` is discarded without creating a `ReadBuf` -/
  | lose (bid : Nat)
  /-- any editing call of the `ReadBuf`: `change_size` keeps the address
  (read_buf.rs:335-338; C15) -/
  | edit (rb newLen : Nat)
  /-- `ReadBuf::release` / `Drop` on thread `tid`: `owned.take()`
  (read_buf.rs:327, 490) and the id computation (io.rs:173-176) -/
  | relStart (rb tid : Nat)
  /-- io.rs:180 -/
  | relLock (tid : Nat)
  /-- io.rs:186 -/
  | relLoad
  /-- io.rs:187-201 -/
  | relWrite
  /-- io.rs:218 -/
  | relStore
  /-- io.rs:219 -/
  | relUnlock
  deriving Repr, DecidableEq

/-- One atomic step; `none` = the action is not enabled. -/
def step (s : St) : Act → Option St
  | .kselect =>
    -- simk `select_buffer`: `tail == khead` means empty
    if s.tail = s.khead then none else
    let e := entryAt s.ring (slot s.khead s.ps)
    some { s with khead := (s.khead + 1) % 65536, gH := s.gH + 1, gN := s.gN - 1,
                  inCqe := s.inCqe ++ [e.bid], gen := bump s.gen (e.off / s.bs) }
  | .deliver bid rb n =>
    if bid ∈ s.inCqe ∧ (findRb s.owned rb).isNone ∧ n ≤ s.bs then
      -- io.rs:152: `bufs_addr.add(id * buf_size)`, length `n`
      some { s with inCqe := removeId s.inCqe bid,
                    owned := ⟨rb, bid * s.bs, n, (s.gen[bid]?).getD 0⟩ :: s.owned }
    else none
  | .lose bid =>
    if bid ∈ s.inCqe then
      some { s with inCqe := removeId s.inCqe bid, lost := s.lost ++ [bid] }
    else none
  | .edit rb n =>
    match findRb s.owned rb with
    | none => none
    | some _ => if n ≤ s.bs then some { s with owned := setLenRb s.owned rb n } else none
  | .relStart rb tid =>
    match findRb s.owned rb with
    | none => none
    | some o =>
      some { s with owned := removeRb s.owned rb,
                    waiting := s.waiting ++ [⟨tid, o.off, (o.off / s.bs) % 65536⟩] }
  | .relLock tid =>
    match s.holder, findTid s.waiting tid with
    | none, some r =>
      some { s with waiting := removeTid s.waiting tid, holder := some ⟨r, .locked, 0⟩ }
    | _, _ => none
  | .relLoad =>
    match s.holder with
    | some ⟨r, .locked, _⟩ => some { s with holder := some ⟨r, .loaded, s.tail⟩ }
    | _ => none
  | .relWrite =>
    match s.holder with
    | some ⟨r, .loaded, t⟩ =>
      some { s with ring := s.ring.set (slot t s.ps) ⟨r.off, s.bs, r.bid⟩,
                    holder := some ⟨r, .written, t⟩ }
    | _ => none
  | .relStore =>
    match s.holder with
    | some ⟨r, .written, t⟩ =>
      some { s with tail := (t + 1) % 65536, gN := s.gN + 1, holder := some ⟨r, .stored, t⟩ }
    | _ => none
  | .relUnlock =>
    match s.holder with
    | some ⟨_, .stored, _⟩ => some { s with holder := none }
    | _ => none

/-- Run a list of actions; `none` if one of them is not enabled. -/
def run (s : St) : List Act → Option St
  | [] => some s
  | a :: as => match step s a with
    | none => none
    | some s' => run s' as

/-- The kernel's view (simk `available_buffers`): the entries from its head up
to the published tail, oldest first. -/
def kAvail (s : St) : List Entry :=
  let a := s.ring.toArray
  (List.range ((s.tail + 65536 - s.khead) % 65536)).map
    (fun k => (a[slot ((s.khead + k) % 65536) s.ps]?).getD default)

/-- Ids the kernel can select, oldest first. -/
def availIds (s : St) : List Nat := (kAvail s).map (·.bid)

/-- The same through the ghost counters. -/
def gAvail (s : St) : List Nat :=
  (List.range' s.gH s.gN).map (fun k => (entryAt s.ring (k % s.ps)).bid)

/-- Buffer of each owning `ReadBuf`, by its address. -/
def ownedIds (s : St) : List Nat := s.owned.map (fun o => o.off / s.bs)

def holderIds (s : St) : List Nat :=
  match s.holder with
  | some h => if h.pc = .stored then [] else [h.rel.bid]
  | none => []

/-- Buffers held by release calls that have not published them yet. -/
def relIds (s : St) : List Nat := s.waiting.map (·.bid) ++ holderIds s

/-- `[relStart, relLock, relLoad, relWrite, relStore, relUnlock]`: one whole
`release` call without interleaving. -/
def releaseSeq (rb tid : Nat) : List Act :=
  [.relStart rb tid, .relLock tid, .relLoad, .relWrite, .relStore, .relUnlock]

/-- Apply an action if it is enabled. -/
def St.act (s : St) (a : Act) : St := (step s a).getD s

def St.acts (s : St) (as : List Act) : St := as.foldl St.act s

/-! ## (B) Operations reading into pool buffers -/

inductive Kind where
  /-- `AsyncFd::read(buf)` with `buf : ReadBuf` (io.rs:325-383) -/
  | read
  /-- `AsyncFd::recv(buf, flags)` (net.rs:220-266) -/
  | recv
  /-- `AsyncFd::recv_from(buf)` with `buf : ReadBuf` (RECVMSG with one iovec, io_uring/net.rs:350-393) -/
  | recvfrom
  /-- `AsyncFd::multishot_read(pool)` (io.rs:385-415) -/
  | mread
  /-- `AsyncFd::multishot_recv(pool, flags)` (net.rs:270-304) -/
  | mrecv
  deriving Repr, DecidableEq

def Kind.multi : Kind → Bool
  | .read | .recv | .recvfrom => false
  | .mread | .mrecv => true

def Kind.opcode : Kind → String
  | .read => "READ"
  | .recv => "RECV"
  | .recvfrom => "RECVMSG"
  | .mread => "READ_MULTISHOT"
  | .mrecv => "RECV"

structure POp where
  kind : Kind
  op : Op
  /-- single-shot: handle of the `ReadBuf` moved into the operation -/
  rb : Nat := 0
  /-- the current submission carries `IOSQE_BUFFER_SELECT` -/
  select : Bool := false
  deriving Repr, DecidableEq

/-- Where a `ReadBuf` handle is. -/
inductive RbSt where
  /-- the caller has it -/
  | live
  /-- moved into an operation (its resources) -/
  | moved
  /-- dropped -/
  | gone
  deriving Repr, DecidableEq

inductive SqE where
  | op (i : Nat)
  | cancel (i : Nat)
  deriving Repr, DecidableEq

structure Cqe where
  /-- `none`: reserved `user_data` (answer to a cancel request) -/
  i : Option Nat
  res : Int
  flags : Nat
  deriving Repr, DecidableEq

structure Sys where
  pool : St
  ops : List POp := []
  rbs : List RbSt := []
  sq : List SqE := []
  inflight : List Nat := []
  cq : List Cqe := []
  /-- `prel` happened, `order` has not -/
  pendingOrder : Bool := false
  deriving Repr, DecidableEq

def ENOBUFS : Int := 105
def ENOENT : Int := 2

/-- `CompletionFlags::buf_id` (op.rs:399-405). -/
def bufId (flags : Nat) : Option Nat :=
  if Res.hasBuf flags then some (flags / 65536 % 65536) else none

/-- Flags of a completion carrying buffer `bid`. -/
def mkFlags (bid : Option Nat) (more : Bool) : Nat :=
  (match bid with | some b => 1 + b * 65536 | none => 0) + (if more then 2 else 0)

/-- Buffer ids in a result container that has not been consumed.
`valid` = the single-shot slot holds a real result (status `Done`). -/
def resultBufs (r : Results) (valid : Bool) : List Nat :=
  match r with
  | .single x => if valid then (bufId x.flags).toList else []
  | .multi q => q.filterMap (fun x => bufId x.flags)

def statusBufs : Status → List Nat
  | .running r => resultBufs r false
  | .done r => resultBufs r true
  | _ => []

/-- The main thread's id in release calls made by the system layer. -/
def MAIN : Nat := 1000000

/-- `ReadBuf::release` / `Drop` of handle `rb` run to completion on thread `tid`. -/
def St.release (p : St) (rb tid : Nat) : St := p.acts (releaseSeq rb tid)

def Sys.setOp (s : Sys) (i : Nat) (o : POp) : Sys := { s with ops := s.ops.set i o }
def Sys.setRb (s : Sys) (j : Nat) (st : RbSt) : Sys := { s with rbs := s.rbs.set j st }

/-- What an op prints about ring entries published since `old`. -/
def pubLines (old new : St) : List String :=
  let n := (new.tail + 65536 - old.tail) % 65536
  (List.range n).map (fun k =>
    let t := (old.tail + k) % 65536
    let e := entryAt new.ring (slot t new.ps)
    s!"pub slot={slot t new.ps} bid={e.bid} off={e.off} tail={(t + 1) % 65536}")

/-- The resources of a single-shot operation are dropped: its `ReadBuf`
releases the buffer it owns (if any) and is gone. -/
def Sys.dropResources (s : Sys) (o : POp) : Sys :=
  if o.kind.multi then s
  else { s with pool := s.pool.release o.rb MAIN, rbs := s.rbs.set o.rb .gone }

def Sys.loseAll (s : Sys) (bids : List Nat) : Sys :=
  { s with pool := s.pool.acts (bids.map .lose) }

/-- Result of a `EINTR`/`ECANCELED` final completion that `poll_inner`
discards when it restarts the operation (op.rs:914-932). -/
def restartLoss (o : Op) : List Nat :=
  match o.status with
  | .done r =>
    match r.next with
    | some (x, r') =>
      if x.res < 0 ∧ (-x.res = EINTR ∨ -x.res = ECANCELED) ∧ !(o.multi && r'.hasNext) then
        (bufId x.flags).toList
      else []
    | none => []
  | _ => []

def showOff (p : St) (rb : Nat) : String :=
  match findRb p.owned rb with
  | some o => s!"off={o.off} len={o.len}"
  | none => "off=- len=0"

/-- `Future::poll` / `poll_next` of operation `i`. -/
def Sys.poll (s : Sys) (i : Nat) : Sys × List String :=
  match s.ops[i]? with
  | none => (s, ["bad-op"])
  | some po =>
    if !po.op.futLive then (s, ["bad-op"]) else
    let old := s.pool
    let lossR := restartLoss po.op
    let (o', out, effs) := po.op.poll 0 true
    let s := s.loseAll lossR
    -- a (re)submission decides between buffer selection and the owned buffer's
    -- spare capacity (`BufMut::parts`, read_buf.rs:392-401)
    let owned := findRb s.pool.owned po.rb
    let submitted := effs.contains .submit
    let sel := if submitted then (po.kind.multi || owned.isNone) else po.select
    let po' : POp := { po with op := o', select := sel }
    let s := s.setOp i po'
    let s := if submitted then { s with sq := s.sq ++ [.op i] } else s
    let sqeLine := if submitted then
        [match po.kind.multi, owned with
         | false, some o => s!"sqe {po.kind.opcode} addr={o.off + o.len} len={s.pool.bs - o.len}"
         | _, _ => s!"sqe {po.kind.opcode} select"]
      else []
    match out with
    | .pending => (s, "pending" :: sqeLine)
    | .panic => (s, ["panic"])
    | .readyNone => (s, ["ready none"])
    | .readyOk x =>
      let n := x.res.toNat
      if po.kind.multi then
        -- `map_next` (io.rs:404-414): a new ReadBuf
        let j := s.rbs.length
        let s := { s with rbs := s.rbs ++ [.live] }
        match bufId x.flags with
        | some b =>
          let s := { s with pool := s.pool.act (.deliver b j n) }
          (s, [s!"ready ok rb{j} {showOff s.pool j}"])
        | none => (s, [s!"ready ok rb{j} {showOff s.pool j}"])
      else
        -- `map_ok` (io.rs:357-369): `buffer_init` / `set_init` on the moved-in ReadBuf
        let j := po.rb
        let s := s.setRb j .live
        let s :=
          match findRb s.pool.owned j, bufId x.flags with
          -- read_buf.rs:405-409 / 367-373: an owned buffer only grows (a
          -- submission without buffer selection never gets an id)
          | some o, _ => { s with pool := s.pool.act (.edit j (o.len + n)) }
          | none, some b => { s with pool := s.pool.act (.deliver b j n) }
          | none, none => s
        (s, [s!"ready ok rb{j} {showOff s.pool j}"] ++ pubLines old s.pool)
    | .readyErr e =>
      -- the failed result's buffer id (if any) is dropped with the result
      let lossE :=
        match po.op.status with
        | .running r | .done r =>
          match r.next with
          | some (x, _) => (bufId x.flags).toList
          | none => []
        | _ => []
      let s := s.loseAll lossE
      -- single-shot: `fallback` takes the resources by value and drops them
      let s := if po.kind.multi then s else s.dropResources po
      (s, [s!"ready err {e}"] ++ pubLines old s.pool)

/-- Drop of operation `i`'s future (`State::drop`, op.rs:182-205). -/
def Sys.dropOp (s : Sys) (i : Nat) : Sys × List String :=
  match s.ops[i]? with
  | none => (s, ["bad-op"])
  | some po =>
    if !po.op.futLive then (s, ["bad-op"]) else
    let old := s.pool
    let (o', effs) := po.op.dropFut true
    -- results that nobody will read any more
    let s := s.loseAll (statusBufs po.op.status)
    let s := s.setOp i { po with op := o' }
    let s := if effs.contains .cancel then { s with sq := s.sq ++ [.cancel i] } else s
    -- `drop_state` (op.rs:243-261) drops the resources unless `Complete`
    let freed := effs.contains .free
    let s := if freed && po.op.resInit then s.dropResources po else s
    ((s, [if effs.contains .cancel then "cancel" else "-"] ++ pubLines old s.pool))

/-- The kernel posts a completion for `i`'s in-flight submission. `buf`: a
buffer is selected from the group and its id attached. -/
def Sys.kpost (s : Sys) (i : Nat) (res : Int) (more buf : Bool) : Sys × List String :=
  match s.ops[i]? with
  | none => (s, ["miss"])
  | some po =>
    if !s.inflight.contains i then (s, ["miss"]) else
    if s.cq.length ≥ 64 then (s, ["cq-full"]) else
    -- `F_MORE` only on multishot submissions (KC2)
    if more && !po.kind.multi then (s, ["bad-op"]) else
    if buf then
      if !po.select then (s, ["bad-op"]) else
      if res > (s.pool.bs : Int) then (s, ["bad-op"]) else
      match step s.pool .kselect with
      | none =>
        -- simk: no buffer available: final `-ENOBUFS`
        ({ s with inflight := s.inflight.erase i,
                  cq := s.cq ++ [⟨some i, -ENOBUFS, 0⟩] }, ["enobufs"])
      | some p' =>
        let b := (entryAt s.pool.ring (slot s.pool.khead s.pool.ps)).bid
        let s := { s with pool := p', cq := s.cq ++ [⟨some i, res, mkFlags (some b) more⟩] }
        let s := if more then s else { s with inflight := s.inflight.erase i }
        (s, [s!"posted bid={b}"])
    else
      -- data of a read without buffer selection goes to the submitted address
      let spare := match findRb s.pool.owned po.rb with
        | some o => s.pool.bs - o.len
        | none => 0
      if res > 0 ∧ (po.select ∨ res > (spare : Int)) then (s, ["bad-op"]) else
      let s := { s with cq := s.cq ++ [⟨some i, res, mkFlags none more⟩] }
      let s := if more then s else { s with inflight := s.inflight.erase i }
      (s, ["posted"])

/-- The kernel consumes every published submission (KC1); a cancel request
whose target is not in flight is answered with `-ENOENT` (KC5). -/
def Sys.consumeAll (s : Sys) : Sys :=
  let s' := s.sq.foldl (fun (s : Sys) e =>
    match e with
    | .op i => { s with inflight := s.inflight ++ [i] }
    | .cancel i =>
      if s.inflight.contains i then s
      else { s with cq := s.cq ++ [⟨none, -ENOENT, 0⟩] }) s
  { s' with sq := [] }

/-- `Completion::process` (cq.rs:181-242) + `Shared::update` (op.rs:268-312). -/
def Sys.process (acc : Sys × List Nat) (c : Cqe) : Sys × List Nat :=
  let (s, frees) := acc
  match c.i with
  | none => (s, frees)
  | some i =>
    match s.ops[i]? with
    | none => (s, frees)
    | some po =>
      match po.op.update ⟨c.res, c.flags⟩ with
      | none => (s, frees)
      | some (o', effs) =>
        -- op.rs:300-309: in status `Dropped` the completion's buffer id is ignored
        let s := if po.op.status = .dropped then s.loseAll (bufId c.flags).toList else s
        let s := s.setOp i { po with op := o' }
        if effs.contains .free then
          (if po.op.resInit then s.dropResources po else s, frees ++ [i])
        else (s, frees)

/-- `Ring::poll(Some(0))` (cq.rs:58-101): enters the kernel only when no
completion is ready. -/
def Sys.rpoll (s : Sys) : Sys × List String :=
  let old := s.pool
  let (s, first) :=
    if s.cq.isEmpty then
      let n := s.sq.length
      (s.consumeAll, s!"enter submit={n}")
    else (s, "noenter")
  let (s', _) := s.cq.foldl Sys.process (s, [])
  let s' := { s' with cq := [] }
  (s', [first] ++ pubLines old s'.pool)

/-- The editing calls as far as the length is concerned (read_buf.rs:189-300;
contents are C15's subject). `none` = panic, `some none` = `Err(())`. -/
inductive Edit where
  | truncate (n : Nat)
  | clear
  | setLen (n : Nat)
  | extend (k : Nat)
  | remove (a b : Nat)
  deriving Repr, DecidableEq

inductive EditRes where
  | len (n : Nat)
  | err
  | panic
  deriving Repr, DecidableEq

def editLen (bs : Nat) (cur : Option Nat) : Edit → EditRes
  | .truncate n =>
    match cur with
    | some len => if n > len then .len len else .len n
    | none => .len 0
  | .clear => .len 0
  | .setLen n =>
    -- read_buf.rs:268 `debug_assert!(new_len <= self.capacity())`
    if n > bs then .panic else
    match cur with
    | some _ => .len n
    | none => .len 0
  | .extend k =>
    match cur with
    | some len => if len + k > bs then .err else .len (len + k)
    | none => .err
  | .remove a b =>
    match cur with
    | some len => if a > b then .panic else if b > len then .panic else .len (len - (b - a))
    | none => if a ≠ 0 ∨ b ≠ 0 then .panic else .len 0

def Sys.edit (s : Sys) (j : Nat) (e : Edit) : Sys × List String :=
  if s.rbs[j]? ≠ some .live then (s, ["bad-op"]) else
  let cur := (findRb s.pool.owned j).map (·.len)
  match editLen s.pool.bs cur e with
  | .panic => (s, ["panic"])
  | .err => (s, ["err"])
  | .len n =>
    let s := if cur.isSome then { s with pool := s.pool.act (.edit j n) } else s
    (s, [s!"ok {showOff s.pool j}"])

/-- `ReadBuf::release` (`drop = false`) or drop of the handle, on the calling thread. -/
def Sys.releaseRb (s : Sys) (j : Nat) (drop : Bool) : Sys × List String :=
  if s.rbs[j]? ≠ some .live then (s, ["bad-op"]) else
  let old := s.pool
  let s := { s with pool := s.pool.release j MAIN }
  let s := if drop then s.setRb j .gone else s
  let l := pubLines old s.pool
  (s, if l.isEmpty then ["-"] else l)

/-- Several handles dropped at the same time, each on its own thread: every
thread has taken its pointer, none has the lock yet. -/
def Sys.prel (s : Sys) (js : List Nat) : Sys × List String :=
  if js.isEmpty ∨ !js.all (fun j => s.rbs[j]? = some .live) ∨ !js.Nodup then (s, ["bad-op"]) else
  let n := (js.filter (fun j => (findRb s.pool.owned j).isSome)).length
  let p := s.pool.acts (js.map (fun j => .relStart j j))
  let s := { s with pool := p, rbs := js.foldl (fun r j => r.set j .gone) s.rbs,
                    pendingOrder := true }
  (s, [s!"prel n={n}"])

def critSeq (tid : Nat) : List Act := [.relLock tid, .relLoad, .relWrite, .relStore, .relUnlock]

/-- The order in which the threads of the last `prel` went through the
critical section, as ids. -/
def Sys.order (s : Sys) (bids : List Nat) : Sys × List String :=
  if !s.pendingOrder then (s, ["bad-op"]) else
  let want := s.pool.waiting.map (·.bid)
  if !(bids.isPerm want) then (s, ["bad-op"]) else
  let old := s.pool
  let p := bids.foldl (fun (p : St) b =>
    match p.waiting.find? (fun r => r.bid = b) with
    | some r => p.acts (critSeq r.tid)
    | none => p) s.pool
  let s := { s with pool := p, pendingOrder := false }
  let l := pubLines old s.pool
  (s, if l.isEmpty then ["-"] else l)

/-- `n` times: `fd.read(pool.get())`, completed by the kernel with a selected
buffer, the resulting `ReadBuf` dropped. -/
def cycleLoop (p : St) : Nat → Nat → Nat → Nat → Nat → St × Nat × Nat × Nat
  | 0, _, ok, nobufs, last => (p, ok, nobufs, last)
  | n + 1, j, ok, nobufs, last =>
    match step p .kselect with
    | none => cycleLoop p n j ok (nobufs + 1) last
    | some p1 =>
      let b := (entryAt p.ring (slot p.khead p.ps)).bid
      let p2 := (p1.act (.deliver b j 1)).release j MAIN
      cycleLoop p2 n j (ok + 1) nobufs b

def Sys.cycle (s : Sys) (n : Nat) : Sys × List String :=
  if !s.cq.isEmpty ∨ !s.sq.isEmpty then (s, ["bad-op"]) else
  -- a handle number no ReadBuf of the script uses
  let (p, ok, nobufs, last) := cycleLoop s.pool n (MAIN + 1) 0 0 0
  ({ s with pool := p }, [s!"cycled ok={ok} enobufs={nobufs} tail={p.tail} last={last}"])

def checksum (ids : List Nat) : Nat :=
  (ids.foldl (fun (acc : Nat × Nat) b => ((acc.1 * 31 + b + 1) % 1000000007, acc.2 + 1)) (7, 0)).1

def showRing (p : St) : String :=
  let ids := availIds p
  if ids.length ≤ 64 then s!"tail={p.tail} khead={p.khead} avail={showNatList ids}"
  else s!"tail={p.tail} khead={p.khead} n={ids.length} sum={checksum ids}"

/-- Ids below `ps` that the kernel cannot select. -/
def missing (p : St) : List Nat :=
  let marks := (availIds p).foldl (fun (a : Array Bool) b => a.setIfInBounds b true)
    (Array.replicate p.ps false)
  (List.range p.ps).filter (fun b => !(marks.getD b false))

/-- End of a case: every future is dropped, the kernel finishes what is in
flight with `-ECANCELED`, every `ReadBuf` is dropped. -/
def Sys.finish (s : Sys) : Sys × List String :=
  let s := (List.range s.ops.length).foldl (fun (s : Sys) i =>
    match s.ops[i]? with
    | some po => if po.op.futLive then (s.dropOp i).1 else s
    | none => s) s
  -- the first call may find completions and not enter; the second one submits
  let s := s.rpoll.1
  let s := s.rpoll.1
  let s := { s with cq := s.cq ++ s.inflight.map (fun i => (⟨some i, -ECANCELED, 0⟩ : Cqe)), inflight := [] }
  let s := s.rpoll.1
  let s := (List.range s.rbs.length).foldl (fun (s : Sys) j =>
    if s.rbs[j]? = some .live then (s.releaseRb j true).1 else s) s
  let m := missing s.pool
  (s, [showRing s.pool, s!"missing={showNatList (if m.length ≤ 64 then m else m.take 64)} n={m.length}"])

/-- The typed operations of a script. -/
inductive SOp where
  | get
  | new (i : Nat) (k : Kind) (rb : Nat)
  | poll (i : Nat)
  | drop (i : Nat)
  | kpost (i : Nat) (res : Int) (more buf : Bool)
  | rpoll
  | edit (j : Nat) (e : Edit)
  | release (j : Nat)
  | rbdrop (j : Nat)
  | prel (js : List Nat)
  | order (bids : List Nat)
  | cycle (n : Nat)
  | ring
  | finish
  deriving Repr, DecidableEq

def SOp.isOrder : SOp → Bool
  | .order _ => true
  | _ => false

/-- One op, without the rule that `order` must follow `prel`. -/
def sysCore (s : Sys) (op : SOp) : Sys × List String :=
  match op with
  | .get =>
    -- `ReadBufPool::get` (read_buf.rs:73-78)
    ({ s with rbs := s.rbs ++ [.live] }, [s!"rb{s.rbs.length}"])
  | .new i k rb =>
    if i ≠ s.ops.length then (s, ["bad-op"]) else
    if k.multi then
      ({ s with ops := s.ops ++ [{ kind := k, op := { multi := true } }] }, ["ok"])
    else if s.rbs[rb]? = some .live then
      ({ s with ops := s.ops ++ [{ kind := k, op := { multi := false }, rb := rb }],
                rbs := s.rbs.set rb .moved }, ["ok"])
    else (s, ["bad-op"])
  | .poll i => s.poll i
  | .drop i => s.dropOp i
  | .kpost i res more buf => s.kpost i res more buf
  | .rpoll => s.rpoll
  | .edit j e => s.edit j e
  | .release j => s.releaseRb j false
  | .rbdrop j => s.releaseRb j true
  | .prel js => s.prel js
  | .order bids => s.order bids
  | .cycle n => s.cycle n
  | .ring => (s, [showRing s.pool])
  | .finish => s.finish

/-- One op of a script. After `prel` only `order` is accepted. -/
def sysStep (s : Sys) (op : SOp) : Sys × List String :=
  if s.pendingOrder && !op.isOrder then (s, ["bad-op"]) else sysCore s op

def runSys (s : Sys) : List SOp → Sys
  | [] => s
  | op :: ops => runSys (sysStep s op).1 ops

def initSys (ps bs t0 : Nat) : Sys := { pool := init ps bs t0 }

/-! ### Line protocol -/

def parseKind (k : String) : Option Kind :=
  if k == "read" then some .read
  else if k == "recv" then some .recv
  else if k == "recvfrom" then some .recvfrom
  else if k == "mread" then some .mread
  else if k == "mrecv" then some .mrecv
  else none

def parseBool (s : String) : Option Bool :=
  if s == "0" then some false else if s == "1" then some true else none

def parseOp (toks : List String) : Option SOp :=
  match toks with
  | ["pool", "get"] => some .get
  | ["pool", "new", i, k] => do
    let i ← parseNat i
    let k ← parseKind k
    if k.multi then pure (.new i k 0) else none
  | ["pool", "new", i, k, rb] => do
    let i ← parseNat i
    let k ← parseKind k
    let rb ← parseNat rb
    if k.multi then none else pure (.new i k rb)
  | ["pool", "poll", i] => do pure (.poll (← parseNat i))
  | ["pool", "drop", i] => do pure (.drop (← parseNat i))
  | ["pool", "kpost", i, res, more, buf] => do
    pure (.kpost (← parseNat i) (← parseInt res) (← parseBool more) (← parseBool buf))
  | ["pool", "rpoll"] => some .rpoll
  | ["pool", "edit", j, "truncate", n] => do pure (.edit (← parseNat j) (.truncate (← parseNat n)))
  | ["pool", "edit", j, "clear"] => do pure (.edit (← parseNat j) .clear)
  | ["pool", "edit", j, "setlen", n] => do pure (.edit (← parseNat j) (.setLen (← parseNat n)))
  | ["pool", "edit", j, "extend", n] => do pure (.edit (← parseNat j) (.extend (← parseNat n)))
  | ["pool", "edit", j, "remove", a, b] => do
    pure (.edit (← parseNat j) (.remove (← parseNat a) (← parseNat b)))
  | ["pool", "release", j] => do pure (.release (← parseNat j))
  | ["pool", "rbdrop", j] => do pure (.rbdrop (← parseNat j))
  -- the `ReadBuf` dropped by an unwinding panic (caught further up): `Drop` is `Drop`
  | ["pool", "rbdropp", j] => do pure (.rbdrop (← parseNat j))
  | ["pool", "prel", js] => do
    let js ← parseNatList js
    pure (.prel js)
  | ["pool", "order", bs] => do
    let bs ← parseNatList bs
    pure (.order bs)
  | ["pool", "cycle", n] => do pure (.cycle (← parseNat n))
  | ["pool", "ring"] => some .ring
  | ["pool", "end"] => some .finish
  | _ => none

/-! ### Buffer group ids (`ReadBufPool::new` / `Drop`)

Every pool registers its buffer ring under a group id taken from a process-wide 16-bit counter
(`static ID`, src/io_uring/io.rs:43-53). The kernel refuses an id that is registered on the
ring (`EEXIST`). -/

/-- The buffer groups registered on one ring. -/
structure Reg where
  live : List Nat := []
  deriving Repr, DecidableEq

/-- `IORING_REGISTER_PBUF_RING`. -/
def Reg.register (r : Reg) (id : Nat) : Reg × Bool :=
  if id ∈ r.live then (r, false) else ({ live := id :: r.live }, true)

/-- `IORING_UNREGISTER_PBUF_RING` (`Drop for ReadBufPool`). -/
def Reg.unregister (r : Reg) (id : Nat) : Reg := { live := r.live.erase id }

/-- `ReadBufPool::new` with the counter at `c` (ids are `c mod m`, `m = 2^16`): the counter
advances whether or not the registration succeeds; when it fails the ring memory is given back
and the error returned — no pool value exists yet, so no `Drop` runs and nothing is
unregistered (io.rs:79-86). -/
def newPool (r : Reg) (c m : Nat) : Reg × Nat × Option Nat :=
  match r.register (c % m) with
  | (r', true) => (r', c + 1, some (c % m))
  | (r', false) => (r', c + 1, none)

/-- Create and drop pools until a creation fails: registry, counter, number created, whether
one failed. -/
def churn (r : Reg) (c m : Nat) : Nat → Nat → Reg × Nat × Nat × Bool
  | 0, k => (r, c, k, false)
  | fuel + 1, k =>
    match newPool r c m with
    | (r', c', some id) => churn (r'.unregister id) c' m fuel (k + 1)
    | (r', c', none) => (r', c', k, true)

/-- `pool idwrap`: a pool stays alive while pools are created and dropped on the same ring
until the counter comes round to its id. -/
def idwrapLine (m : Nat) : String :=
  match newPool {} 0 m with
  | (r0, c0, a) =>
    match churn r0 c0 m (m + 8) 0 with
    | (r, _, k, hit) =>
      let live := match a with | some a => decide (a ∈ r.live) | none => false
      s!"idwrap created={k} collided={if hit then 1 else 0} errno=EEXIST live={if live then 1 else 0} read=ok"

/-- `none` before the first `begin`. -/
abbrev LSt := Option Sys

def stepLine (st : LSt) (toks : List String) : LSt × List String :=
  match toks with
  | "pool" :: "begin" :: _ :: rest =>
    match findNat "ps" rest, findNat "bs" rest, findNat "t0" rest with
    | some ps, some bs, some t0 =>
      -- `ReadBufPool::new` (read_buf.rs:54-62): a power of two, at most 2^15
      if ps = 0 ∨ bs = 0 ∨ ps > 32768 ∨ ps &&& (ps - 1) ≠ 0 ∨ ps * bs > 17179869184 ∨ bs ≥ 2147483648 then (none, [])
      else (some (initSys ps bs t0), [])
    | _, _, _ => (none, [])
  | ["pool", "xring"] =>
    -- A fresh `ReadBuf` of this pool used for a read on a descriptor of ANOTHER ring (which has a
    -- pool of the same shape): buffer group ids are process-wide unique (`static ID`, io.rs:37-39),
    -- so the other ring has no group with this pool's id and the kernel answers ENOBUFS; the
    -- unowned `ReadBuf` is dropped with the failed operation and this pool is untouched.
    match st with
    | some s =>
      if s.pool.ps * s.pool.bs ≤ 8388608 ∧ !s.pendingOrder then (st, ["xring err ENOBUFS"])
      else (st, ["bad-op"])
    | none => (st, ["bad-op"])
  | ["pool", "resv"] =>
    -- A release parked between writing its ring entry and storing the tail (second ring, two
    -- buffers, both handed out: the entry goes into slot 0, whose `resv` field is the tail word):
    -- nothing is published yet, so a kernel that selects buffers now finds the ring empty — the
    -- entry write must leave the tail word as it is (fix: `resv` of slot 0 carries the tail).
    match st with
    | some s =>
      if s.pool.ps * s.pool.bs ≤ 8388608 ∧ !s.pendingOrder then (st, ["resv parked=1 selected=-"])
      else (st, ["bad-op"])
    | none => (st, ["bad-op"])
  | ["pool", "idwrap"] =>
    -- The group id counter wraps while a pool is alive (second ring): the creation that gets the
    -- live pool's id fails with EEXIST and must leave that pool registered and usable.
    match st with
    | some s =>
      if s.pool.ps * s.pool.bs ≤ 8388608 ∧ !s.pendingOrder then (st, [idwrapLine 65536])
      else (st, ["bad-op"])
    | none => (st, ["bad-op"])
  | ["pool", "lone"] =>
    -- A `ReadBuf` that outlives every handle of its (second-ring, two-buffer) pool: `release` still
    -- gives its buffer back (`Shared` lives as long as the `ReadBuf`: read_buf.rs:318-334), so the
    -- kernel is offered both buffers again and the `ReadBuf` can be used for another read.
    match st with
    | some s =>
      if s.pool.ps * s.pool.bs ≤ 8388608 ∧ !s.pendingOrder then (st, ["lone avail=2 reuse=ok"])
      else (st, ["bad-op"])
    | none => (st, ["bad-op"])
  | _ =>
    match st, parseOp toks with
    | some s, some op => let (s', o) := sysStep s op; (some s', o)
    | _, _ => (st, ["bad-op"])

end A10.Pool
