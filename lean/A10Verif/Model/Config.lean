/-
Model of `Config::build` (src/config.rs:17-25): the construction of a `Ring`.

Transcribed as the straight-line program of
* the builder methods and `build_sys` (src/io_uring/config.rs:46-295),
* `check_feature!` (src/io_uring/config.rs:297-310),
* `Shared::new` / `Drop for Shared` / `mmap` / `munmap`
  (src/io_uring/mod.rs:92-140, 271-287, 295-325),
* `Completions::new` / `Drop for Completions` (src/io_uring/cq.rs:29-56, 148-159),

with every call into the kernel an explicit parameter (`Answers`): the answer of
`io_uring_setup` (errno, or ring fd + echoed parameter block), of the three
`mmap`s and three `madvise`s and of the `IORING_REGISTER_FILES2` registration.
Every system call is appended to a trace and applied to a ledger of the
descriptors and memory mappings the process holds.

Arithmetic follows the dev profile of the pinned suite: `u32` overflow in the
two length computations panics (the panic unwinds through the same destructors
as an error return). `munmap`/`close` are assumed to succeed (their errors are
only logged by the code).
-/
import A10Verif.Model.Basic

namespace A10.Config

/-! ### Configuration and the builder methods -/

/-- `io_uring::config::Config` (src/io_uring/config.rs:11-25). `attach` holds the
ring descriptor of the queue to attach to. -/
structure Cfg where
  sq : Nat := 32
  cq : Option Nat := none
  disabled : Bool := false
  singleIssuer : Bool := false
  deferTaskrun : Bool := false
  clamp : Bool := false
  kernelThread : Bool := false
  cpu : Option Nat := none
  idle : Option Nat := none
  direct : Option Nat := none
  attach : Option Nat := none
  deriving Repr, DecidableEq

/-- `Config::new` (config.rs:28-42). -/
def Cfg.new : Cfg := {}

/-- One call of a builder method of the public `a10::Config`. -/
inductive Call where
  /-- `with_submission_queue_size` (config.rs:54-57). -/
  | sq (n : Nat)
  /-- `with_completion_queue_size` (config.rs:67-70). -/
  | cq (n : Nat)
  /-- `with_maximum_queue_size` (config.rs:74-78). -/
  | max
  /-- `single_issuer` (config.rs:101-104). -/
  | singleIssuer
  /-- `defer_task_run` (config.rs:122-125). -/
  | deferTaskRun
  /-- `with_kernel_thread` (config.rs:133-136). -/
  | kernelThread
  /-- `with_cpu_affinity` (config.rs:145-148). -/
  | cpu (c : Nat)
  /-- `with_idle_timeout` (config.rs:163-176); the argument is `Duration::as_millis`. -/
  | idle (millis : Nat)
  /-- `with_direct_descriptors` (config.rs:187-190). -/
  | direct (n : Nat)
  /-- `disable` (config.rs:197-200). -/
  | disable
  /-- `attach` / `attach_queue` (config.rs:210-221); the other ring's descriptor. -/
  | attach (fd : Nat)
  deriving Repr, DecidableEq

def U32MAX : Nat := 4294967295

/-- The effect of one builder call. -/
def Cfg.call (c : Cfg) : Call → Cfg
  | .sq n => { c with sq := n }
  | .cq n => { c with cq := some n }
  | .max => { c with sq := U32MAX, clamp := true }
  | .singleIssuer => { c with singleIssuer := true }
  | .deferTaskRun => { c with deferTaskrun := true }
  | .kernelThread => { c with kernelThread := true }
  | .cpu n => { c with cpu := some n }
  | .idle ms => { c with idle := some (if ms > U32MAX then U32MAX else ms) }
  | .direct n => { c with direct := some n }
  | .disable => { c with disabled := true }
  | .attach fd => { c with attach := some fd }

/-- A chain of builder calls on `Ring::config()`. -/
def Cfg.calls (cs : List Call) : Cfg := cs.foldl Cfg.call Cfg.new

/-! ### The parameter block sent to `io_uring_setup` -/

/-- The fields of `io_uring_params` a10 fills in (everything else is zero). -/
structure Params where
  sqEntries : Nat
  cqEntries : Nat
  flags : Nat
  sqThreadCpu : Nat
  sqThreadIdle : Nat
  wqFd : Nat
  deriving Repr, DecidableEq

/-- `if b { 1 << k } else { 0 }`. -/
def bit (b : Bool) (k : Nat) : Nat := if b then 2 ^ k else 0

-- Bit numbers of the `IORING_SETUP_*` flags (src/io_uring/libc.rs:500-516).
def B_SQPOLL : Nat := 1
def B_SQ_AFF : Nat := 2
def B_CQSIZE : Nat := 3
def B_CLAMP : Nat := 4
def B_ATTACH_WQ : Nat := 5
def B_R_DISABLED : Nat := 6
def B_SUBMIT_ALL : Nat := 7
def B_COOP_TASKRUN : Nat := 8
def B_SINGLE_ISSUER : Nat := 12
def B_DEFER_TASKRUN : Nat := 13
def B_NO_SQARRAY : Nat := 16

/-- The flag word computed by `build_sys` (config.rs:226-264). -/
def setupFlags (c : Cfg) : Nat :=
  bit true B_SUBMIT_ALL ||| bit true B_NO_SQARRAY
    ||| bit c.kernelThread B_SQPOLL ||| bit (!c.kernelThread) B_COOP_TASKRUN
    ||| bit c.disabled B_R_DISABLED
    ||| bit c.singleIssuer B_SINGLE_ISSUER
    ||| bit c.deferTaskrun B_DEFER_TASKRUN
    ||| bit c.cq.isSome B_CQSIZE
    ||| bit c.clamp B_CLAMP
    ||| bit c.cpu.isSome B_SQ_AFF
    ||| bit c.attach.isSome B_ATTACH_WQ

/-- The parameter block of `build_sys` (config.rs:224-264). -/
def params (c : Cfg) : Params where
  sqEntries := c.sq
  cqEntries := c.cq.getD 0
  flags := setupFlags c
  sqThreadCpu := c.cpu.getD 0
  sqThreadIdle := c.idle.getD 0
  wqFd := c.attach.getD 0

/-! ### What the kernel answers -/

/-- A successful `io_uring_setup`: the ring descriptor and the fields of the
parameter block the kernel wrote back that a10 reads. -/
structure SetupOk where
  fd : Nat
  sqEntries : Nat
  cqEntries : Nat
  flags : Nat
  features : Nat
  /-- `sq_off.array` -/
  sqArray : Nat
  /-- `cq_off.cqes` -/
  cqCqes : Nat
  deriving Repr, DecidableEq

/-- Everything the kernel answers during one `build`. For the calls after setup
`none` is success and `some e` failure with errno `e`. -/
structure Answers where
  setup : Except Nat SetupOk
  mmap1 : Option Nat := none
  madv1 : Option Nat := none
  mmap2 : Option Nat := none
  madv2 : Option Nat := none
  mmap3 : Option Nat := none
  madv3 : Option Nat := none
  reg : Option Nat := none

/-! ### System calls, trace and ledger -/

/-- The three regions of a ring descriptor a10 maps (`IORING_OFF_SQ_RING`,
`IORING_OFF_SQES`, `IORING_OFF_CQ_RING`). -/
inductive Region where
  | sq | sqes | cq
  deriving Repr, DecidableEq

deriving instance DecidableEq for Except

/-- One system call with its answer. -/
inductive Sys where
  | setup (p : Params) (res : Except Nat Nat)
  | mmap (r : Region) (len : Nat) (res : Option Nat)
  | madvise (r : Region) (len : Nat) (res : Option Nat)
  | munmap (r : Region) (len : Nat)
  | register (nr flags nrArgs : Nat) (res : Option Nat)
  | close (fd : Nat)
  deriving Repr, DecidableEq

/-- Descriptors and mappings (region, length) the process holds. -/
structure Ledger where
  fds : List Nat := []
  maps : List (Region × Nat) := []
  deriving Repr, DecidableEq

def Ledger.empty : Ledger := {}

/-- The effect of a system call on the ledger. -/
def Ledger.apply (l : Ledger) : Sys → Ledger
  | .setup _ (.ok fd) => { l with fds := l.fds ++ [fd] }
  | .setup _ (.error _) => l
  | .mmap r len none => { l with maps := l.maps ++ [(r, len)] }
  | .mmap _ _ (some _) => l
  | .madvise _ _ _ => l
  | .munmap r _ => { l with maps := l.maps.filter (fun m => m.1 ≠ r) }
  | .register _ _ _ _ => l
  | .close fd => { l with fds := l.fds.filter (· ≠ fd) }

/-- Is the call legal in this ledger state? `mmap`/`register` need the ring
descriptor open, `madvise`/`munmap` an existing mapping of exactly that length,
`close` an open descriptor, and a region is mapped at most once. -/
def Ledger.legal (l : Ledger) (ringFd : Option Nat) : Sys → Bool
  | .setup _ _ => l.fds.isEmpty && l.maps.isEmpty
  | .mmap r _ _ =>
    (match ringFd with | some fd => l.fds.contains fd | none => false)
      && !(l.maps.any (fun m => m.1 = r))
  | .madvise r len _ => l.maps.contains (r, len)
  | .munmap r len => l.maps.contains (r, len)
  | .register _ _ _ _ => (match ringFd with | some fd => l.fds.contains fd | none => false)
  | .close fd => l.fds.contains fd

/-- Strict replay of a trace: `none` if some call was illegal at its point. -/
def replay (ringFd : Option Nat) : List Sys → Ledger → Option Ledger
  | [], l => some l
  | e :: es, l => if l.legal ringFd e then replay ringFd es (l.apply e) else none

/-- Running state of the model: trace so far (in order) and ledger. -/
structure St where
  trace : List Sys := []
  ledger : Ledger := {}
  deriving Repr, DecidableEq

/-- Perform a system call. -/
def St.sys (s : St) (e : Sys) : St := { trace := s.trace ++ [e], ledger := s.ledger.apply e }

/-! ### The values being built and their destructors -/

/-- `io_uring::Shared` (mod.rs:52-89): what `Drop` and the observers need. -/
structure Shared where
  fd : Nat
  sqRingLen : Nat
  /-- `submissions_len` -/
  sqLen : Nat
  kernelThread : Bool
  singleIssuer : Bool
  deriving Repr, DecidableEq

/-- `io_uring::Completions` (cq.rs:10-26). -/
structure Completions where
  ringLen : Nat
  /-- `entries_len` -/
  cqLen : Nat
  deriving Repr, DecidableEq

/-- The `Ring` handed to the caller (src/lib.rs:129-132). -/
structure Ring where
  sq : Shared
  cq : Completions
  deriving Repr, DecidableEq

inductive Err where
  /-- `io::Error::last_os_error()` -/
  | os (errno : Nat)
  /-- `ErrorKind::Unsupported` from `check_feature!`, with the feature's bit number. -/
  | unsupported (featureBit : Nat)
  deriving Repr, DecidableEq

/-- Result of a (partial) construction. -/
inductive Res (α : Type) where
  | ok (a : α)
  | err (e : Err)
  | panic
  deriving Repr, DecidableEq

/-- `Drop for OwnedFd`. -/
def dropFd (fd : Nat) (s : St) : St := s.sys (.close fd)

/-- `Drop for Shared` (mod.rs:271-287): unmap the submission entries
(`submissions_len * 64` bytes), the submission ring, then the field `rfd`. -/
def dropShared (sh : Shared) (s : St) : St :=
  dropFd sh.fd ((s.sys (.munmap .sqes (sh.sqLen * 64))).sys (.munmap .sq sh.sqRingLen))

/-- `Drop for Completions` (cq.rs:148-159). -/
def dropCompletions (c : Completions) (s : St) : St := s.sys (.munmap .cq c.ringLen)

/-- `u32` arithmetic with overflow checks (dev profile): `none` = panic. -/
def mul32 (a b : Nat) : Option Nat := if a * b < 4294967296 then some (a * b) else none
def add32 (a b : Nat) : Option Nat := if a + b < 4294967296 then some (a + b) else none

/-- `fn mmap` (mod.rs:295-317): `mmap(2)` followed by `madvise(MADV_DONTFORK)`;
if the latter fails the fresh mapping is unmapped again. -/
def mmapWrap (r : Region) (len : Nat) (aMmap aMadv : Option Nat) (s : St) : Except Nat Unit × St :=
  match aMmap with
  | some e => (.error e, s.sys (.mmap r len (some e)))
  | none =>
    let s := s.sys (.mmap r len none)
    match aMadv with
    | none => (.ok (), s.sys (.madvise r len none))
    | some e => (.error e, (s.sys (.madvise r len (some e))).sys (.munmap r len))

/-- `Shared::new` (mod.rs:92-140). Owns `rfd`: every exit that does not return
the `Shared` drops it. -/
def sharedNew (p : SetupOk) (a : Answers) (s : St) : Res Shared × St :=
  -- mod.rs:93-94 `sq_off.array + sq_entries * 4` in `u32`
  match mul32 p.sqEntries 4 with
  | none => (.panic, dropFd p.fd s)
  | some x =>
  match add32 p.sqArray x with
  | none => (.panic, dropFd p.fd s)
  | some ringLen =>
  -- mod.rs:95-101
  match mmapWrap .sq ringLen a.mmap1 a.madv1 s with
  | (.error e, s) => (.err (.os e), dropFd p.fd s)
  | (.ok (), s) =>
  -- mod.rs:103-113 (`usize` arithmetic, cannot overflow)
  let sqesLen := p.sqEntries * 64
  match mmapWrap .sqes sqesLen a.mmap2 a.madv2 s with
  | (.error e, s) =>
    -- `inspect_err`: unmap the submission ring; then `rfd` is dropped
    (.err (.os e), dropFd p.fd (s.sys (.munmap .sq ringLen)))
  | (.ok (), s) =>
  (.ok { fd := p.fd, sqRingLen := ringLen, sqLen := p.sqEntries,
         kernelThread := p.flags.testBit B_SQPOLL,
         singleIssuer := p.flags.testBit B_SINGLE_ISSUER }, s)

/-- `Completions::new` (cq.rs:29-56). Borrows the descriptor only. -/
def completionsNew (p : SetupOk) (a : Answers) (s : St) : Res Completions × St :=
  -- cq.rs:30-31 in `u32`
  match mul32 p.cqEntries 16 with
  | none => (.panic, s)
  | some entriesLen =>
  match add32 p.cqCqes entriesLen with
  | none => (.panic, s)
  | some ringLen =>
  match mmapWrap .cq ringLen a.mmap3 a.madv3 s with
  | (.error e, s) => (.err (.os e), s)
  | (.ok (), s) => (.ok { ringLen := ringLen, cqLen := p.cqEntries }, s)

-- Bit numbers of the required `IORING_FEAT_*` (libc.rs:584-590), in the order
-- they are checked (config.rs:269-272).
def F_NODROP : Nat := 1
def F_SUBMIT_STABLE : Nat := 2
def F_RW_CUR_POS : Nat := 3
def F_SQPOLL_NONFIXED : Nat := 7

def requiredFeatures : List Nat := [F_NODROP, F_SUBMIT_STABLE, F_RW_CUR_POS, F_SQPOLL_NONFIXED]

/-- The four `check_feature!` lines: the first missing required feature. -/
def missingFeature (features : Nat) : Option Nat :=
  requiredFeatures.find? (fun b => !features.testBit b)

/-- `size_of::<io_uring_rsrc_register>()` (libc.rs:212-218). -/
def RSRC_REGISTER_SIZE : Nat := 32
def RSRC_REGISTER_SPARSE : Nat := 1

/-- Outcome of a build: result, final ledger, all system calls made. -/
structure Run where
  result : Res Ring
  ledger : Ledger
  trace : List Sys
  deriving Repr, DecidableEq

def finish (r : Res Ring) (s : St) : Run := { result := r, ledger := s.ledger, trace := s.trace }

/-- `Config::build` (src/config.rs:21-24) = `build_sys` (config.rs:223-294) + `Ring { cq, sq }`. -/
def build (c : Cfg) (a : Answers) : Run :=
  let p := params c
  let s : St := {}
  match a.setup with
  | .error e => finish (.err (.os e)) (s.sys (.setup p (.error e)))
  | .ok k =>
  -- config.rs:266-268: the descriptor is an `OwnedFd` from here on
  let s := s.sys (.setup p (.ok k.fd))
  -- config.rs:269-272
  match missingFeature k.features with
  | some b => finish (.err (.unsupported b)) (dropFd k.fd s)
  | none =>
  -- config.rs:274
  match sharedNew k a s with
  | (.panic, s) => finish .panic s
  | (.err e, s) => finish (.err e) s
  | (.ok sh, s) =>
  -- config.rs:275-276; on failure `submissions` (the only `Arc<Shared>`) is dropped
  match completionsNew k a s with
  | (.panic, s) => finish .panic (dropShared sh s)
  | (.err e, s) => finish (.err e) (dropShared sh s)
  | (.ok cq, s) =>
  -- config.rs:278-291
  match c.direct with
  | none => finish (.ok { sq := sh, cq := cq }) s
  | some n =>
    match a.reg with
    | none =>
      finish (.ok { sq := sh, cq := cq })
        (s.sys (.register n RSRC_REGISTER_SPARSE RSRC_REGISTER_SIZE none))
    | some e =>
      -- locals are dropped in reverse order: `completions`, then `submissions`
      finish (.err (.os e))
        (dropShared sh (dropCompletions cq
          (s.sys (.register n RSRC_REGISTER_SPARSE RSRC_REGISTER_SIZE (some e)))))

/-! ### The simulated kernel's side of `io_uring_setup` (for the line protocol)

Sizing rules of `io_uring_setup(2)` as implemented by the harness's simulated
kernel (harness/src/simk.rs `sim_setup`). Used only to compute the answers for a
script line; the theorems quantify over all answers. -/

def MAX_ENTRIES : Nat := 32768
def MAX_CQ_ENTRIES : Nat := 65536
def EINVAL : Nat := 22

/-- Sizes granted for a parameter block, or `EINVAL`. -/
def kernelSizes (p : Params) : Except Nat (Nat × Nat) :=
  let clamp := p.flags.testBit B_CLAMP
  if p.sqEntries = 0 then .error EINVAL
  else if p.sqEntries > MAX_ENTRIES && !clamp then .error EINVAL
  else
    let sq := (if p.sqEntries > MAX_ENTRIES then MAX_ENTRIES else p.sqEntries).nextPowerOfTwo
    if p.flags.testBit B_CQSIZE then
      if p.cqEntries = 0 then .error EINVAL
      else if p.cqEntries > MAX_CQ_ENTRIES && !clamp then .error EINVAL
      else
        let cq := (if p.cqEntries > MAX_CQ_ENTRIES then MAX_CQ_ENTRIES else p.cqEntries).nextPowerOfTwo
        if cq < sq then .error EINVAL else .ok (sq, cq)
    else .ok (sq, 2 * sq)

/-- Scripted faults of one build. -/
structure Faults where
  setupErrno : Option Nat := none
  features : Nat
  /-- fail the `n`-th (0-based) `mmap` of the ring descriptor -/
  mmapFail : Option (Nat × Nat) := none
  madvFail : Option (Nat × Nat) := none
  regFail : Option Nat := none
  /-- report these sizes instead of the granted ones -/
  echoSq : Option Nat := none
  echoCq : Option Nat := none

def nthFail (f : Option (Nat × Nat)) (n : Nat) : Option Nat :=
  match f with
  | some (k, e) => if k = n then some e else none
  | none => none

/-- Symbolic descriptor number of the new ring (never printed). -/
def RING_FD : Nat := 100

/-- The answers the simulated kernel gives to `params c` under `f`. -/
def simAnswers (p : Params) (f : Faults) : Answers :=
  let setup : Except Nat SetupOk :=
    match f.setupErrno with
    | some e => .error e
    | none =>
      match kernelSizes p with
      | .error e => .error e
      | .ok (sq, cq) =>
        .ok { fd := RING_FD, sqEntries := f.echoSq.getD sq, cqEntries := f.echoCq.getD cq,
              flags := p.flags, features := f.features, sqArray := 0, cqCqes := 64 }
  { setup := setup
    mmap1 := nthFail f.mmapFail 0, mmap2 := nthFail f.mmapFail 1, mmap3 := nthFail f.mmapFail 2
    madv1 := nthFail f.madvFail 0, madv2 := nthFail f.madvFail 1, madv3 := nthFail f.madvFail 2
    reg := f.regFail }

/-! ### Line protocol -/

/-- `util::errno_name` of the harness. -/
def errnoName (e : Nat) : String :=
  match e with
  | 1 => "EPERM" | 2 => "ENOENT" | 4 => "EINTR" | 5 => "EIO" | 6 => "ENXIO" | 9 => "EBADF"
  | 11 => "EAGAIN" | 12 => "ENOMEM" | 13 => "EACCES" | 14 => "EFAULT" | 16 => "EBUSY"
  | 17 => "EEXIST" | 22 => "EINVAL" | 32 => "EPIPE" | 62 => "ETIME" | 95 => "EOPNOTSUPP"
  | 104 => "ECONNRESET" | 105 => "ENOBUFS" | 114 => "EALREADY" | 125 => "ECANCELED"
  | n => s!"E{n}"

def featureName (b : Nat) : String :=
  match b with
  | 1 => "IORING_FEAT_NODROP"
  | 2 => "IORING_FEAT_SUBMIT_STABLE"
  | 3 => "IORING_FEAT_RW_CUR_POS"
  | 7 => "IORING_FEAT_SQPOLL_NONFIXED"
  | n => s!"bit{n}"

def regionName : Region → String
  | .sq => "sq" | .sqes => "sqes" | .cq => "cq"

def showAns : Option Nat → String
  | none => "ok"
  | some e => errnoName e

def b01 (b : Bool) : String := if b then "1" else "0"

/-- Symbolic descriptor of the ring attached to (printed as `base`). -/
def BASE_FD : Nat := 7

def parseU32 (s : String) : Option Nat :=
  match parseNat s with
  | some n => if n < 4294967296 then some n else none
  | none => none

def parseU64 (s : String) : Option Nat :=
  match parseNat s with
  | some n => if n < 18446744073709551616 then some n else none
  | none => none

/-- Errno of a scripted fault: `1..4095`. -/
def parseErrno (s : String) : Option Nat :=
  match parseNat s with
  | some n => if 1 ≤ n ∧ n < 4096 then some n else none
  | none => none

def parseCall (base : Bool) (t : String) : Option Call :=
  match t.splitOn ":" with
  | ["max"] => some .max
  | ["si"] => some .singleIssuer
  | ["dt"] => some .deferTaskRun
  | ["kt"] => some .kernelThread
  | ["dis"] => some .disable
  | ["att"] => if base then some (.attach BASE_FD) else none
  | ["sq", n] => (parseU32 n).map .sq
  | ["cq", n] => (parseU32 n).map .cq
  | ["cpu", n] => (parseU32 n).map .cpu
  | ["dd", n] => (parseU32 n).map .direct
  | ["idle", n] => (parseU64 n).map .idle
  | _ => none

def parseCalls (base : Bool) (s : String) : Option (List Call) :=
  if s == "-" then some [] else (s.splitOn ",").mapM (parseCall base)

/-- `-` or `<n>:<errno>`. -/
def parseNth (s : String) : Option (Option (Nat × Nat)) :=
  if s == "-" then some none
  else match s.splitOn ":" with
    | [k, e] =>
      match parseU32 k, parseErrno e with
      | some k, some e => some (some (k, e))
      | _, _ => none
    | _ => none

/-- `0` or an errno. -/
def parseOptErrno (s : String) : Option (Option Nat) :=
  if s == "0" then some none else (parseErrno s).map some

/-- `-`, or a size whose `u32` length computation overflows (only those are
ever echoed: anything else would make a10 map lengths the ring does not have). -/
def parseEcho (factor : Nat) (s : String) : Option (Option Nat) :=
  if s == "-" then some none
  else match parseU32 s with
    | some n => if n * factor ≥ 4294967296 then some (some n) else none
    | none => none

def showSys : Sys → List String
  | .setup p res =>
    [s!"params sq={p.sqEntries} cq={p.cqEntries} flags={p.flags} cpu={p.sqThreadCpu} idle={p.sqThreadIdle} wq={if p.wqFd = 0 then "0" else "base"}"]
      ++ (match res with
          | .ok _ => []
          | .error e => [s!"setup={errnoName e}"])
  | .mmap r len res => [s!"mmap {regionName r} len={len} {showAns res}"]
  | .madvise _ _ _ => []
  | .munmap r len => [s!"munmap {regionName r} len={len}"]
  | .register nr fl args none => [s!"register files2 nr={nr} flags={fl} args={args} ok"]
  -- (the simulated kernel refuses before decoding the argument)
  | .register _ _ args (some e) => [s!"register files2 args={args} {errnoName e}"]
  | .close _ => ["close ring"]

def madviseCount (t : List Sys) : Nat :=
  (t.filter (fun e => match e with | .madvise _ _ _ => true | _ => false)).length

def showResult : Res Ring → String
  | .ok r =>
    s!"result=ok sq={r.sq.sqLen} cq={r.cq.cqLen} kt={b01 r.sq.kernelThread} si={b01 r.sq.singleIssuer} sqring={r.sq.sqRingLen} cqring={r.cq.ringLen}"
  | .err (.os e) => s!"result=err:{errnoName e}"
  | .err (.unsupported b) => s!"result=unsupported:{featureName b}"
  | .panic => "result=panic"

/-- Output of one `build`: parameter block, the kernel's answer, the calls that
followed, the result, the ledger; for a built ring whether it works. -/
def showRun (a : Answers) (r : Run) : List String :=
  let head := match r.trace with
    | e :: _ => showSys e
    | [] => []
  let setupLine := match a.setup with
    | .ok k => [s!"setup=ok sq={k.sqEntries} cq={k.cqEntries} feat={k.features}"]
    | .error _ => []
  let rest := (r.trace.drop 1).flatMap showSys
  let working := match r.result, a.setup with
    | .ok _, .ok k =>
      if k.flags.testBit B_R_DISABLED then ["working poll=E77 enable=ok poll=ok"]
      else ["working poll=ok"]
    | _, _ => []
  head ++ setupLine ++ rest
    ++ [s!"madvise={madviseCount r.trace}", showResult r.result,
        s!"ledger fds={r.ledger.fds.length} maps={r.ledger.maps.length}"]
    ++ working

/-- One op: `config build base=<0|1> calls=<c,…|-> setup=<0|errno> feat=<n>
mmapf=<-|k:errno> madvf=<-|k:errno> regf=<0|errno> esq=<-|n> ecq=<-|n>`. -/
def stepLine (toks : List String) : List String :=
  match toks with
  | ["config", "begin", _] => []
  | ["config", "build", tb, tc, ts, tf, tmm, tma, tr, tes, tec] =>
    match kv "base" tb, kv "calls" tc, kv "setup" ts, kv "feat" tf, kv "mmapf" tmm,
      kv "madvf" tma, kv "regf" tr, kv "esq" tes, kv "ecq" tec with
    | some vb, some vc, some vs, some vf, some vmm, some vma, some vr, some ves, some vec =>
      let base : Option Bool := if vb == "1" then some true else if vb == "0" then some false else none
      match base with
      | none => ["bad-op"]
      | some base =>
        match parseCalls base vc, parseOptErrno vs, parseU32 vf, parseNth vmm, parseNth vma,
          parseOptErrno vr, parseEcho 4 ves, parseEcho 16 vec with
        | some calls, some se, some feat, some mm, some ma, some rf, some es, some ec =>
          let c := Cfg.calls calls
          let f : Faults := { setupErrno := se, features := feat, mmapFail := mm, madvFail := ma,
                              regFail := rf, echoSq := es, echoCq := ec }
          let a := simAnswers (params c) f
          showRun a (build c a)
        | _, _, _, _, _, _, _, _ => ["bad-op"]
    | _, _, _, _, _, _, _, _, _ => ["bad-op"]
  | _ => ["bad-op"]

end A10.Config
