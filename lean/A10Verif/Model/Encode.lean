/-
Model of the per-operation request encoders and result decoders of a10
(C13 — each operation equals its POSIX call).

* `fill`   — `fill_submission` + `create_flags`/`use_flags`/`set_async`, for
             every operation in `src/io_uring/{io,fs,net,process,pipe,mem,fd}.rs`
             (file:line cited per case), as a function to the 64-byte SQE's
             named fields plus the memory the request points to.
* `abi`    — the io_uring ABI table: which SQE field carries which argument of
             the corresponding system call (transcribed from io_uring_enter(2),
             liburing's `io_uring_prep_*` helpers and the kernel's `*_prep`
             functions). Trusted (DESIGN §4).
* `posix`  — the system call the public API call stands for.
* decoders — `check_result`, `map_ok` per operation, `Metadata`/`WaitInfo`
             accessors, socket option decoders, `OpenOptions` flag algebra.

Numbers are `Nat`/`Int`; Rust casts are explicit (`% 2^32`, `toI32`).
Pointers are symbolic: `Val.ptr resource offset`.
-/
import A10Verif.Model.Basic
import A10Verif.Model.Addr
import A10Verif.Model.Op

namespace A10.Encode

open A10.Addr (Addr)

/-! ### Constants -/

def U32 : Nat := 4294967296
def U64 : Nat := 18446744073709551616
/-- `NO_OFFSET = u64::MAX` (src/io/mod.rs:142). -/
def NO_OFFSET : Nat := 18446744073709551615
/-- `O_CLOEXEC` = `SOCK_CLOEXEC` (src/fd.rs:239-246). -/
def O_CLOEXEC : Nat := 524288
/-- `IORING_FILE_INDEX_ALLOC as u32`. -/
def ALLOC : Nat := 4294967295
def AT_FDCWD : Int := -100
/-- `AT_FDCWD as u32`. -/
def AT_FDCWD_U32 : Nat := 4294967196
def IOSQE_FIXED_FILE : Nat := 1
def IOSQE_ASYNC : Nat := 16
def IOSQE_BUFFER_SELECT : Nat := 32
def IOSQE_CQE_SKIP_SUCCESS : Nat := 64
def SPLICE_F_FD_IN_FIXED : Nat := 2147483648
def AT_REMOVEDIR : Nat := 512
def AT_EMPTY_PATH : Nat := 4096
/-- `default_metadata_interest` (src/io_uring/fs.rs:316-324):
TYPE|MODE|ATIME|MTIME|BTIME|SIZE|BLOCKS. -/
def DEFAULT_STATX_MASK : Nat := 3683

-- opcodes (src/io_uring/libc.rs:824-889)
def OP_READV : Nat := 1
def OP_WRITEV : Nat := 2
def OP_FSYNC : Nat := 3
def OP_SENDMSG : Nat := 9
def OP_RECVMSG : Nat := 10
def OP_ACCEPT : Nat := 13
def OP_CONNECT : Nat := 16
def OP_POLL_ADD : Nat := 6
def OP_FALLOCATE : Nat := 17
def OP_OPENAT : Nat := 18
def OP_CLOSE : Nat := 19
def OP_FILES_UPDATE : Nat := 20
def OP_STATX : Nat := 21
def OP_READ : Nat := 22
def OP_WRITE : Nat := 23
def OP_FADVISE : Nat := 24
def OP_MADVISE : Nat := 25
def OP_SEND : Nat := 26
def OP_RECV : Nat := 27
def OP_SPLICE : Nat := 30
def OP_SHUTDOWN : Nat := 34
def OP_RENAMEAT : Nat := 35
def OP_UNLINKAT : Nat := 36
def OP_MKDIRAT : Nat := 37
def OP_SOCKET : Nat := 45
def OP_URING_CMD : Nat := 46
def OP_SEND_ZC : Nat := 47
def OP_SENDMSG_ZC : Nat := 48
def OP_READ_MULTISHOT : Nat := 49
def OP_WAITID : Nat := 50
def OP_FIXED_FD_INSTALL : Nat := 54
def OP_FTRUNCATE : Nat := 55
def OP_BIND : Nat := 56
def OP_LISTEN : Nat := 57
def OP_PIPE : Nat := 62

/-- `x as i32` for `x < 2^32`. -/
def toI32 (x : Nat) : Int := if x < 2147483648 then (x : Int) else (x : Int) - 4294967296

/-! ### Requests -/

inductive FdKind where
  | file
  | direct
  deriving Repr, DecidableEq, Inhabited

/-- What a pointer points into. Offsets inside the operation's own state box
depend on the Rust layout and are not modelled. -/
inductive Resource where
  /-- the i-th buffer handed in by the caller -/
  | buf (i : Nat)
  /-- the operation's state box (`Data<T, R, A>`, src/io_uring/op.rs:76-80):
  iovec arrays, `msghdr`, address storage and length cell, `statx`/`siginfo`
  out-parameters, descriptor arrays, option values -/
  | state
  /-- another heap allocation owned by the operation (path `CString`s) -/
  | heap
  /-- static memory (the empty path of `statx`) -/
  | static
  deriving Repr, DecidableEq, Inhabited

/-- A 64-bit SQE field: a number or a pointer. -/
inductive Val where
  | num (n : Nat)
  | ptr (r : Resource) (off : Nat)
  deriving Repr, DecidableEq, Inhabited

/-- `buf_index` / `buf_group`: a number, or the group id of the case's pool. -/
inductive BufIdx where
  | idx (n : Nat)
  | pool
  deriving Repr, DecidableEq, Inhabited

/-- `user_data`: pointer to the state box tagged single/multishot
(src/io_uring/op.rs:219-229), or one of the reserved small values. -/
inductive UserData where
  | single
  | multi
  | raw (n : Nat)
  deriving Repr, DecidableEq, Inhabited

/-- The 64-byte submission entry's named fields (`simk::Sqe`). -/
structure Sqe where
  opcode : Nat := 0
  flags : Nat := 0
  ioprio : Nat := 0
  fd : Int := 0
  /-- `off` / `addr2` / `cmd_op` -/
  off : Val := .num 0
  /-- `addr` / `splice_off_in` / `level`+`optname` -/
  addr : Val := .num 0
  len : Nat := 0
  /-- `rw_flags` / `msg_flags` / `open_flags` / … -/
  opFlags : Nat := 0
  userData : UserData := .single
  bufIndex : BufIdx := .idx 0
  personality : Nat := 0
  /-- `file_index` / `splice_fd_in` / `optlen` / `addr_len` -/
  fileIndex : Nat := 0
  /-- `addr3` / `optval` -/
  addr3 : Val := .num 0
  deriving Repr, DecidableEq, Inhabited

/-- `struct msghdr` as initialised by `MsgHeader::init_{send,recv}`
(src/unix.rs:117-151). -/
structure Msg where
  name : Val
  namelen : Nat
  iovlen : Nat
  control : Nat := 0
  controllen : Nat := 0
  flags : Nat := 0
  deriving Repr, DecidableEq, Inhabited

/-- Memory the request points to, as far as the kernel reads it. -/
structure Mem where
  /-- iovec array: (base, len) -/
  iov : Option (List (Val × Nat)) := none
  msg : Option Msg := none
  /-- bytes of the socket address passed in -/
  addrBytes : Option (List Nat) := none
  /-- content of the `socklen_t` cell -/
  alen : Option Nat := none
  path : Option (List Nat) := none
  path2 : Option (List Nat) := none
  optval : Option (List Nat) := none
  fds : Option (List Int) := none
  deriving Repr, DecidableEq, Inhabited

structure Req where
  sqe : Sqe
  mem : Mem := {}
  deriving Repr, DecidableEq, Inhabited

/-- `IORING_POLL_ADD_MULTI`. -/
def IORING_POLL_ADD_MULTI : Nat := 1
/-- `EPOLLIN | EPOLLHUP | EPOLLERR | EPOLLET | EPOLLEXCLUSIVE` (poll.rs:30-35). -/
def POLLABLE_EVENTS : Nat := 1 ||| 16 ||| 8 ||| 2147483648 ||| 268435456

/-! ### Operations and their arguments -/

inductive OpKind where
  | read | readp | mread | readv | write | writev | splice | close | dropfd
  | openat | mkdir | rename | unlink | fsync | statx | fadvise | fallocate | ftruncate
  | socket | bind | listen | connect | sockname
  | recv | recvp | mrecv | recvv | recvfrom | recvfromv
  | send | sendto | sendmsg | accept | maccept | getsockopt | setsockopt | shutdown
  | waitid | sigrecv | todirect | tofd | pipe | madvise | pollable
  deriving Repr, DecidableEq, Inhabited

/-- Address type parameter `A: SocketAddress`. -/
inductive ATy where
  | noaddr | v4 | v6 | any | unix
  deriving Repr, DecidableEq, Inhabited

/-- The arguments an operation's state holds when it is first polled
(`Resources` + `Args`), in one record; each operation uses a few fields. -/
structure Args where
  /-- descriptor number of the `AsyncFd` (`fd.fd()`: regular fd or direct index) -/
  fd : Nat := 0
  /-- splice target / descriptor to close -/
  target : Nat := 0
  /-- offset (`NO_OFFSET` = current position); `ftruncate` length -/
  offset : Nat := NO_OFFSET
  offIn : Nat := NO_OFFSET
  offOut : Nat := NO_OFFSET
  /-- `u32` length / backlog -/
  len : Nat := 0
  /-- flag word of the operation's `new_flag!` type (or open flags, statx mask, advice) -/
  flags : Nat := 0
  mode : Nat := 0
  /-- single buffer: offset of the pointer inside buffer 0 and the length passed -/
  bufPtr : Nat := 0
  bufLen : Nat := 0
  /-- vectored: per buffer (offset of the pointer, length) -/
  iov : List (Nat × Nat) := []
  zc : Bool := false
  /-- splice direction: `To` (descriptor is the input) -/
  dirTo : Bool := true
  /-- kind of descriptor to create (`fd::Kind` resource of open/socket/pipe) -/
  ckind : FdKind := .file
  /-- address passed in (bind/connect/sendto/sendmsg) -/
  aty : ATy := .noaddr
  addr : Addr := .unnamed
  domain : Int := 0
  type : Nat := 0
  protocol : Nat := 0
  level : Nat := 0
  optname : Nat := 0
  optlen : Nat := 0
  optval : List Nat := []
  /-- small selector: datasync / remove-dir / peer name / shutdown how / idtype -/
  which : Nat := 0
  pid : Nat := 0
  path : List Nat := []
  path2 : List Nat := []
  /-- madvise address -/
  address : Nat := 0
  deriving Repr, DecidableEq, Inhabited

/-- `AsyncFd::fd()` for the two kinds of the case's descriptors. -/
def useFlags : FdKind → Nat
  | .file => 0
  | .direct => IOSQE_FIXED_FILE

/-- `Kind::cloexec_flag` (src/fd.rs:233-247). -/
def cloexec : FdKind → Nat
  | .file => O_CLOEXEC
  | .direct => 0

/-- `Kind::create_flags` (src/io_uring/fd.rs:198-204). -/
def createIndex : FdKind → Nat
  | .file => 0
  | .direct => ALLOC

/-! #### Socket addresses passed in -/

/-- `A::as_ptr(&storage)`: the bytes `[ptr, ptr+len)` handed to the kernel
(src/net.rs:1604-1612, 1668-1671, 1714-1717, 1783-1786, 1845-1848). A Unix
address is passed with the length stored by `into_storage` (`Addr.ptrLenUnix`,
since `fix: pass the actual length of Unix addresses to the kernel`). -/
def addrBytes : ATy → Addr → List Nat
  | .v4, .v4 ip port => Addr.storageV4 ip port
  | .v6, .v6 ip port flow scope => Addr.storageV6 ip port flow scope
  | .any, a => let st := Addr.storageAny a; st.take (Addr.ptrLenAny st)
  | .unix, a => (Addr.storageUnix a).take (Addr.ptrLenUnix a)
  | _, _ => []

/-- Size of `A::Storage` as reported by `as_mut_ptr`. -/
def mutLen : ATy → Nat
  | .noaddr => 0
  | .v4 => 16
  | .v6 => 28
  | .any => 28
  | .unix => 110

/-- The `sun_path` part of a Unix address as `unix_mkname_bsd` /
`unix_autobind` read it. -/
def unixTail : List Nat → Addr
  | [] => .unnamed
  | 0 :: rest => .abstr rest
  | p => .path (p.takeWhile (· ≠ 0))

/-- How the kernel reads a socket address argument of `len = bytes.length`
(`move_addr_to_kernel`, `inet_bind`/`inet6_bind` length checks,
`unix_validate_addr`/`unix_mkname_bsd`/`unix_autobind`): a too-short address is
`EINVAL`; a Unix address of just the family is *unnamed* (autobind); one whose
path starts with a non-NUL byte is the path up to the first NUL; otherwise it
is the abstract name made of **all** remaining `len - 3` bytes. -/
def kernelAddr (bytes : List Nat) : Option Addr :=
  let fam := Addr.rd16le bytes 0
  if bytes.length < 2 then none
  else if fam = Addr.AF_INET then
    if bytes.length < 16 then none else some (Addr.initV4 (bytes.take 16))
  else if fam = Addr.AF_INET6 then
    if bytes.length < 28 then none else some (Addr.initV6 (bytes.take 28))
  else if fam = Addr.AF_UNIX then
    if bytes.length > 110 then none
    else some (unixTail (bytes.drop 2))
  else none

/-! ### `fill` -/

/-- `IoMutSlice`/`IoSlice` arrays (`as_iovecs{,_mut}`): buffer `i` at the given
pointer offset and length. -/
def iovOf (l : List (Nat × Nat)) : List (Val × Nat) :=
  (List.range l.length).zip l |>.map fun (i, (o, n)) => (Val.ptr (.buf i) o, n)

/-- `fill_submission` followed by `OpTarget::set_flags` (op.rs:806-814) and the
`user_data` tag, for each operation. `k` is the kind of the `AsyncFd` the
operation runs on (ignored by operations on a `SubmissionQueue`). -/
def fill (op : OpKind) (a : Args) (k : FdKind) : Req :=
  match op with
  -- src/io_uring/io.rs:328-351 (ReadOp, BufMutParts::Buf)
  | .read => { sqe := { opcode := OP_READ, flags := useFlags k, fd := a.fd, off := .num a.offset,
                         addr := .ptr (.buf 0) a.bufPtr, len := a.bufLen } }
  -- io.rs:346-349 (ReadOp, BufMutParts::Pool)
  | .readp => { sqe := { opcode := OP_READ, flags := IOSQE_BUFFER_SELECT ||| useFlags k, fd := a.fd,
                          off := .num a.offset, bufIndex := .pool } }
  -- io.rs:388-398 (MultishotReadOp)
  | .mread => { sqe := { opcode := OP_READ_MULTISHOT, flags := IOSQE_BUFFER_SELECT ||| useFlags k,
                          fd := a.fd, bufIndex := .pool, userData := .multi } }
  -- io.rs:420-435 (ReadVectoredOp)
  | .readv => { sqe := { opcode := OP_READV, flags := useFlags k, fd := a.fd, off := .num a.offset,
                          addr := .ptr .state 0, len := a.iov.length % U32 },
                mem := { iov := some (iovOf a.iov) } }
  -- io.rs:465-481 (WriteOp)
  | .write => { sqe := { opcode := OP_WRITE, flags := useFlags k, fd := a.fd, off := .num a.offset,
                          addr := .ptr (.buf 0) a.bufPtr, len := a.bufLen } }
  -- io.rs:527-542 (WriteVectoredOp)
  | .writev => { sqe := { opcode := OP_WRITEV, flags := useFlags k, fd := a.fd, off := .num a.offset,
                           addr := .ptr .state 0, len := a.iov.length % U32 },
                 mem := { iov := some (iovOf a.iov) } }
  -- io.rs:591-614 (SpliceOp): `fd` = output, `splice_fd_in` = input
  | .splice =>
    let fdIn := if a.dirTo then a.fd else a.target
    let fdOut := if a.dirTo then a.target else a.fd
    { sqe := { opcode := OP_SPLICE, flags := useFlags k, fd := fdOut, off := .num a.offOut,
               addr := .num a.offIn, len := a.len, opFlags := a.flags, fileIndex := fdIn } }
  -- io.rs:629-653 (CloseOp / close_file_fd); runs on the SubmissionQueue: no use_flags
  | .close =>
    match k with
    | .file => { sqe := { opcode := OP_CLOSE, fd := a.target } }
    | .direct => { sqe := { opcode := OP_CLOSE, fileIndex := (a.target + 1) % U32 } }
  -- src/io_uring/fd.rs:213-222 (Drop for AsyncFd)
  | .dropfd =>
    match k with
    | .file => { sqe := { opcode := OP_CLOSE, flags := IOSQE_CQE_SKIP_SUCCESS, fd := a.target,
                          userData := .raw 3 } }
    | .direct => { sqe := { opcode := OP_CLOSE, flags := IOSQE_CQE_SKIP_SUCCESS,
                            fileIndex := (a.target + 1) % U32, userData := .raw 3 } }
  -- src/io_uring/fs.rs:23-40 (OpenOp); `a.flags` already contains the cloexec flag (src/fs.rs:190)
  | .openat => { sqe := { opcode := OP_OPENAT, fd := AT_FDCWD, addr := .ptr .heap 0, len := a.mode,
                           opFlags := a.flags % U32, fileIndex := createIndex a.ckind },
                 mem := { path := some a.path } }
  -- fs.rs:93-106 (CreateDirOp)
  | .mkdir => { sqe := { opcode := OP_MKDIRAT, fd := AT_FDCWD, addr := .ptr .heap 0, len := 511 },
                mem := { path := some a.path } }
  -- fs.rs:157-174 (RenameOp)
  | .rename => { sqe := { opcode := OP_RENAMEAT, fd := AT_FDCWD, off := .ptr .heap 0,
                           addr := .ptr .heap 0, len := AT_FDCWD_U32 },
                 mem := { path := some a.path, path2 := some a.path2 } }
  -- fs.rs:227-246 (DeleteOp)
  | .unlink => { sqe := { opcode := OP_UNLINKAT, fd := AT_FDCWD, addr := .ptr .heap 0,
                           opFlags := if a.which = 0 then 0 else AT_REMOVEDIR },
                 mem := { path := some a.path } }
  -- fs.rs:296-309 (SyncDataOp)
  | .fsync => { sqe := { opcode := OP_FSYNC, flags := useFlags k, fd := a.fd,
                          opFlags := if a.which = 0 then 0 else 1 } }
  -- fs.rs:333-352 (StatOp)
  | .statx => { sqe := { opcode := OP_STATX, flags := useFlags k, fd := a.fd, off := .ptr .state 0,
                          addr := .ptr .static 0, len := a.flags, opFlags := AT_EMPTY_PATH },
                mem := { path := some [] } }
  -- fs.rs:368-381 (AdviseOp)
  | .fadvise => { sqe := { opcode := OP_FADVISE, flags := useFlags k, fd := a.fd, off := .num a.offset,
                            len := a.len, opFlags := a.flags } }
  -- fs.rs:396-409 (AllocateOp): length in `addr`, mode in `len`
  | .fallocate => { sqe := { opcode := OP_FALLOCATE, flags := useFlags k, fd := a.fd,
                              off := .num a.offset, addr := .num a.len, len := a.flags } }
  -- fs.rs:423-432 (TruncateOp)
  | .ftruncate => { sqe := { opcode := OP_FTRUNCATE, flags := useFlags k, fd := a.fd,
                              off := .num a.offset } }
  -- src/io_uring/net.rs:26-40 (SocketOp)
  | .socket => { sqe := { opcode := OP_SOCKET, fd := a.domain, off := .num (a.type ||| cloexec a.ckind),
                           len := a.protocol, fileIndex := createIndex a.ckind } }
  -- net.rs:56-71 (BindOp)
  | .bind => { sqe := { opcode := OP_BIND, flags := useFlags k, fd := a.fd,
                         off := .num (addrBytes a.aty a.addr).length, addr := .ptr .state 0 },
               mem := { addrBytes := some (addrBytes a.aty a.addr) } }
  -- net.rs:86-95 (ListenOp)
  | .listen => { sqe := { opcode := OP_LISTEN, flags := useFlags k, fd := a.fd, len := a.len } }
  -- net.rs:109-124 (ConnectOp)
  | .connect => { sqe := { opcode := OP_CONNECT, flags := useFlags k, fd := a.fd,
                            off := .num (addrBytes a.aty a.addr).length, addr := .ptr .state 0 },
                  mem := { addrBytes := some (addrBytes a.aty a.addr) } }
  -- net.rs:138-169 (SocketNameOp): cmd_op in the low half of `off`
  | .sockname => { sqe := { opcode := OP_URING_CMD, flags := useFlags k, fd := a.fd, off := .num 5,
                             addr := .ptr .state 0, fileIndex := if a.which = 0 then 0 else 1,
                             addr3 := .ptr .state 0 },
                   mem := { alen := some (mutLen a.aty) } }
  -- net.rs:216-239 (RecvOp, BufMutParts::Buf)
  | .recv => { sqe := { opcode := OP_RECV, flags := useFlags k, fd := a.fd,
                         addr := .ptr (.buf 0) a.bufPtr, len := a.bufLen, opFlags := a.flags } }
  -- net.rs:234-237 (RecvOp, BufMutParts::Pool)
  | .recvp => { sqe := { opcode := OP_RECV, flags := IOSQE_BUFFER_SELECT ||| useFlags k, fd := a.fd,
                          opFlags := a.flags, bufIndex := .pool } }
  -- net.rs:277-289 (MultishotRecvOp)
  | .mrecv => { sqe := { opcode := OP_RECV, flags := IOSQE_BUFFER_SELECT ||| useFlags k, ioprio := 2,
                          fd := a.fd, opFlags := a.flags, bufIndex := .pool, userData := .multi } }
  -- net.rs:311-319, 466-487 (RecvVectoredOp / fill_recvmsg_submission, NoAddress)
  | .recvv => { sqe := { opcode := OP_RECVMSG, flags := useFlags k, fd := a.fd, addr := .ptr .state 0,
                          len := 1, opFlags := a.flags },
                mem := { msg := some { name := .num 0, namelen := 0, iovlen := a.iov.length },
                         iov := some (iovOf a.iov) } }
  -- net.rs:354-373 (RecvFromOp): one iovec made from the buffer (src/net.rs:314-321)
  | .recvfrom => { sqe := { opcode := OP_RECVMSG, flags := useFlags k, fd := a.fd,
                             addr := .ptr .state 0, len := 1, opFlags := a.flags },
                   mem := { msg := some { name := if a.aty = .noaddr then .num 0 else .ptr .state 0,
                                          namelen := mutLen a.aty, iovlen := 1 },
                            iov := some [(.ptr (.buf 0) a.bufPtr, a.bufLen)] } }
  -- net.rs:427-434 (RecvFromVectoredOp)
  | .recvfromv => { sqe := { opcode := OP_RECVMSG, flags := useFlags k, fd := a.fd,
                              addr := .ptr .state 0, len := 1, opFlags := a.flags },
                    mem := { msg := some { name := if a.aty = .noaddr then .num 0 else .ptr .state 0,
                                           namelen := mutLen a.aty, iovlen := a.iov.length },
                             iov := some (iovOf a.iov) } }
  -- net.rs:497-516 (SendOp)
  | .send => { sqe := { opcode := if a.zc then OP_SEND_ZC else OP_SEND, flags := useFlags k, fd := a.fd,
                         addr := .ptr (.buf 0) a.bufPtr, len := a.bufLen, opFlags := a.flags } }
  -- net.rs:563-585 (SendToOp): address in `addr2`, its length in `addr_len` (u16)
  | .sendto => { sqe := { opcode := if a.zc then OP_SEND_ZC else OP_SEND, flags := useFlags k, fd := a.fd,
                           off := if a.aty = .noaddr then .num 0 else .ptr .state 0,
                           addr := .ptr (.buf 0) a.bufPtr, len := a.bufLen, opFlags := a.flags,
                           fileIndex := (addrBytes a.aty a.addr).length % 65536 },
                 mem := { addrBytes := some (addrBytes a.aty a.addr) } }
  -- net.rs:641-662 (SendMsgOp)
  | .sendmsg => { sqe := { opcode := if a.zc then OP_SENDMSG_ZC else OP_SENDMSG, flags := useFlags k,
                            fd := a.fd, addr := .ptr .state 0, len := 1, opFlags := a.flags },
                  mem := { msg := some { name := if a.aty = .noaddr then .num 0 else .ptr .state 0,
                                         namelen := (addrBytes a.aty a.addr).length,
                                         iovlen := a.iov.length },
                           iov := some (iovOf a.iov),
                           addrBytes := some (addrBytes a.aty a.addr) } }
  -- net.rs:711-733 (AcceptOp): the new descriptor has the listener's kind
  | .accept => { sqe := { opcode := OP_ACCEPT, flags := IOSQE_ASYNC ||| useFlags k, fd := a.fd,
                           off := .ptr .state 0,
                           addr := if a.aty = .noaddr then .num 0 else .ptr .state 0,
                           opFlags := a.flags ||| cloexec k, fileIndex := createIndex k },
                 mem := { alen := some (mutLen a.aty) } }
  -- net.rs:763-778 (MultishotAcceptOp)
  | .maccept => { sqe := { opcode := OP_ACCEPT, flags := IOSQE_ASYNC ||| useFlags k, ioprio := 1,
                            fd := a.fd, opFlags := a.flags ||| cloexec k, fileIndex := createIndex k,
                            userData := .multi } }
  -- net.rs:796-822 (SocketOptionOp): level/optname in the two halves of `addr`
  | .getsockopt => { sqe := { opcode := OP_URING_CMD, flags := useFlags k, fd := a.fd, off := .num 2,
                               addr := .num (a.level + a.optname * U32), fileIndex := a.optlen,
                               addr3 := .ptr .state 0 } }
  -- net.rs:855-881 (SetSocketOptionOp)
  | .setsockopt => { sqe := { opcode := OP_URING_CMD, flags := useFlags k, fd := a.fd, off := .num 3,
                               addr := .num (a.level + a.optname * U32), fileIndex := a.optlen,
                               addr3 := .ptr .state 0 },
                     mem := { optval := some a.optval } }
  -- net.rs:911-924 (ShutdownOp)
  | .shutdown => { sqe := { opcode := OP_SHUTDOWN, flags := useFlags k, fd := a.fd, len := a.which } }
  -- src/io_uring/process.rs:21-41 (WaitIdOp): `pid as RawFd`
  | .waitid => { sqe := { opcode := OP_WAITID, fd := toI32 a.pid, off := .ptr .state 0, len := a.which,
                           fileIndex := a.flags } }
  -- process.rs:112-126 (ReceiveSignalOp)
  | .sigrecv => { sqe := { opcode := OP_READ, flags := IOSQE_ASYNC ||| useFlags k, fd := a.fd,
                            off := .num NO_OFFSET, addr := .ptr .state 0, len := 128 } }
  -- src/io_uring/fd.rs:108-122 (ToDirectOp); the descriptor being converted is regular
  | .todirect => { sqe := { opcode := OP_FILES_UPDATE, flags := useFlags k, fd := -1,
                             off := .num NO_OFFSET, addr := .ptr .state 0, len := 1 },
                   mem := { fds := some [(a.fd : Int)] } }
  -- fd.rs:159-171 (ToFdOp)
  | .tofd => { sqe := { opcode := OP_FIXED_FD_INSTALL, flags := useFlags k, fd := a.fd } }
  -- src/io_uring/pipe.rs:16-30 (PipeOp)
  | .pipe => { sqe := { opcode := OP_PIPE, addr := .ptr .state 0, opFlags := a.flags ||| cloexec a.ckind,
                         fileIndex := createIndex a.ckind },
               mem := { fds := some [-1, -1] } }
  -- src/io_uring/mem.rs:14-29 (AdviseOp)
  | .madvise => { sqe := { opcode := OP_MADVISE, fd := -1, addr := .num a.address, len := a.len,
                            opFlags := a.flags } }
  -- src/io_uring/poll.rs:26-38 (PollableOp, behind `Ring::pollable`): a multishot poll of
  -- ANOTHER ring's descriptor (`a.fd`) through this queue
  | .pollable => { sqe := { opcode := OP_POLL_ADD, fd := a.fd, len := IORING_POLL_ADD_MULTI,
                             opFlags := POLLABLE_EVENTS, userData := .multi } }

/-! ### System calls -/

inductive Arg where
  | n (v : Nat)
  | i (v : Int)
  | v (v : Val)
  | bytes (b : List Nat)
  | iov (l : List (Val × Nat))
  /-- a socket address as the kernel understands it (`none` = rejected) -/
  | addr (a : Option Addr)
  | ints (l : List Int)
  deriving Repr, DecidableEq, Inhabited

structure Syscall where
  name : String
  args : List (String × Arg)
  deriving Repr, DecidableEq, Inhabited

def bit (x m : Nat) : Nat := if x &&& m = 0 then 0 else 1

/-- Target descriptor of a request: `fd`, looked up in the registered-file
table iff `IOSQE_FIXED_FILE`. -/
def fdArgs (s : Sqe) : List (String × Arg) :=
  [("fd", .i s.fd), ("fixed", .n (bit s.flags IOSQE_FIXED_FILE))]

/-- SQE flags a10 may set. Anything else (links, drains) changes semantics. -/
def flagsOk (s : Sqe) (allowed : Nat) : Bool :=
  s.flags &&& allowed == s.flags

def isNum : Val → Bool
  | .num _ => true
  | _ => false

def numOf : Val → Nat
  | .num n => n
  | _ => 0

/-- The io_uring ABI: the system call a request stands for, or `none` if the
kernel would reject the entry (`-EINVAL`) / a field has the wrong shape. -/
def abi (op : OpKind) (r : Req) : Option Syscall :=
  let s := r.sqe
  let m := r.mem
  let F := IOSQE_FIXED_FILE ||| IOSQE_ASYNC
  match op with
  -- io_uring_prep_read(fd, buf, nbytes, offset)
  | .read | .sigrecv =>
    if s.opcode = OP_READ ∧ flagsOk s F ∧ isNum s.off ∧ s.bufIndex = .idx 0 then
      some ⟨"read", fdArgs s ++ [("buf", .v s.addr), ("count", .n s.len), ("off", .v s.off)]⟩
    else none
  -- read with IOSQE_BUFFER_SELECT: addr/len unused, buffer from `buf_group`
  | .readp =>
    if s.opcode = OP_READ ∧ flagsOk s (F ||| IOSQE_BUFFER_SELECT) ∧ s.flags &&& IOSQE_BUFFER_SELECT ≠ 0
        ∧ s.bufIndex = .pool ∧ s.addr = .num 0 ∧ isNum s.off then
      some ⟨"read", fdArgs s ++ [("bufgroup", .n 1), ("count", .n s.len), ("off", .v s.off)]⟩
    else none
  -- io_uring_prep_read_multishot(fd, nbytes, offset, buf_group); io_read_mshot_prep:
  -- addr and len must be 0, BUFFER_SELECT required
  | .mread =>
    if s.opcode = OP_READ_MULTISHOT ∧ flagsOk s (F ||| IOSQE_BUFFER_SELECT)
        ∧ s.flags &&& IOSQE_BUFFER_SELECT ≠ 0 ∧ s.bufIndex = .pool ∧ s.addr = .num 0 ∧ s.len = 0
        ∧ s.userData = .multi then
      some ⟨"read_multishot", fdArgs s ++ [("bufgroup", .n 1)]⟩
    else none
  -- io_uring_prep_readv(fd, iovecs, nr_vecs, offset)
  | .readv =>
    match m.iov with
    | some iov =>
      if s.opcode = OP_READV ∧ flagsOk s F ∧ s.addr = .ptr .state 0 ∧ s.len = iov.length ∧ isNum s.off
          ∧ s.opFlags = 0 then
        some ⟨"readv", fdArgs s ++ [("iov", .iov iov), ("off", .v s.off)]⟩
      else none
    | none => none
  -- io_uring_prep_write(fd, buf, nbytes, offset)
  | .write =>
    if s.opcode = OP_WRITE ∧ flagsOk s F ∧ isNum s.off ∧ s.bufIndex = .idx 0 then
      some ⟨"write", fdArgs s ++ [("buf", .v s.addr), ("count", .n s.len), ("off", .v s.off)]⟩
    else none
  | .writev =>
    match m.iov with
    | some iov =>
      if s.opcode = OP_WRITEV ∧ flagsOk s F ∧ s.addr = .ptr .state 0 ∧ s.len = iov.length ∧ isNum s.off
          ∧ s.opFlags = 0 then
        some ⟨"writev", fdArgs s ++ [("iov", .iov iov), ("off", .v s.off)]⟩
      else none
    | none => none
  -- io_uring_prep_splice(fd_in, off_in, fd_out, off_out, nbytes, flags):
  -- fd = fd_out (fixed iff IOSQE_FIXED_FILE), splice_fd_in = fd_in (fixed iff
  -- SPLICE_F_FD_IN_FIXED in splice_flags), off = off_out, splice_off_in = off_in
  | .splice =>
    if s.opcode = OP_SPLICE ∧ flagsOk s F ∧ isNum s.off ∧ isNum s.addr then
      some ⟨"splice", [("fd_in", .n s.fileIndex), ("in_fixed", .n (bit s.opFlags SPLICE_F_FD_IN_FIXED)),
        ("off_in", .v s.addr), ("fd_out", .i s.fd), ("out_fixed", .n (bit s.flags IOSQE_FIXED_FILE)),
        ("off_out", .v s.off), ("len", .n s.len),
        ("flags", .n (s.opFlags % SPLICE_F_FD_IN_FIXED))]⟩
    else none
  -- io_uring_prep_close(fd) / io_uring_prep_close_direct(index): io_close_prep
  -- rejects off/addr/len/rw_flags/buf_index and `file_slot && fd`
  | .close | .dropfd =>
    if s.opcode = OP_CLOSE ∧ flagsOk s IOSQE_CQE_SKIP_SUCCESS ∧ s.off = .num 0 ∧ s.addr = .num 0
        ∧ s.len = 0 ∧ s.opFlags = 0 ∧ s.bufIndex = .idx 0 ∧ ¬ (s.fileIndex ≠ 0 ∧ s.fd ≠ 0) then
      if s.fileIndex = 0 then some ⟨"close", [("fd", .i s.fd), ("fixed", .n 0)]⟩
      else some ⟨"close", [("fd", .i (s.fileIndex - 1 : Nat)), ("fixed", .n 1)]⟩
    else none
  -- io_uring_prep_openat(dfd, path, flags, mode) (+ _direct: file_index)
  | .openat =>
    match m.path with
    | some p =>
      if s.opcode = OP_OPENAT ∧ s.flags = 0 ∧ s.addr = .ptr .heap 0 ∧ s.off = .num 0
          ∧ s.bufIndex = .idx 0 then
        some ⟨"openat", [("dirfd", .i s.fd), ("path", .bytes p), ("flags", .n s.opFlags),
          ("mode", .n s.len), ("slot", .n s.fileIndex)]⟩
      else none
    | none => none
  -- io_uring_prep_mkdirat(dfd, path, mode)
  | .mkdir =>
    match m.path with
    | some p =>
      if s.opcode = OP_MKDIRAT ∧ s.flags = 0 ∧ s.addr = .ptr .heap 0 ∧ s.off = .num 0 ∧ s.opFlags = 0
          ∧ s.fileIndex = 0 then
        some ⟨"mkdirat", [("dirfd", .i s.fd), ("path", .bytes p), ("mode", .n s.len)]⟩
      else none
    | none => none
  -- io_uring_prep_renameat(olddfd, oldpath, newdfd, newpath, flags):
  -- addr = oldpath, off(addr2) = newpath, len = newdfd
  | .rename =>
    match m.path, m.path2 with
    | some p, some p2 =>
      if s.opcode = OP_RENAMEAT ∧ s.flags = 0 ∧ s.addr = .ptr .heap 0 ∧ s.off = .ptr .heap 0
          ∧ s.fileIndex = 0 then
        some ⟨"renameat", [("olddirfd", .i s.fd), ("oldpath", .bytes p), ("newdirfd", .i (toI32 s.len)),
          ("newpath", .bytes p2), ("flags", .n s.opFlags)]⟩
      else none
    | _, _ => none
  -- io_uring_prep_unlinkat(dfd, path, flags)
  | .unlink =>
    match m.path with
    | some p =>
      if s.opcode = OP_UNLINKAT ∧ s.flags = 0 ∧ s.addr = .ptr .heap 0 ∧ s.off = .num 0 ∧ s.len = 0
          ∧ s.fileIndex = 0 then
        some ⟨"unlinkat", [("dirfd", .i s.fd), ("path", .bytes p), ("flags", .n s.opFlags)]⟩
      else none
    | none => none
  -- io_uring_prep_fsync(fd, fsync_flags); io_fsync_prep rejects addr/buf_index/splice_fd_in
  | .fsync =>
    if s.opcode = OP_FSYNC ∧ flagsOk s F ∧ s.addr = .num 0 ∧ s.bufIndex = .idx 0 ∧ s.fileIndex = 0
        ∧ s.off = .num 0 ∧ s.len = 0 ∧ s.opFlags < 2 then
      some ⟨"fsync", fdArgs s ++ [("datasync", .n s.opFlags)]⟩
    else none
  -- io_uring_prep_statx(dfd, path, flags, mask, statxbuf): off = buffer.
  -- `fd` is a directory descriptor for the path lookup, never a registered
  -- file: io_statx_prep answers -EBADF to IOSQE_FIXED_FILE
  | .statx =>
    match m.path with
    | some p =>
      if s.opcode = OP_STATX ∧ flagsOk s IOSQE_ASYNC ∧ s.addr = .ptr .static 0 ∧ s.bufIndex = .idx 0
          ∧ s.fileIndex = 0 then
        some ⟨"statx", fdArgs s ++ [("path", .bytes p), ("flags", .n s.opFlags), ("mask", .n s.len),
          ("buf", .v s.off)]⟩
      else none
    | none => none
  -- io_uring_prep_fadvise(fd, offset, len, advice)
  | .fadvise =>
    if s.opcode = OP_FADVISE ∧ flagsOk s F ∧ isNum s.off ∧ s.addr = .num 0 ∧ s.bufIndex = .idx 0
        ∧ s.fileIndex = 0 then
      some ⟨"fadvise", fdArgs s ++ [("off", .v s.off), ("len", .n s.len), ("advice", .n s.opFlags)]⟩
    else none
  -- io_uring_prep_fallocate(fd, mode, offset, len): len in addr, mode in len
  | .fallocate =>
    if s.opcode = OP_FALLOCATE ∧ flagsOk s F ∧ isNum s.off ∧ isNum s.addr ∧ s.opFlags = 0
        ∧ s.bufIndex = .idx 0 ∧ s.fileIndex = 0 then
      some ⟨"fallocate", fdArgs s ++ [("mode", .n s.len), ("off", .v s.off), ("len", .v s.addr)]⟩
    else none
  -- io_uring_prep_ftruncate(fd, len): io_ftruncate_prep rejects everything else
  | .ftruncate =>
    if s.opcode = OP_FTRUNCATE ∧ flagsOk s F ∧ isNum s.off ∧ s.addr = .num 0 ∧ s.len = 0
        ∧ s.opFlags = 0 ∧ s.bufIndex = .idx 0 ∧ s.fileIndex = 0 ∧ s.addr3 = .num 0 then
      some ⟨"ftruncate", fdArgs s ++ [("len", .v s.off)]⟩
    else none
  -- io_uring_prep_socket(domain, type, protocol, flags) (+ _direct_alloc)
  | .socket =>
    if s.opcode = OP_SOCKET ∧ s.flags = 0 ∧ isNum s.off ∧ s.addr = .num 0 ∧ s.opFlags = 0 then
      some ⟨"socket", [("domain", .i s.fd), ("type", .v s.off), ("protocol", .n s.len),
        ("flags", .n s.opFlags), ("slot", .n s.fileIndex)]⟩
    else none
  -- io_uring_prep_bind(fd, addr, addrlen): addrlen in off(addr2)
  | .bind | .connect =>
    match m.addrBytes with
    | some b =>
      if s.opcode = (if op = .bind then OP_BIND else OP_CONNECT) ∧ flagsOk s F ∧ s.addr = .ptr .state 0
          ∧ s.off = .num b.length ∧ s.len = 0 ∧ s.opFlags = 0 ∧ s.bufIndex = .idx 0
          ∧ s.fileIndex = 0 then
        some ⟨if op = .bind then "bind" else "connect", fdArgs s ++ [("addr", .addr (kernelAddr b))]⟩
      else none
    | none => none
  -- io_uring_prep_listen(fd, backlog)
  | .listen =>
    if s.opcode = OP_LISTEN ∧ flagsOk s F ∧ s.addr = .num 0 ∧ s.off = .num 0 ∧ s.opFlags = 0
        ∧ s.fileIndex = 0 then
      some ⟨"listen", fdArgs s ++ [("backlog", .n s.len)]⟩
    else none
  -- io_uring_prep_cmd_getsockname(fd, addr, addrlen, peer): addr, addr3 = &len, optlen = peer
  | .sockname =>
    match m.alen with
    | some l =>
      if s.opcode = OP_URING_CMD ∧ flagsOk s F ∧ s.off = .num 5 ∧ s.addr = .ptr .state 0
          ∧ s.addr3 = .ptr .state 0 ∧ s.fileIndex < 2 ∧ s.len = 0 ∧ s.opFlags = 0 then
        some ⟨if s.fileIndex = 0 then "getsockname" else "getpeername",
          fdArgs s ++ [("addr", .v s.addr), ("addrlen", .n l)]⟩
      else none
    | none => none
  -- io_uring_prep_recv(fd, buf, len, flags)
  | .recv =>
    if s.opcode = OP_RECV ∧ flagsOk s F ∧ s.off = .num 0 ∧ s.ioprio = 0 ∧ s.bufIndex = .idx 0 then
      some ⟨"recv", fdArgs s ++ [("buf", .v s.addr), ("count", .n s.len), ("flags", .n s.opFlags)]⟩
    else none
  | .recvp =>
    if s.opcode = OP_RECV ∧ flagsOk s (F ||| IOSQE_BUFFER_SELECT) ∧ s.flags &&& IOSQE_BUFFER_SELECT ≠ 0
        ∧ s.off = .num 0 ∧ s.ioprio = 0 ∧ s.bufIndex = .pool ∧ s.addr = .num 0 then
      some ⟨"recv", fdArgs s ++ [("bufgroup", .n 1), ("count", .n s.len), ("flags", .n s.opFlags)]⟩
    else none
  -- io_uring_prep_recv_multishot: ioprio |= IORING_RECV_MULTISHOT, len must be 0
  | .mrecv =>
    if s.opcode = OP_RECV ∧ flagsOk s (F ||| IOSQE_BUFFER_SELECT) ∧ s.flags &&& IOSQE_BUFFER_SELECT ≠ 0
        ∧ s.off = .num 0 ∧ s.ioprio = 2 ∧ s.bufIndex = .pool ∧ s.addr = .num 0 ∧ s.len = 0
        ∧ s.userData = .multi then
      some ⟨"recv_multishot", fdArgs s ++ [("bufgroup", .n 1), ("flags", .n s.opFlags)]⟩
    else none
  -- io_uring_prep_recvmsg(fd, msg, flags): addr = msghdr, len = 1
  | .recvv | .recvfrom | .recvfromv =>
    match m.msg, m.iov with
    | some g, some iov =>
      if s.opcode = OP_RECVMSG ∧ flagsOk s F ∧ s.addr = .ptr .state 0 ∧ s.len = 1 ∧ s.off = .num 0
          ∧ s.ioprio = 0 ∧ g.iovlen = iov.length ∧ s.bufIndex = .idx 0 then
        some ⟨"recvmsg", fdArgs s ++ [("name", .v g.name), ("namelen", .n g.namelen), ("iov", .iov iov),
          ("control", .n g.controllen), ("flags", .n s.opFlags)]⟩
      else none
    | _, _ => none
  -- io_uring_prep_send(fd, buf, len, flags) / _send_zc
  | .send =>
    if (s.opcode = OP_SEND ∨ s.opcode = OP_SEND_ZC) ∧ flagsOk s F ∧ s.off = .num 0 ∧ s.ioprio = 0
        ∧ s.fileIndex = 0 ∧ s.bufIndex = .idx 0 then
      some ⟨"send", fdArgs s ++ [("buf", .v s.addr), ("count", .n s.len), ("flags", .n s.opFlags),
        ("zc", .n (if s.opcode = OP_SEND_ZC then 1 else 0))]⟩
    else none
  -- io_uring_prep_sendto: + addr2 = address, addr_len = its length
  | .sendto =>
    match m.addrBytes with
    | some b =>
      if (s.opcode = OP_SEND ∨ s.opcode = OP_SEND_ZC) ∧ flagsOk s F ∧ s.ioprio = 0
          ∧ s.fileIndex = b.length ∧ s.bufIndex = .idx 0
          ∧ (s.off = .ptr .state 0 ∨ (s.off = .num 0 ∧ b = [])) then
        some ⟨"sendto", fdArgs s ++ [("buf", .v s.addr), ("count", .n s.len), ("flags", .n s.opFlags),
          ("addr", if b = [] then .v (.num 0) else .addr (kernelAddr b)),
          ("zc", .n (if s.opcode = OP_SEND_ZC then 1 else 0))]⟩
      else none
    | none => none
  -- io_uring_prep_sendmsg(fd, msg, flags) / _sendmsg_zc
  | .sendmsg =>
    match m.msg, m.iov, m.addrBytes with
    | some g, some iov, some b =>
      if (s.opcode = OP_SENDMSG ∨ s.opcode = OP_SENDMSG_ZC) ∧ flagsOk s F ∧ s.addr = .ptr .state 0
          ∧ s.len = 1 ∧ s.off = .num 0 ∧ s.ioprio = 0 ∧ g.iovlen = iov.length ∧ g.namelen = b.length
          ∧ (g.name = .ptr .state 0 ∨ (g.name = .num 0 ∧ b = [])) then
        some ⟨"sendmsg", fdArgs s ++ [
          ("addr", if b = [] then .v (.num 0) else .addr (kernelAddr b)), ("iov", .iov iov),
          ("control", .n g.controllen), ("flags", .n s.opFlags),
          ("zc", .n (if s.opcode = OP_SENDMSG_ZC then 1 else 0))]⟩
      else none
    | _, _, _ => none
  -- io_uring_prep_accept(fd, addr, addrlen, flags) (+ _direct: file_index):
  -- addr, off(addr2) = &addrlen, accept_flags; io_accept_prep rejects
  -- SOCK_CLOEXEC together with a file slot
  | .accept =>
    match m.alen with
    | some l =>
      if s.opcode = OP_ACCEPT ∧ flagsOk s F ∧ s.off = .ptr .state 0 ∧ s.len = 0 ∧ s.ioprio = 0
          ∧ ¬ (s.fileIndex ≠ 0 ∧ s.opFlags &&& O_CLOEXEC ≠ 0) then
        some ⟨"accept4", fdArgs s ++ [("addr", .v s.addr), ("addrlen", .n l), ("flags", .n s.opFlags),
          ("slot", .n s.fileIndex)]⟩
      else none
    | none => none
  -- io_uring_prep_multishot_accept: ioprio |= IORING_ACCEPT_MULTISHOT
  | .maccept =>
    if s.opcode = OP_ACCEPT ∧ flagsOk s F ∧ s.off = .num 0 ∧ s.addr = .num 0 ∧ s.len = 0 ∧ s.ioprio = 1
        ∧ s.userData = .multi ∧ ¬ (s.fileIndex ≠ 0 ∧ s.opFlags &&& O_CLOEXEC ≠ 0) then
      some ⟨"accept4_multishot", fdArgs s ++ [("flags", .n s.opFlags), ("slot", .n s.fileIndex)]⟩
    else none
  -- io_uring_prep_cmd_sock(SOCKET_URING_OP_GETSOCKOPT, fd, level, optname, optval, optlen)
  | .getsockopt =>
    if s.opcode = OP_URING_CMD ∧ flagsOk s F ∧ s.off = .num 2 ∧ isNum s.addr ∧ s.addr3 = .ptr .state 0
        ∧ s.len = 0 ∧ s.opFlags = 0 then
      some ⟨"getsockopt", fdArgs s ++ [("level", .n (numOf s.addr % U32)), ("optname", .n (numOf s.addr / U32)),
        ("optval", .v s.addr3), ("optlen", .n s.fileIndex)]⟩
    else none
  | .setsockopt =>
    match m.optval with
    | some v =>
      if s.opcode = OP_URING_CMD ∧ flagsOk s F ∧ s.off = .num 3 ∧ isNum s.addr ∧ s.addr3 = .ptr .state 0
          ∧ s.len = 0 ∧ s.opFlags = 0 ∧ s.fileIndex = v.length then
        some ⟨"setsockopt", fdArgs s ++ [("level", .n (numOf s.addr % U32)),
          ("optname", .n (numOf s.addr / U32)), ("optval", .bytes v), ("optlen", .n s.fileIndex)]⟩
      else none
    | none => none
  -- io_uring_prep_shutdown(fd, how)
  | .shutdown =>
    if s.opcode = OP_SHUTDOWN ∧ flagsOk s F ∧ s.off = .num 0 ∧ s.addr = .num 0 ∧ s.opFlags = 0
        ∧ s.bufIndex = .idx 0 ∧ s.fileIndex = 0 then
      some ⟨"shutdown", fdArgs s ++ [("how", .n s.len)]⟩
    else none
  -- io_uring_prep_waitid(idtype, id, infop, options, flags): fd = id, len = idtype,
  -- addr2 = infop, file_index = options, waitid_flags must be 0
  | .waitid =>
    if s.opcode = OP_WAITID ∧ s.flags = 0 ∧ s.addr = .num 0 ∧ s.opFlags = 0 ∧ s.bufIndex = .idx 0 then
      some ⟨"waitid", [("idtype", .n s.len), ("id", .i s.fd), ("info", .v s.off),
        ("options", .n s.fileIndex)]⟩
    else none
  -- io_uring_prep_files_update(fds, nr_fds, offset): offset = IORING_FILE_INDEX_ALLOC
  | .todirect =>
    match m.fds with
    | some fds =>
      if s.opcode = OP_FILES_UPDATE ∧ s.flags = 0 ∧ s.addr = .ptr .state 0 ∧ s.len = fds.length
          ∧ isNum s.off ∧ s.opFlags = 0 then
        some ⟨"files_update", [("offset", .v s.off), ("fds", .ints fds), ("nr", .n s.len)]⟩
      else none
    | none => none
  -- io_uring_prep_fixed_fd_install(fd, flags): IOSQE_FIXED_FILE is required
  | .tofd =>
    if s.opcode = OP_FIXED_FD_INSTALL ∧ s.flags = IOSQE_FIXED_FILE ∧ s.off = .num 0 ∧ s.addr = .num 0
        ∧ s.len = 0 ∧ s.bufIndex = .idx 0 ∧ s.fileIndex = 0 then
      some ⟨"fixed_fd_install", fdArgs s ++ [("flags", .n s.opFlags)]⟩
    else none
  -- io_uring_prep_pipe(fds, flags) (+ _direct: file_index)
  | .pipe =>
    match m.fds with
    | some _ =>
      if s.opcode = OP_PIPE ∧ s.flags = 0 ∧ s.addr = .ptr .state 0 ∧ s.off = .num 0 ∧ s.len = 0
          ∧ s.bufIndex = .idx 0 ∧ s.fd = 0 then
        some ⟨"pipe2", [("fds", .v s.addr), ("flags", .n s.opFlags), ("slot", .n s.fileIndex)]⟩
      else none
    | none => none
  -- io_uring_prep_madvise(addr, length, advice)
  | .madvise =>
    if s.opcode = OP_MADVISE ∧ s.flags = 0 ∧ isNum s.addr ∧ s.off = .num 0 ∧ s.bufIndex = .idx 0
        ∧ s.fileIndex = 0 then
      some ⟨"madvise", [("addr", .v s.addr), ("len", .n s.len), ("advice", .n s.opFlags)]⟩
    else none
  -- io_uring_prep_poll_multishot(fd, poll_mask); io_poll_add_prep rejects buf_index/off/addr
  -- and any `len` bit other than IORING_POLL_ADD_MULTI; the events are `poll32_events`.
  -- (a10 additionally needs the multishot tag in `user_data` iff MULTI is asked for.)
  | .pollable =>
    if s.opcode = OP_POLL_ADD ∧ s.flags = 0 ∧ s.off = .num 0 ∧ s.addr = .num 0 ∧ s.bufIndex = .idx 0
        ∧ s.len ≤ IORING_POLL_ADD_MULTI ∧ (s.userData = .multi ↔ s.len = IORING_POLL_ADD_MULTI) then
      some ⟨"poll", [("fd", .i s.fd), ("events", .n s.opFlags), ("multi", .n s.len)]⟩
    else none

/-- Descriptor argument of the POSIX call: number + whether it is a direct one. -/
def pfd (a : Args) (k : FdKind) : List (String × Arg) :=
  [("fd", .i a.fd), ("fixed", .n (match k with | .file => 0 | .direct => 1))]

def kindBit : FdKind → Nat
  | .file => 0
  | .direct => 1

/-- New-descriptor slot: regular descriptor table (0) or "allocate a direct
descriptor" (`IORING_FILE_INDEX_ALLOC`). -/
def slotOf : FdKind → Nat
  | .file => 0
  | .direct => ALLOC

/-- Address argument as the caller means it (`NoAddress` = NULL). -/
def paddr (a : Args) : Arg :=
  if a.aty = .noaddr then .v (.num 0) else .addr (some a.addr)

/-- The system call each public API call stands for. -/
def posix (op : OpKind) (a : Args) (k : FdKind) : Syscall :=
  match op with
  | .read => ⟨"read", pfd a k ++ [("buf", .v (.ptr (.buf 0) a.bufPtr)), ("count", .n a.bufLen),
      ("off", .v (.num a.offset))]⟩
  | .readp => ⟨"read", pfd a k ++ [("bufgroup", .n 1), ("count", .n 0), ("off", .v (.num a.offset))]⟩
  | .mread => ⟨"read_multishot", pfd a k ++ [("bufgroup", .n 1)]⟩
  | .readv => ⟨"readv", pfd a k ++ [("iov", .iov (iovOf a.iov)), ("off", .v (.num a.offset))]⟩
  | .write => ⟨"write", pfd a k ++ [("buf", .v (.ptr (.buf 0) a.bufPtr)), ("count", .n a.bufLen),
      ("off", .v (.num a.offset))]⟩
  | .writev => ⟨"writev", pfd a k ++ [("iov", .iov (iovOf a.iov)), ("off", .v (.num a.offset))]⟩
  -- splice_to: this descriptor is the input; splice_from: the output. The other
  -- end (`target: BorrowedFd`) is always a regular descriptor.
  | .splice =>
    if a.dirTo then
      ⟨"splice", [("fd_in", .n a.fd), ("in_fixed", .n (kindBit k)), ("off_in", .v (.num a.offIn)),
        ("fd_out", .i a.target), ("out_fixed", .n 0), ("off_out", .v (.num a.offOut)),
        ("len", .n a.len), ("flags", .n a.flags)]⟩
    else
      ⟨"splice", [("fd_in", .n a.target), ("in_fixed", .n 0), ("off_in", .v (.num a.offIn)),
        ("fd_out", .i a.fd), ("out_fixed", .n (kindBit k)), ("off_out", .v (.num a.offOut)),
        ("len", .n a.len), ("flags", .n a.flags)]⟩
  | .close | .dropfd => ⟨"close", [("fd", .i a.target), ("fixed", .n (kindBit k))]⟩
  | .openat => ⟨"openat", [("dirfd", .i AT_FDCWD), ("path", .bytes a.path), ("flags", .n a.flags),
      ("mode", .n a.mode), ("slot", .n (slotOf a.ckind))]⟩
  | .mkdir => ⟨"mkdirat", [("dirfd", .i AT_FDCWD), ("path", .bytes a.path), ("mode", .n 511)]⟩
  | .rename => ⟨"renameat", [("olddirfd", .i AT_FDCWD), ("oldpath", .bytes a.path),
      ("newdirfd", .i AT_FDCWD), ("newpath", .bytes a.path2), ("flags", .n 0)]⟩
  | .unlink => ⟨"unlinkat", [("dirfd", .i AT_FDCWD), ("path", .bytes a.path),
      ("flags", .n (if a.which = 0 then 0 else AT_REMOVEDIR))]⟩
  | .fsync => ⟨"fsync", pfd a k ++ [("datasync", .n (if a.which = 0 then 0 else 1))]⟩
  | .statx => ⟨"statx", pfd a k ++ [("path", .bytes []), ("flags", .n AT_EMPTY_PATH), ("mask", .n a.flags),
      ("buf", .v (.ptr .state 0))]⟩
  | .fadvise => ⟨"fadvise", pfd a k ++ [("off", .v (.num a.offset)), ("len", .n a.len),
      ("advice", .n a.flags)]⟩
  | .fallocate => ⟨"fallocate", pfd a k ++ [("mode", .n a.flags), ("off", .v (.num a.offset)),
      ("len", .v (.num a.len))]⟩
  | .ftruncate => ⟨"ftruncate", pfd a k ++ [("len", .v (.num a.offset))]⟩
  | .socket => ⟨"socket", [("domain", .i a.domain), ("type", .v (.num (a.type ||| cloexec a.ckind))),
      ("protocol", .n a.protocol), ("flags", .n 0), ("slot", .n (slotOf a.ckind))]⟩
  | .bind => ⟨"bind", pfd a k ++ [("addr", .addr (some a.addr))]⟩
  | .connect => ⟨"connect", pfd a k ++ [("addr", .addr (some a.addr))]⟩
  | .listen => ⟨"listen", pfd a k ++ [("backlog", .n a.len)]⟩
  | .sockname => ⟨if a.which = 0 then "getsockname" else "getpeername",
      pfd a k ++ [("addr", .v (.ptr .state 0)), ("addrlen", .n (mutLen a.aty))]⟩
  | .recv => ⟨"recv", pfd a k ++ [("buf", .v (.ptr (.buf 0) a.bufPtr)), ("count", .n a.bufLen),
      ("flags", .n a.flags)]⟩
  | .recvp => ⟨"recv", pfd a k ++ [("bufgroup", .n 1), ("count", .n 0), ("flags", .n a.flags)]⟩
  | .mrecv => ⟨"recv_multishot", pfd a k ++ [("bufgroup", .n 1), ("flags", .n a.flags)]⟩
  | .recvv => ⟨"recvmsg", pfd a k ++ [("name", .v (.num 0)), ("namelen", .n 0), ("iov", .iov (iovOf a.iov)),
      ("control", .n 0), ("flags", .n a.flags)]⟩
  | .recvfrom => ⟨"recvmsg", pfd a k ++ [
      ("name", .v (if a.aty = .noaddr then .num 0 else .ptr .state 0)), ("namelen", .n (mutLen a.aty)),
      ("iov", .iov [(.ptr (.buf 0) a.bufPtr, a.bufLen)]), ("control", .n 0), ("flags", .n a.flags)]⟩
  | .recvfromv => ⟨"recvmsg", pfd a k ++ [
      ("name", .v (if a.aty = .noaddr then .num 0 else .ptr .state 0)), ("namelen", .n (mutLen a.aty)),
      ("iov", .iov (iovOf a.iov)), ("control", .n 0), ("flags", .n a.flags)]⟩
  | .send => ⟨"send", pfd a k ++ [("buf", .v (.ptr (.buf 0) a.bufPtr)), ("count", .n a.bufLen),
      ("flags", .n a.flags), ("zc", .n (if a.zc then 1 else 0))]⟩
  | .sendto => ⟨"sendto", pfd a k ++ [("buf", .v (.ptr (.buf 0) a.bufPtr)), ("count", .n a.bufLen),
      ("flags", .n a.flags), ("addr", paddr a), ("zc", .n (if a.zc then 1 else 0))]⟩
  | .sendmsg => ⟨"sendmsg", pfd a k ++ [("addr", paddr a), ("iov", .iov (iovOf a.iov)), ("control", .n 0),
      ("flags", .n a.flags), ("zc", .n (if a.zc then 1 else 0))]⟩
  -- the accepted descriptor has the listener's kind: close-on-exec for a regular
  -- one, a freshly allocated slot for a direct one
  | .accept => ⟨"accept4", pfd a k ++ [("addr", .v (if a.aty = .noaddr then .num 0 else .ptr .state 0)),
      ("addrlen", .n (mutLen a.aty)), ("flags", .n (a.flags ||| cloexec k)), ("slot", .n (slotOf k))]⟩
  | .maccept => ⟨"accept4_multishot", pfd a k ++ [("flags", .n (a.flags ||| cloexec k)),
      ("slot", .n (slotOf k))]⟩
  | .getsockopt => ⟨"getsockopt", pfd a k ++ [("level", .n a.level), ("optname", .n a.optname),
      ("optval", .v (.ptr .state 0)), ("optlen", .n a.optlen)]⟩
  | .setsockopt => ⟨"setsockopt", pfd a k ++ [("level", .n a.level), ("optname", .n a.optname),
      ("optval", .bytes a.optval), ("optlen", .n a.optlen)]⟩
  | .shutdown => ⟨"shutdown", pfd a k ++ [("how", .n a.which)]⟩
  | .waitid => ⟨"waitid", [("idtype", .n a.which), ("id", .i (toI32 a.pid)), ("info", .v (.ptr .state 0)),
      ("options", .n a.flags)]⟩
  | .sigrecv => ⟨"read", pfd a k ++ [("buf", .v (.ptr .state 0)), ("count", .n 128),
      ("off", .v (.num NO_OFFSET))]⟩
  | .todirect => ⟨"files_update", [("offset", .v (.num NO_OFFSET)), ("fds", .ints [(a.fd : Int)]),
      ("nr", .n 1)]⟩
  | .tofd => ⟨"fixed_fd_install", pfd a k ++ [("flags", .n 0)]⟩
  | .pipe => ⟨"pipe2", [("fds", .v (.ptr .state 0)), ("flags", .n (a.flags ||| cloexec a.ckind)),
      ("slot", .n (slotOf a.ckind))]⟩
  | .madvise => ⟨"madvise", [("addr", .v (.num a.address)), ("len", .n a.len), ("advice", .n a.flags)]⟩
  -- wait, again and again, until the other ring has a completion to read (or hung up / failed):
  -- edge triggered, one waiter woken
  | .pollable => ⟨"poll", [("fd", .i a.fd), ("events", .n POLLABLE_EVENTS), ("multi", .n 1)]⟩


/-! ### Builder methods

Every builder method goes through `OpState::args_mut` / `resources_mut`
(src/io_uring/op.rs:148-180), which give access only while the status is
`NotStarted`. -/

inductive Setter where
  /-- `Read::from`, `ReadVectored::from`, `Write::at`, `WriteVectored::at` (src/io/mod.rs:330-384) -/
  | offset (v : Nat)
  /-- `Splice::from` / `Splice::at` / `Splice::flags` (src/io/mod.rs:400-428) -/
  | offIn (v : Nat)
  | offOut (v : Nat)
  /-- `flags` of splice/recv*/send*/accept*/pipe/waitid, `Stat::only`, `Allocate::mode` -/
  | flags (v : Nat)
  /-- `Send::zc`, `SendTo::zc`, `SendMsg::zc` (src/net.rs:1173-1218) -/
  | zc
  /-- `Socket::kind`, `Pipe::kind` (src/net.rs:198-203, src/pipe.rs:78-83) -/
  | kind (k : FdKind)
  deriving Repr, DecidableEq, Inhabited

def Setter.set (s : Setter) (a : Args) : Args :=
  match s with
  | .offset v => { a with offset := v }
  | .offIn v => { a with offIn := v }
  | .offOut v => { a with offOut := v }
  | .flags v => { a with flags := v }
  | .zc => { a with zc := true }
  | .kind k => { a with ckind := k }

/-- A builder method applied to an operation whose state machine is `o`. -/
def Setter.apply (s : Setter) (o : A10.Op) (a : Args) : Args :=
  if o.builderAccess then s.set a else a

/-! ### `OpenOptions` (src/fs.rs:28-193) -/

def O_ACCMODE : Nat := 3
def O_WRONLY : Nat := 1
def O_RDWR : Nat := 2
def O_CREAT : Nat := 64
def O_EXCL : Nat := 128
def O_TRUNC : Nat := 512
def O_APPEND : Nat := 1024
def O_DSYNC : Nat := 4096
def O_DIRECT : Nat := 16384
def O_SYNC : Nat := 1052672
def O_TMPFILE : Nat := 4259840

structure OpenOptions where
  flags : Nat := 0
  mode : Nat := 438
  kind : FdKind := .file
  deriving Repr, DecidableEq, Inhabited

inductive OpenSetter where
  | read | write | writeOnly | append | truncate | create | createNew | dataSync | sync | direct
  | mode (m : Nat)
  | kind (k : FdKind)
  deriving Repr, DecidableEq, Inhabited

/-- `flags &= !O_ACCMODE; flags |= m` — clearing the two low bits is
`flags - flags % 4`, after which `| m` (`m < 4`) is `+ m`. -/
def setAccMode (flags m : Nat) : Nat := flags - flags % 4 + m

def OpenSetter.set (s : OpenSetter) (o : OpenOptions) : OpenOptions :=
  match s with
  | .read => if o.flags % 4 = O_WRONLY then { o with flags := setAccMode o.flags O_RDWR } else o
  | .write => if o.flags % 4 = 0 then { o with flags := setAccMode o.flags O_RDWR } else o
  | .writeOnly => { o with flags := setAccMode o.flags O_WRONLY }
  | .append => { o with flags := o.flags ||| O_APPEND }
  | .truncate => { o with flags := o.flags ||| O_TRUNC }
  | .create => { o with flags := o.flags ||| O_CREAT }
  | .createNew => { o with flags := o.flags ||| (O_CREAT ||| O_EXCL) }
  | .dataSync => { o with flags := o.flags ||| O_DSYNC }
  | .sync => { o with flags := o.flags ||| O_SYNC }
  | .direct => { o with flags := o.flags ||| O_DIRECT }
  | .mode m => { o with mode := m % U32 }
  | .kind k => { o with kind := k }

/-- `OpenOptions::open` / `open_temp_file` (src/fs.rs:181-192): the arguments of
the `Open` operation. -/
def OpenOptions.openArgs (o : OpenOptions) (tmp : Bool) (path : List Nat) : Args :=
  let flags := if tmp then o.flags ||| O_TMPFILE else o.flags
  { flags := flags ||| cloexec o.kind, mode := o.mode, ckind := o.kind, path := path }

/-! ### Decoders -/

/-- `CompletionResult::check_result` (src/io_uring/op.rs:371-378). -/
def checkResult (res : Int) : Except Int Nat :=
  if 0 ≤ res then .ok res.toNat else .error (-res)

/-- `fallback` (op.rs:992-1000): `EINVAL` becomes `ErrorKind::Unsupported`. -/
inductive IoErr where
  | os (e : Int)
  | unsupported
  deriving Repr, DecidableEq, Inhabited

def fallbackErr (e : Int) : IoErr := if e = 22 then .unsupported else .os e

/-- `AsyncFd::from_raw` (src/fd.rs:88-96): a direct descriptor has the sign bit set. -/
def fromRaw (fd : Nat) (k : FdKind) : Int :=
  match k with
  | .file => toI32 fd
  | .direct => toI32 (fd ||| 2147483648)

/-- `AsyncFd::kind` (src/fd.rs:121-127). -/
def kindOf (stored : Int) : FdKind := if stored < 0 then .direct else .file

/-- `AsyncFd::fd` (src/fd.rs:165-168): clear the sign bit. -/
def fdOf (stored : Int) : Nat :=
  (if stored < 0 then (stored + 4294967296).toNat else stored.toNat) % 2147483648

/-- `BufMutSlice::set_init` for arrays (src/io/traits.rs:400-420) on `Vec`s:
the new lengths, or `none` for the `unreachable!`. `bufs` = (capacity, length). -/
def setInitV : List (Nat × Nat) → Nat → Option (List Nat)
  | [], _ => none
  | (cap, len) :: rest, left =>
    let spare := cap - len
    if spare < left then
      (setInitV rest (left - spare)).map (fun r => (len + spare) :: r)
    else some ((len + left) :: rest.map (·.2))

/-- `timestamp` (src/io_uring/fs.rs:473-482): nanoseconds relative to the Unix
epoch; `none` = arithmetic overflow panic. `sec` is an `i64`, `nsec` a `u32`. -/
def timestamp (sec : Int) (nsec : Nat) : Option Int :=
  if sec < 0 then
    -- UNIX_EPOCH - Duration::from_secs(|sec|) + Duration::new(0, nsec)
    some (-( (-sec) * 1000000000) + nsec)
  else
    -- UNIX_EPOCH + Duration::new(sec as u64, nsec): the seconds (with the
    -- nanosecond carry) must fit an i64
    if sec + nsec / 1000000000 > 9223372036854775807 then none
    else some (sec * 1000000000 + nsec)

/-- The code before `fix: Metadata timestamps before the Unix epoch`:
`ts.tv_sec as u64` first. -/
def timestampOld (sec : Int) (nsec : Nat) : Option Int :=
  let s : Int := if sec < 0 then sec + 18446744073709551616 else sec
  if s + nsec / 1000000000 > 9223372036854775807 then none
  else some (s * 1000000000 + nsec)

/-- `WaitInfo::status` (src/process.rs, with the `fix:` commit 52243a1): the raw value of the
`ExitStatus` it returns. `ExitStatus::from_raw` takes a wait status as `wait(2)` returns it, so
`si_status` is encoded according to `si_code` (`CLD_EXITED` 1, `CLD_KILLED` 2, `CLD_DUMPED` 3,
`CLD_TRAPPED` 4, `CLD_STOPPED` 5, `CLD_CONTINUED` 6; anything else is passed through). `status`
is an `i32`; the bit operations act on its two's complement. -/
def waitStatus (code status : Int) : Int :=
  let u : Nat := (status % 4294967296).toNat
  if code = 1 then ((u % 256 * 256 : Nat) : Int)
  else if code = 2 then ((u % 128 : Nat) : Int)
  else if code = 3 then ((u % 128 + 128 : Nat) : Int)
  else if code = 4 ∨ code = 5 then ((u % 256 * 256 + 127 : Nat) : Int)
  else if code = 6 then 65535
  else status

/-- Before the fix: `si_status` as is. -/
def waitStatusOld (_code status : Int) : Int := status

/-- The `wait(2)` status macros (`WIFEXITED`, `WEXITSTATUS`, `WIFSIGNALED`, `WTERMSIG`,
`WCOREDUMP`, `WIFSTOPPED`, `WSTOPSIG`, `WIFCONTINUED`) on a non-negative status word. -/
def wifexited (w : Int) : Bool := w % 128 = 0
def wexitstatus (w : Int) : Int := w / 256 % 256
def wifsignaled (w : Int) : Bool := w % 128 ≠ 0 ∧ w % 128 ≠ 127
def wtermsig (w : Int) : Int := w % 128
def wcoredump (w : Int) : Bool := w / 128 % 2 = 1
def wifstopped (w : Int) : Bool := w % 256 = 127
def wstopsig (w : Int) : Int := w / 256 % 256
def wifcontinued (w : Int) : Bool := w = 65535

/-- `FileType` tests (src/fs.rs:593-635) as the one-letter form of its `Debug`. -/
def fileTypeChar (mode : Nat) : String :=
  let t := mode &&& 61440
  if t = 16384 then "d" else if t = 32768 then "-" else if t = 40960 then "l"
  else if t = 49152 then "s" else if t = 24576 then "b" else if t = 8192 then "c"
  else if t = 4096 then "p" else "?"

/-- `Permissions` accessors (src/fs.rs:685-738) in `ls` form. -/
def permString (mode : Nat) : String :=
  let b (m : Nat) (c : Char) : Char := if mode &&& m ≠ 0 then c else '-'
  String.ofList [b 256 'r', b 128 'w', b 64 'x', b 32 'r', b 16 'w', b 8 'x', b 4 'r', b 2 'w', b 1 'x']

/-- Socket options of `a10::net::option` (src/net/option.rs). -/
inductive SockOpt where
  | error | keepAlive | linger | reuseAddress | reusePort | type | recvBuf | sendBuf
  | recvLowWater | sendLowWater | tcpNoDelay | tcpKeepAliveCount | tcpKeepAliveInterval
  | domain | protocol | accept | tcpKeepAliveIdle | incomingCpu | tcpCork
  deriving Repr, DecidableEq, Inhabited

/-- How an option's storage is interpreted. -/
inductive OptTy where
  | errno | bool | linger | u32 | i32 | cpu
  deriving Repr, DecidableEq, Inhabited

/-- (level, optname, type, readable, writable). SOL_SOCKET = 1, IPPROTO_TCP = 6. -/
def SockOpt.info : SockOpt → Nat × Nat × OptTy × Bool × Bool
  | .error => (1, 4, .errno, true, false)
  | .keepAlive => (1, 9, .bool, true, true)
  | .linger => (1, 13, .linger, true, true)
  | .reuseAddress => (1, 2, .bool, true, true)
  | .reusePort => (1, 15, .bool, true, true)
  | .type => (1, 3, .u32, true, false)
  | .recvBuf => (1, 8, .u32, true, true)
  | .sendBuf => (1, 7, .u32, true, true)
  | .recvLowWater => (1, 18, .u32, true, true)
  | .sendLowWater => (1, 19, .u32, true, false)
  | .tcpNoDelay => (6, 1, .bool, true, true)
  | .tcpKeepAliveCount => (6, 6, .u32, true, true)
  | .tcpKeepAliveInterval => (6, 5, .u32, true, true)
  | .domain => (1, 39, .i32, true, false)
  | .protocol => (1, 38, .u32, true, false)
  | .accept => (1, 30, .bool, true, false)
  | .tcpKeepAliveIdle => (6, 4, .u32, true, true)
  | .incomingCpu => (1, 49, .cpu, true, true)
  | .tcpCork => (6, 3, .bool, true, true)

def OptTy.size : OptTy → Nat
  | .linger => 8
  | _ => 4

def le32At (bs : List Nat) (off : Nat) : Nat := Addr.rd32le bs off

/-- `option::Get::init`: the decoded value in canonical text; `none` = the
length assertion fails (panic). -/
def decodeOpt (t : OptTy) (bs : List Nat) (n : Nat) : Option String :=
  if n ≠ t.size then none
  else
    let v := le32At bs 0
    let sv := toI32 v
    some (match t with
    | .errno => if v = 0 then "none" else s!"some:{sv}"
    | .bool => if sv ≥ 1 then "true" else "false"
    | .linger => if toI32 v > 0 then s!"some:{le32At bs 4}" else "none"
    | .u32 => toString v
    | .i32 => toString sv
    | .cpu => if sv < 0 then "none" else s!"some:{v}")

/-- `option::Set::as_storage`: the bytes handed to `setsockopt`.
`val = none` only for linger (`Option<u32>`). -/
def encodeOpt (t : OptTy) (val : Option Nat) : List Nat :=
  match t with
  | .linger => Addr.le32 (if val.isSome then 1 else 0) ++ Addr.le32 (val.getD 0)
  | .bool => Addr.le32 (if val.getD 0 = 0 then 0 else 1)
  | _ => Addr.le32 (val.getD 0)

/-! ### Line protocol -/

def showRes : Resource → String
  | .buf i => s!"buf{i}"
  | .state => "state"
  | .heap => "heap"
  | .static => "static"

def showVal : Val → String
  | .num n => toString n
  | .ptr (.buf i) o => s!"buf{i}+{o}"
  | .ptr r _ => showRes r

def showIov (l : List (Val × Nat)) : String :=
  if l.isEmpty then "-" else joinWith "," (l.map fun (v, n) => s!"{showVal v}:{n}")

def showInts (l : List Int) : String :=
  if l.isEmpty then "-" else joinWith "," (l.map toString)

def showSqe (tag : String) (s : Sqe) : String :=
  let bidx := match s.bufIndex with | .idx n => toString n | .pool => "pool"
  let ud := match s.userData with | .single => "single" | .multi => "multi" | .raw n => toString n
  s!"{tag} op={s.opcode} fl={s.flags} prio={s.ioprio} fd={s.fd} off={showVal s.off} addr={showVal s.addr} len={s.len} opfl={s.opFlags} bidx={bidx} pers={s.personality} fidx={s.fileIndex} addr3={showVal s.addr3} ud={ud}"

def showMem (m : Mem) : List String :=
  let parts : List String :=
    (match m.iov with | some l => [s!"iov={showIov l}"] | none => []) ++
    (match m.msg with
      | some g => [s!"msgname={showVal g.name}", s!"msgnamelen={g.namelen}", s!"msgiovlen={g.iovlen}",
          s!"msgctl={g.control}:{g.controllen}", s!"msgflags={g.flags}"]
      | none => []) ++
    (match m.addrBytes with | some b => [s!"addr={Addr.hex b}"] | none => []) ++
    (match m.alen with | some n => [s!"alen={n}"] | none => []) ++
    (match m.path with | some b => [s!"path={Addr.hex b}"] | none => []) ++
    (match m.path2 with | some b => [s!"path2={Addr.hex b}"] | none => []) ++
    (match m.optval with | some b => [s!"optval={Addr.hex b}"] | none => []) ++
    (match m.fds with | some l => [s!"fds={showInts l}"] | none => [])
  if parts.isEmpty then [] else ["mem " ++ joinWith " " parts]

def showArg : Arg → String
  | .n v => toString v
  | .i v => toString v
  | .v v => showVal v
  | .bytes b => Addr.hex b
  | .iov l => showIov l
  | .addr (some a) => Addr.showAddr a
  | .addr none => "invalid"
  | .ints l => showInts l

def showCall : Option Syscall → String
  | none => "call rejected"
  | some c => "call " ++ c.name ++ String.join (c.args.map fun (k, v) => s!" {k}={showArg v}")

/-- Driver state: the descriptors of the current case. -/
structure St where
  rfd : Nat := 0
  dfd : Nat := 0
  tfd : Nat := 0
  ok : Bool := false
  deriving Repr, Inhabited

/-- Regular descriptor numbers the harness may create (kept away from the
descriptors the process itself uses). -/
def regOk (st : St) (n : Nat) : Bool := 600 ≤ n && n < 1000 && n != st.rfd && n != st.tfd

/-- A descriptor number the (simulated) kernel may return for kind `k`. -/
def newFdOk (st : St) (k : FdKind) (n : Nat) : Bool :=
  match k with
  | .file => regOk st n
  | .direct => n < 2147483647

def init : St := {}

def parseKind (s : String) : Option FdKind :=
  if s == "f" then some .file else if s == "d" then some .direct else none

/-- `none`, or a natural number. -/
def optNat (toks : List String) (key : String) : Option (Option Nat) :=
  match findKv key toks with
  | none => none
  | some v => if v == "none" then some none else (parseNat v).map some

/-- `cap:len,cap:len` -/
def parsePairs (s : String) : Option (List (Nat × Nat)) :=
  if s == "-" || s == "" then some []
  else (s.splitOn ",").mapM fun p =>
    match p.splitOn ":" with
    | [a, b] => do
      let x ← parseNat a
      let y ← parseNat b
      pure (x, y)
    | _ => none

/-- Address specs: `v4:<ip>:<port>`, `v6:<ip>:<port>:<flow>:<scope>`,
`any4:…`, `any6:…`, `path:<hex>`, `abstract:<hex>`, `unnamed`, `none`. -/
def parseAddr (s : String) : Option (ATy × Addr) :=
  match s.splitOn ":" with
  | ["none"] => some (.noaddr, .unnamed)
  | ["unnamed"] => some (.unix, .unnamed)
  | ["path", h] => do
    let p ← Addr.unhex h
    if p.isEmpty || p.length > 107 || p.contains 0 then none else pure (.unix, .path p)
  | ["abstract", h] => do
    let p ← Addr.unhex h
    if p.length > 107 then none else pure (.unix, .abstr p)
  | [t, ip, port] => do
    let ip ← Addr.unhex ip
    let port ← parseNat port
    if ip.length ≠ 4 || port ≥ 65536 then none
    else if t == "v4" then pure (.v4, .v4 ip port)
    else if t == "any4" then pure (.any, .v4 ip port)
    else none
  | [t, ip, port, flow, scope] => do
    let ip ← Addr.unhex ip
    let port ← parseNat port
    let flow ← parseNat flow
    let scope ← parseNat scope
    if ip.length ≠ 16 || port ≥ 65536 || flow ≥ U32 || scope ≥ U32 then none
    else if t == "v6" then pure (.v6, .v6 ip port flow scope)
    else if t == "any6" then pure (.any, .v6 ip port flow scope)
    else none
  | _ => none

def parseATy (s : String) : Option ATy :=
  if s == "none" then some .noaddr else if s == "v4" then some .v4 else if s == "v6" then some .v6
  else if s == "any" then some .any else if s == "unix" then some .unix else none

/-- Full kernel representation of an address (what `getsockname`/`accept`
write), before truncation to the reported length. -/
def kernelBytes : Addr → List Nat
  | .v4 ip port => Addr.storageV4 ip port
  | .v6 ip port flow scope => Addr.storageV6 ip port flow scope
  | a => Addr.storageUnix a

/-- `A::init(storage, klen)` on a storage whose first `klen` bytes the kernel
wrote over 0xAA junk; `none` = a debug assertion fails (dev profile). -/
def decodeAddr (ty : ATy) (peer : Addr) (klen : Nat) : Option String :=
  let full := kernelBytes peer
  let st := full.take klen ++ List.replicate (mutLen ty - klen) 170
  let fam := Addr.rd16le st 0
  match ty with
  | .noaddr => if klen = 0 then some "none" else none
  | .v4 => if klen = 16 ∧ fam = Addr.AF_INET then some (Addr.showAddr (Addr.initV4 st)) else none
  | .v6 => if klen = 28 ∧ fam = Addr.AF_INET6 then some (Addr.showAddr (Addr.initV6 st)) else none
  | .any =>
    if klen < 2 then none
    else if fam = Addr.AF_INET then
      if klen = 16 then some (Addr.showAddr (Addr.initV4 (st.take 16))) else none
    else if klen = 28 ∧ fam = Addr.AF_INET6 then some (Addr.showAddr (Addr.initV6 st)) else none
  | .unix =>
    -- no address written (recvmsg from an unbound sender): unnamed, nothing is read (fix 2945ba2)
    if klen < 2 then some (Addr.showAddr (Addr.initUnix st klen))
    else if fam ≠ Addr.AF_UNIX then none else some (Addr.showAddr (Addr.initUnix st klen))

def parseSockOpt (s : String) : Option SockOpt :=
  [("error", SockOpt.error), ("keepalive", .keepAlive), ("linger", .linger), ("reuseaddr", .reuseAddress),
   ("reuseport", .reusePort), ("type", .type), ("recvbuf", .recvBuf), ("sendbuf", .sendBuf),
   ("recvlowat", .recvLowWater), ("sendlowat", .sendLowWater), ("nodelay", .tcpNoDelay),
   ("keepcnt", .tcpKeepAliveCount), ("keepintvl", .tcpKeepAliveInterval), ("domain", .domain),
   ("protocol", .protocol), ("acceptconn", .accept), ("keepidle", .tcpKeepAliveIdle),
   ("incomingcpu", .incomingCpu), ("cork", .tcpCork)].lookup s

def parseOpenSetters (s : String) : Option (List OpenSetter) :=
  if s == "-" then some []
  else (s.splitOn ",").mapM fun t =>
    [("r", OpenSetter.read), ("w", .write), ("wo", .writeOnly), ("a", .append), ("t", .truncate),
     ("c", .create), ("cn", .createNew), ("ds", .dataSync), ("s", .sync), ("di", .direct)].lookup t

def opOfName (s : String) : Option OpKind :=
  [("read", OpKind.read), ("readp", .readp), ("mread", .mread), ("readv", .readv), ("write", .write),
   ("writev", .writev), ("splice", .splice), ("close", .close), ("dropfd", .dropfd), ("open", .openat),
   ("mkdir", .mkdir), ("rename", .rename), ("unlink", .unlink), ("fsync", .fsync), ("statx", .statx),
   ("fadvise", .fadvise), ("fallocate", .fallocate), ("ftruncate", .ftruncate), ("socket", .socket),
   ("bind", .bind), ("listen", .listen), ("connect", .connect), ("sockname", .sockname),
   ("recv", .recv), ("recvp", .recvp), ("mrecv", .mrecv), ("recvv", .recvv), ("recvfrom", .recvfrom),
   ("recvfromv", .recvfromv), ("send", .send), ("sendto", .sendto), ("sendmsg", .sendmsg),
   ("accept", .accept), ("maccept", .maccept), ("getsockopt", .getsockopt),
   ("setsockopt", .setsockopt), ("shutdown", .shutdown), ("waitid", .waitid), ("sigrecv", .sigrecv),
   ("todirect", .todirect), ("tofd", .tofd), ("pipe", .pipe), ("madvise", .madvise),
   ("pollable", .pollable)].lookup s

/-- Operations that run on a `SubmissionQueue` (no `AsyncFd`, no `use_flags`). -/
def OpKind.onQueue : OpKind → Bool
  | .close | .dropfd | .openat | .mkdir | .rename | .unlink | .socket | .waitid | .pipe | .madvise
  | .pollable => true
  | _ => false

/-- Values of a `new_flag!` type with `impl BitOr`: a non-empty union of its
public constants (a zero value cannot be built through the public API). -/
def validBits (bits : List Nat) (n : Nat) : Bool :=
  n != 0 && (n ||| bits.foldl (· ||| ·) 0) == bits.foldl (· ||| ·) 0

def SPLICE_BITS : List Nat := [1, 4]
def RECV_BITS : List Nat := [1073741824, 8192, 1, 2, 256]
def SEND_BITS : List Nat := [2048, 4, 128, 32768, 1, 536870912]
def ALLOC_BITS : List Nat := [1, 64, 2, 8, 16, 32]
def STATX_BITS : List Nat := [1, 512, 1024, 2, 64, 32, 2048]
def MADVISE_VALUES : List Nat :=
  [0, 1, 2, 3, 4, 9, 10, 11, 100, 12, 13, 101, 14, 15, 25, 16, 17, 8, 18, 19, 20, 21, 22, 23]
def WAIT_VALUES : List Nat := [2, 4, 8, 16777216]
def DOMAIN_VALUES : List Int := [2, 10, 1, 17, 40]
def PROTO_VALUES : List Nat := [1, 58, 6, 17, 33, 132, 136, 255, 262]
/-- Largest buffer the harness allocates. -/
def MAXBUF : Nat := 4096

/-- An optional flag word: `none` (builder not called) or a valid value. -/
def optFlags (toks : List String) (key : String) (ok : Nat → Bool) : Option Nat :=
  match optNat toks key with
  | some none => some 0
  | some (some v) => if ok v then some v else none
  | none => none

def findBounded (key : String) (toks : List String) (bound : Nat) : Option Nat :=
  (findNat key toks).bind fun v => if v < bound then some v else none

/-- Decoded output of a successful completion with result `n`. What the
completion carried besides `res` comes from the op line (`toks`). `none` =
malformed line. -/
def decodeOk (st0 : St) (op : OpKind) (a : Args) (k : FdKind) (toks : List String)
    (bufs : List (Nat × Nat)) (n : Nat) : Option String :=
  let unit (expect : Nat) : Option String := some (if n = expect then "ok" else "panic")
  match op with
  -- io.rs:353-365, net.rs:241-253: `set_init(n)` on the Vec
  | .read | .recv =>
    match bufs with
    | [(cap, len)] => if n ≤ cap - len then some s!"ok len={len + n}" else none
    | _ => none
  | .readp | .recvp | .mread | .mrecv => if n ≤ 64 then some s!"ok len={n}" else none
  | .readv => (setInitV bufs n).map fun l => s!"ok lens={showNatList l}"
  | .recvv => do
    let l ← setInitV bufs n
    let mf ← findBounded "mflags" toks U32
    pure s!"ok lens={showNatList l} mflags={toI32 mf}"
  | .write | .writev | .splice | .send | .sendto | .sendmsg => some s!"ok n={n}"
  | .close | .mkdir | .rename | .unlink | .fsync | .fadvise | .fallocate | .ftruncate | .bind | .listen
  | .connect | .setsockopt | .shutdown | .madvise => unit 0
  | .dropfd => some "ok"
  | .openat | .socket =>
    let st := fromRaw n a.ckind
    if !newFdOk st0 a.ckind n then none
    else some s!"ok fd={fdOf st} kind={if kindOf st = .direct then "d" else "f"}"
  | .tofd =>
    let st := fromRaw n .file
    if !newFdOk st0 .file n then none
    else some s!"ok fd={fdOf st} kind={if kindOf st = .direct then "d" else "f"}"
  | .maccept =>
    let st := fromRaw n k
    if !newFdOk st0 k n then none
    else some s!"ok fd={fdOf st} kind={if kindOf st = .direct then "d" else "f"}"
  -- poll.rs:39: the returned event mask is not looked at
  | .pollable => some "ok"
  | .accept => do
    let st := fromRaw n k
    if !newFdOk st0 k n then none
    let (_, peer) ← (findKv "peer" toks).bind parseAddr
    let klen ← findNat "klen" toks
    if klen > mutLen a.aty then none
    else match decodeAddr a.aty peer klen with
      | some s => pure s!"ok fd={fdOf st} kind={if kindOf st = .direct then "d" else "f"} addr={s}"
      | none => pure "panic"
  | .sockname => do
    let (_, peer) ← (findKv "peer" toks).bind parseAddr
    let klen ← findNat "klen" toks
    if klen > mutLen a.aty then none
    else match decodeAddr a.aty peer klen with
      | some s => pure s!"ok addr={s}"
      | none => pure "panic"
  | .recvfrom => do
    let (_, peer) ← (findKv "peer" toks).bind parseAddr
    let klen ← findNat "klen" toks
    let mf ← findBounded "mflags" toks U32
    match bufs with
    | [(cap, len)] =>
      if n > cap - len ∨ klen > mutLen a.aty then none
      else match decodeAddr a.aty peer klen with
        | some s => pure s!"ok len={len + n} addr={s} mflags={toI32 mf}"
        | none => pure "panic"
    | _ => none
  | .recvfromv => do
    let (_, peer) ← (findKv "peer" toks).bind parseAddr
    let klen ← findNat "klen" toks
    let mf ← findBounded "mflags" toks U32
    let l ← setInitV bufs n
    if klen > mutLen a.aty then none
    else match decodeAddr a.aty peer klen with
      | some s => pure s!"ok lens={showNatList l} addr={s} mflags={toI32 mf}"
      | none => pure "panic"
  | .statx => do
    -- stx=mask:mode:size:blksize:asec:ansec:msec:mnsec:bsec:bnsec
    let f ← findKv "stx" toks
    match f.splitOn ":" with
    | [mask, mode, size, blk, as, an, ms, mn, bs, bn] => do
      let mask ← parseNat mask
      let mode ← parseNat mode
      let size ← parseNat size
      let blk ← parseNat blk
      let as ← parseInt as
      let an ← parseNat an
      let ms ← parseInt ms
      let mn ← parseNat mn
      let bs ← parseInt bs
      let bn ← parseNat bn
      let i64ok (x : Int) : Bool := -9223372036854775808 ≤ x && x ≤ 9223372036854775807
      if mask ≥ U32 || mode ≥ 65536 || size ≥ U64 || blk ≥ U32 || an ≥ U32 || mn ≥ U32 || bn ≥ U32
          || !i64ok as || !i64ok ms || !i64ok bs then none else
      let ts (x : Option Int) : String := match x with | some v => toString v | none => "panic"
      if n ≠ 0 then pure "panic"
      else pure s!"ok filled={mask} type={fileTypeChar mode} perm={permString mode} len={size} blk={blk} acc={ts (timestamp as an)} mod={ts (timestamp ms mn)} cre={ts (timestamp bs bn)}"
    | _ => none
  | .waitid => do
    -- si=signo:code:pid:uid:status
    let f ← findKv "si" toks
    match f.splitOn ":" with
    | [signo, code, pid, uid, status] => do
      let signo ← parseInt signo
      let code ← parseInt code
      let pid ← parseInt pid
      let uid ← parseNat uid
      let status ← parseInt status
      let i32ok (x : Int) : Bool := -2147483648 ≤ x && x ≤ 2147483647
      if !i32ok signo || !i32ok code || !i32ok pid || !i32ok status || uid ≥ U32 then none else
      if n ≠ 0 then pure "panic"
      else pure s!"ok pid={pid} uid={uid} signo={signo} status={waitStatus code status} code={code}"
    | _ => none
  | .sigrecv => do
    -- ssi=signo:pid:uid
    let f ← findKv "ssi" toks
    match f.splitOn ":" with
    | [signo, pid, uid] => do
      let signo ← parseNat signo
      let pid ← parseNat pid
      let uid ← parseNat uid
      if signo ≥ U32 || pid ≥ U32 || uid ≥ U32 then none else
      if n ≠ 128 then pure "panic"
      else pure s!"ok signo={toI32 signo} pid={pid} uid={uid}"
    | _ => none
  | .getsockopt => do
    let o ← (findKv "opt" toks).bind parseSockOpt
    let ov ← (findKv "ov" toks).bind Addr.unhex
    let (_, _, ty, _, _) := o.info
    if ov.length ≠ ty.size then none
    else match decodeOpt ty ov n with
      | some s => pure s!"ok val={s}"
      | none => pure "panic"
  | .todirect => do
    let idx ← findNat "idx" toks
    if idx ≥ 2147483647 then none
    else if n ≠ 1 then pure "panic"
    else
      let st := fromRaw idx .direct
      pure s!"ok fd={fdOf st} kind={if kindOf st = .direct then "d" else "f"}"
  | .pipe => do
    let f ← findKv "pfds" toks
    match (f.splitOn ",").mapM parseNat with
    | some [x, y] =>
      if !newFdOk st0 a.ckind x || !newFdOk st0 a.ckind y || x = y then none
      else if n ≠ 0 then pure "panic"
      else
        let sx := fromRaw x a.ckind
        let sy := fromRaw y a.ckind
        pure s!"ok fds={fdOf sx},{fdOf sy} kind={if kindOf sx = .direct then "d" else "f"}"
    | _ => none


/-- Parse an op line into (operation, descriptor kind, arguments, buffers). -/
def parseOp (st : St) (name : String) (toks : List String) :
    Option (OpKind × FdKind × Args × List (Nat × Nat)) := do
  let op ← opOfName name
  let k ← (findKv "k" toks).bind parseKind
  let fd := match k with | .file => st.rfd | .direct => st.dfd
  let base : Args := { fd := fd }
  let off (key : String) (dflt : Nat) : Option Nat := do
    let v ← optNat toks key
    if v.getD 0 ≥ U64 then none else pure (v.getD dflt)
  let rfl : Option Nat := optFlags toks "rfl" (validBits RECV_BITS)
  let sfl : Option Nat := optFlags toks "sfl" (validBits SEND_BITS)
  match op with
  | .read | .recv => do
    let cap ← findNat "cap" toks
    let len ← findNat "len" toks
    if len > cap || cap > MAXBUF then none
    else
      let a := { base with bufPtr := len, bufLen := (cap - len) % U32 }
      if op = .read then do
        let o ← off "off" NO_OFFSET
        pure (op, k, { a with offset := o }, [(cap, len)])
      else do
        let f ← rfl
        pure (op, k, { a with flags := f }, [(cap, len)])
  | .readp => do
    let o ← off "off" NO_OFFSET
    pure (op, k, { base with offset := o }, [])
  | .mread => pure (op, k, base, [])
  | .readv => do
    let bufs ← (findKv "bufs" toks).bind parsePairs
    let o ← off "off" NO_OFFSET
    if bufs.isEmpty || bufs.length > 8 || bufs.any (fun (c, l) => l > c || c > MAXBUF) then none
    else pure (op, k, { base with offset := o, iov := bufs.map fun (c, l) => (l, (c - l) % U32) }, bufs)
  | .write => do
    let len ← findBounded "len" toks (MAXBUF + 1)
    let o ← off "off" NO_OFFSET
    pure (op, k, { base with offset := o, bufPtr := 0, bufLen := len % U32 }, [])
  | .writev => do
    let lens ← (findKv "lens" toks).bind parseNatList
    let o ← off "off" NO_OFFSET
    if lens.isEmpty || lens.length > 8 || lens.any (· > MAXBUF) then none
    else pure (op, k, { base with offset := o, iov := lens.map fun l => (0, l % U32) }, [])
  | .splice => do
    let dir ← findKv "dir" toks
    let len ← findBounded "len" toks U32
    let oi ← off "offin" NO_OFFSET
    let oo ← off "offout" NO_OFFSET
    let f ← optFlags toks "sfl" (validBits SPLICE_BITS)
    if dir != "to" && dir != "from" then none
    else pure (op, k, { base with target := st.tfd, dirTo := dir == "to", len := len, offIn := oi,
                                   offOut := oo, flags := f }, [])
  | .close | .dropfd => do
    let cfd ← findNat "cfd" toks
    let okc := match k with | .file => regOk st cfd | .direct => decide (cfd < 64)
    if !okc then none else pure (op, k, { base with target := cfd }, [])
  | .openat => do
    let path ← (findKv "path" toks).bind Addr.unhex
    let setters ← (findKv "oo" toks).bind parseOpenSetters
    let mode ← (optNat toks "mode").map some
    let ck ← findKv "ck" toks
    let tmp ← findNat "tmp" toks
    if path.contains 0 || (mode.getD none).getD 0 ≥ U32 then none else
    let o0 : OpenOptions := {}
    let o1 := setters.foldl (fun o s => s.set o) o0
    let o2 := match mode.getD none with | some m => (OpenSetter.mode m).set o1 | none => o1
    let o3 ← if ck == "none" then some o2 else (parseKind ck).map fun c => (OpenSetter.kind c).set o2
    pure (op, k, { o3.openArgs (tmp != 0) path with fd := fd }, [])
  | .mkdir => do
    let path ← (findKv "path" toks).bind Addr.unhex
    if path.contains 0 then none else
    pure (op, k, { base with path := path }, [])
  | .rename => do
    let path ← (findKv "path" toks).bind Addr.unhex
    let path2 ← (findKv "path2" toks).bind Addr.unhex
    if path.contains 0 || path2.contains 0 then none else
    pure (op, k, { base with path := path, path2 := path2 }, [])
  | .unlink => do
    let path ← (findKv "path" toks).bind Addr.unhex
    let d ← findNat "dir" toks
    if path.contains 0 then none else
    pure (op, k, { base with path := path, which := d }, [])
  | .fsync => do
    let d ← findNat "data" toks
    pure (op, k, { base with which := d }, [])
  | .statx => do
    let m ← optFlags toks "mask" (validBits STATX_BITS)
    let isNone := findKv "mask" toks == some "none"
    pure (op, k, { base with flags := if isNone then DEFAULT_STATX_MASK else m }, [])
  | .fadvise => do
    let o ← findBounded "off" toks U64
    let len ← findBounded "len" toks U32
    let adv ← findBounded "adv" toks 6
    pure (op, k, { base with offset := o, len := len, flags := adv }, [])
  | .fallocate => do
    let o ← findBounded "off" toks U64
    let len ← findBounded "len" toks U32
    let m ← optFlags toks "mode" (validBits ALLOC_BITS)
    pure (op, k, { base with offset := o, len := len, flags := m }, [])
  | .ftruncate => do
    let len ← findBounded "len" toks U64
    pure (op, k, { base with offset := len }, [])
  | .socket => do
    let dom ← findInt "dom" toks
    let ty ← findNat "type" toks
    let pr ← optFlags toks "proto" (PROTO_VALUES.contains ·)
    let ck ← findKv "ck" toks
    let c ← if ck == "none" then some FdKind.file else parseKind ck
    if !DOMAIN_VALUES.contains dom || ty < 1 || ty > 6 then none else
    pure (op, k, { base with domain := dom, type := ty, protocol := pr, ckind := c }, [])
  | .bind | .connect => do
    let (ty, ad) ← (findKv "a" toks).bind parseAddr
    if ty = .noaddr then none else pure (op, k, { base with aty := ty, addr := ad }, [])
  | .listen => do
    let b ← findBounded "backlog" toks U32
    pure (op, k, { base with len := b }, [])
  | .sockname => do
    let w ← findKv "which" toks
    let ty ← (findKv "at" toks).bind parseATy
    if (w != "local" && w != "peer") || ty = .noaddr then none
    else pure (op, k, { base with which := if w == "peer" then 1 else 0, aty := ty }, [])
  | .recvp | .mrecv => do
    let f ← rfl
    pure (op, k, { base with flags := f }, [])
  | .recvv => do
    let bufs ← (findKv "bufs" toks).bind parsePairs
    let f ← rfl
    if bufs.isEmpty || bufs.length > 8 || bufs.any (fun (c, l) => l > c || c > MAXBUF) then none
    else pure (op, k, { base with flags := f, iov := bufs.map fun (c, l) => (l, (c - l) % U32) }, bufs)
  | .recvfrom => do
    let cap ← findNat "cap" toks
    let len ← findNat "len" toks
    let ty ← (findKv "at" toks).bind parseATy
    let f ← rfl
    if len > cap || cap > MAXBUF || ty = .noaddr then none
    else pure (op, k, { base with bufPtr := len, bufLen := (cap - len) % U32, aty := ty, flags := f },
               [(cap, len)])
  | .recvfromv => do
    let bufs ← (findKv "bufs" toks).bind parsePairs
    let ty ← (findKv "at" toks).bind parseATy
    let f ← rfl
    if bufs.isEmpty || bufs.length > 8 || bufs.any (fun (c, l) => l > c || c > MAXBUF) || ty = .noaddr then none
    else pure (op, k, { base with flags := f, aty := ty,
                                   iov := bufs.map fun (c, l) => (l, (c - l) % U32) }, bufs)
  | .send | .sendto => do
    let len ← findBounded "len" toks (MAXBUF + 1)
    let f ← sfl
    let zc ← findNat "zc" toks
    let a := { base with bufPtr := 0, bufLen := len % U32, flags := f, zc := zc != 0 }
    if op = .send then pure (op, k, a, [])
    else do
      let (ty, ad) ← (findKv "a" toks).bind parseAddr
      pure (op, k, { a with aty := ty, addr := ad }, [])
  | .sendmsg => do
    let lens ← (findKv "lens" toks).bind parseNatList
    let f ← sfl
    let zc ← findNat "zc" toks
    let (ty, ad) ← (findKv "a" toks).bind parseAddr
    if lens.isEmpty || lens.length > 8 || lens.any (· > MAXBUF) then none
    else pure (op, k, { base with iov := lens.map fun l => (0, l % U32), flags := f, zc := zc != 0,
                                   aty := ty, addr := ad }, [])
  | .accept => do
    let ty ← (findKv "at" toks).bind parseATy
    pure (op, k, { base with aty := ty }, [])
  | .maccept => pure (op, k, base, [])
  | .getsockopt => do
    let o ← (findKv "opt" toks).bind parseSockOpt
    let (lvl, name, ty, g, _) := o.info
    if !g then none else pure (op, k, { base with level := lvl, optname := name, optlen := ty.size }, [])
  | .setsockopt => do
    let o ← (findKv "opt" toks).bind parseSockOpt
    let v ← optNat toks "val"
    let (lvl, name, ty, _, s) := o.info
    if !s || (v.isNone && ty ≠ .linger) || (v.getD 0) ≥ U32 then none
    else pure (op, k, { base with level := lvl, optname := name, optlen := ty.size,
                                   optval := encodeOpt ty v }, [])
  | .shutdown => do
    let h ← findNat "how" toks
    if h > 2 then none else pure (op, k, { base with which := h }, [])
  | .waitid => do
    let on ← findKv "on" toks
    let f ← optFlags toks "wopt" (WAIT_VALUES.contains ·)
    match on.splitOn ":" with
    | ["all"] => pure (op, k, { base with which := 0, pid := 0, flags := f }, [])
    | ["pid", p] => do
      let p ← parseNat p
      if p ≥ U32 then none else pure (op, k, { base with which := 1, pid := p, flags := f }, [])
    | ["pgid", p] => do
      let p ← parseNat p
      if p ≥ U32 then none else pure (op, k, { base with which := 2, pid := p, flags := f }, [])
    | _ => none
  | .sigrecv => do
    let sfd ← findBounded "sfd" toks 2147483648
    if k ≠ .file then none else pure (op, k, { base with fd := sfd }, [])
  | .todirect => if k ≠ .file then none else pure (op, k, base, [])
  | .tofd => if k ≠ .direct then none else pure (op, k, base, [])
  | .pipe => do
    let f ← optFlags toks "pfl" (· == 16384)
    let ck ← findKv "ck" toks
    let c ← if ck == "none" then some FdKind.file else parseKind ck
    pure (op, k, { base with flags := f, ckind := c }, [])
  | .pollable => do
    let p ← findBounded "pfd" toks 2147483648
    pure (op, k, { base with fd := p }, [])
  | .madvise => do
    let ad ← findBounded "addr" toks U64
    let len ← findBounded "len" toks U32
    let adv ← findNat "adv" toks
    if !MADVISE_VALUES.contains adv then none else
    pure (op, k, { base with address := ad, len := len, flags := adv }, [])

/-- Errors for which an operation has a special fallback path that may perform
a real system call (`fallbackCall`): `PipeOp` on `EINVAL` (pipe.rs:48-62),
`SocketNameOp` on `EOPNOTSUPP` (net.rs:185-205), `SocketOptionOp` /
`SetSocketOptionOp` on `ErrorKind::Unsupported` (net.rs:832-847, 889-904), which
std's `decode_error_kind` gives to `ENOSYS` (38) and `EOPNOTSUPP` (95). -/
def specialErr (op : OpKind) (e : Int) : Bool :=
  match op with
  | .pipe => e = 22
  | .sockname => e = 95
  | .getsockopt | .setsockopt => e = 95 || e = 38
  | _ => false

/-- `fallback` per operation: `ToDirectOp`/`ToFdOp` (fd.rs:85-99, 180-194),
socket options and names (net.rs:185-205, 832-847, 889-904) and pipes
(pipe.rs:48-62) return the error unchanged (when they issue no system call, see
`fallbackCall`); everything else maps `EINVAL`. -/
def opErr (op : OpKind) (e : Int) : IoErr :=
  match op with
  | .todirect | .tofd | .sockname | .getsockopt | .setsockopt | .pipe => .os e
  | _ => fallbackErr e

def showErr : IoErr → String
  | .os e => s!"err {e}"
  | .unsupported => "err unsupported"

/-! ### Synchronous fallbacks

When the completion carries one of the `specialErr` errors the operation's
`fallback` may perform the corresponding *synchronous* system call. A system
call takes a regular descriptor number: since `fix: don't fall back to system
calls on direct descriptors` the three descriptor operations fall back only for
`fd::Kind::File` and otherwise return the kernel's error unchanged. -/

/-- A synchronous system call issued by a `fallback`. -/
structure SysCall where
  name : String
  /-- descriptor number passed (`none`: the call takes no descriptor) -/
  fd : Option Nat := none
  level : Nat := 0
  optname : Nat := 0
  /-- address buffer length (`*address_len` on entry) / option length -/
  len : Nat := 0
  /-- option value passed to `setsockopt` -/
  val : List Nat := []
  /-- `pipe2` flags -/
  flags : Nat := 0
  deriving Repr, DecidableEq, Inhabited

/-- The system call `fallback(target, resources, args, err)` issues for a failed
completion with errno `e`, if any.
* `SocketNameOp` (net.rs:185-205): `Some(EOPNOTSUPP) if matches!(fd.kind(), Kind::File)`:
  `*address_length = length` (of `A::as_mut_ptr`), then `getsockname(fd.fd(), ptr, address_length)`
  for `Name::Local`, `getpeername` for `Name::Peer`.
* `SocketOptionOp` (net.rs:832-847): `err.kind() == Unsupported && matches!(fd.kind(), Kind::File)`:
  `sync_socket_option2::<T>(fd.fd())` (src/net.rs:1025-1040) = `getsockopt(fd, T::LEVEL, T::OPT,
  optval, &mut optlen)` on a fresh storage with `optlen` from `T::as_mut_ptr`.
* `SetSocketOptionOp` (net.rs:889-904): same condition, `sync_set_socket_option2::<T>(fd.fd(), &value)`
  (src/net.rs:1049-1060) = `setsockopt(fd, T::LEVEL, T::OPT, &storage, size_of::<T::Storage>())`.
* `PipeOp` (pipe.rs:48-62): `Some(EINVAL)`: `pipe2(fds, flags | O_CLOEXEC)` — whatever kind of
  descriptor was asked for (documented in src/pipe.rs:41-47). -/
def fallbackCall (op : OpKind) (a : Args) (k : FdKind) (e : Int) : Option SysCall :=
  match op with
  | .sockname =>
    if e = 95 ∧ k = .file then
      some { name := if a.which = 0 then "getsockname" else "getpeername", fd := some a.fd,
             len := mutLen a.aty }
    else none
  | .getsockopt =>
    if (e = 95 ∨ e = 38) ∧ k = .file then
      some { name := "getsockopt", fd := some a.fd, level := a.level, optname := a.optname,
             len := a.optlen }
    else none
  | .setsockopt =>
    if (e = 95 ∨ e = 38) ∧ k = .file then
      some { name := "setsockopt", fd := some a.fd, level := a.level, optname := a.optname,
             len := a.optlen, val := a.optval }
    else none
  | .pipe => if e = 22 then some { name := "pipe2", flags := a.flags ||| O_CLOEXEC } else none
  | _ => none

/-- What a `fallback` returns. -/
inductive FbResult where
  /-- no system call: `Err(err)` / `Err(fallback(err))` -/
  | err (e : IoErr)
  /-- the system call failed: `syscall!(..)?` returns `last_os_error()` as it is -/
  | sysErr (e : Int)
  /-- the system call succeeded: its out-parameters go through the same decoder
  as the io_uring completion (`A::init`, `T::init`, `Ok(())`, `map_ok`) -/
  | decoded
  deriving Repr, DecidableEq, Inhabited

/-- Result of the operation whose completion failed with `e`; `sys` is the
return value of the system call (0 or `-errno`) should one be issued. -/
def fallbackResult (op : OpKind) (a : Args) (k : FdKind) (e : Int) (sys : Int) : FbResult :=
  match fallbackCall op a k e with
  | none => .err (opErr op e)
  | some _ => if sys < 0 then .sysErr (-sys) else .decoded

/-- The arguments and result under which `decodeOk` decodes what the system
call wrote: `getsockopt` reports the length in `*optlen` (`slen`), the others
return 0; `pipe2` creates regular descriptors (`map_ok(sq, (fds, Kind::File), (_, res))`). -/
def fallbackDecodeArgs (op : OpKind) (a : Args) (slen : Nat) : Args × Nat :=
  match op with
  | .getsockopt => (a, slen)
  | .pipe => ({ a with ckind := .file }, 0)
  | _ => (a, 0)

def showSys : Option SysCall → String
  | none => "sys none"
  | some c =>
    let fd := match c.fd with | some n => s!" fd={n}" | none => ""
    if c.name == "getsockopt" then
      s!"sys {c.name}{fd} level={c.level} optname={c.optname} optlen={c.len}"
    else if c.name == "setsockopt" then
      s!"sys {c.name}{fd} level={c.level} optname={c.optname} optval={Addr.hex c.val} optlen={c.len}"
    else if c.name == "pipe2" then s!"sys {c.name} flags={c.flags}"
    else s!"sys {c.name}{fd} addrlen={c.len}"

def stepLine (st : St) (toks : List String) : St × List String :=
  match toks with
  | "encode" :: "begin" :: _ :: rest =>
    match findNat "rfd" rest, findNat "dfd" rest, findNat "tfd" rest with
    | some r, some d, some t =>
      if 600 ≤ r ∧ r < 1000 ∧ 600 ≤ t ∧ t < 1000 ∧ r ≠ t ∧ d < 2147483647 then
        ({ rfd := r, dfd := d, tfd := t, ok := true }, [])
      else ({ ok := false }, ["bad-op"])
    | _, _, _ => ({ ok := false }, ["bad-op"])
  -- real-kernel differential run: not modelled (the kernel's semantics are
  -- trusted); the harness oracle compares a10 with libc on the same fixture
  | ["encode", "rk", scn, k, seed] =>
    let kOk := ((kv "k" k).bind parseKind).isSome
    let seedOk := match (kv "seed" seed).bind parseNat with | some v => decide (v < U64) | none => false
    if st.ok && ["file", "fs", "abstract", "splice"].contains scn && kOk && seedOk then (st, ["rk done"])
    else (st, ["bad-op"])
  | "encode" :: name :: rest =>
    if !st.ok then (st, ["bad-op"]) else
    match parseOp st name rest, findInt "res" rest, findNat "late" rest with
    | some (op, k, a, bufs), some res, some late =>
      -- late = 1: every builder method is called again after the first poll (and a re-issue is
      -- forced); late = 2: between the processing of the completion and the poll that reads it.
      -- Neither reaches the arguments (`C13_builder_frozen`: the status is not `NotStarted`).
      if res ≤ -2147483648 ∨ res ≥ 2147483648 ∨ late > 2
          ∨ (late ≥ 1 ∧ (op = .close ∨ op = .dropfd))
          -- `sys=`/`slen=` belong to lines whose completion carries a special error
          ∨ (((findKv "sys" rest).isSome ∨ (findKv "slen" rest).isSome)
              ∧ ¬ (res < 0 ∧ specialErr op (-res) = true)) then (st, ["bad-op"])
      else
        let r := fill op a k
        let head := [showSqe "sqe" r.sqe] ++ showMem r.mem ++ [showCall (abi op r)]
        -- a builder call after the first poll does not reach the arguments:
        -- the request re-issued after EINTR is the same
        let again := if late = 1 then [showSqe "sqe2" r.sqe] else []
        if op = .dropfd then (st, head ++ ["out ok"])
        else if op = .close then
          -- executed by the kernel when consumed; the descriptor exists
          (st, head ++ again ++ ["out ok"])
        else
          match checkResult res with
          | .ok n =>
            match decodeOk st op a k rest bufs n with
            | some s => (st, head ++ again ++ ["out " ++ s])
            | none => (st, ["bad-op"])
          | .error e =>
            if e = 4 ∨ e = 125 then (st, ["bad-op"])
            else if specialErr op e then
              -- the line scripts the system call a fallback may issue: `sys=0|-errno`
              -- (+ `slen=` = the option length `getsockopt` reports) and, as on a
              -- successful line, what it writes (`peer`/`klen`, `ov`, `pfds`).
              -- Lines without `sys=` (older syntax) are rejected as before.
              let slen := if op = .getsockopt then findNat "slen" rest else some 0
              match findInt "sys" rest, slen with
              | some sys, some slen =>
                if sys > 0 ∨ sys < -4095 ∨ slen ≥ U32 ∨ (op ≠ .getsockopt ∧ (findKv "slen" rest).isSome) then
                  (st, ["bad-op"])
                else
                  let (a', n') := fallbackDecodeArgs op a slen
                  -- the scripted outcome must be well formed whether or not it is used
                  match decodeOk st op a' k rest bufs n' with
                  | none => (st, ["bad-op"])
                  | some d =>
                    let o := match fallbackResult op a k e sys with
                      | .err er => showErr er
                      | .sysErr se => showErr (.os se)
                      | .decoded => d
                    (st, head ++ again ++ [showSys (fallbackCall op a k e), "out " ++ o])
              | _, _ => (st, ["bad-op"])
            else (st, head ++ again ++ ["out " ++ showErr (opErr op e)])
    | _, _, _ => (st, ["bad-op"])
  | _ => (st, ["bad-op"])

end A10.Encode
