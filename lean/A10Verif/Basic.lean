def hello := "world"
