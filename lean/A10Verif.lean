-- Root of the `A10Verif` library: models, lemmas and property theorems.
import A10Verif.Model.Basic
