-- This module serves as the root of the `A10Verif` library.
-- Import modules here that should be built as part of the library.
import A10Verif.Basic
