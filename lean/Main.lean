/-
Line-protocol driver over the executable models (`lean_exe a10model`).
Reads one operation per line on stdin (`<component> <op> args…`), echoes
`> <line>` and prints the model's output lines, exactly as the Rust harness
prints the implementation's.
-/
import A10Verif.Model.Basic
import A10Verif.Model.Addr
import A10Verif.Model.Life

open A10

structure DriverState where
  life : Life.Sys := {}

def dispatch (st : DriverState) (toks : List String) : DriverState × List String :=
  match toks with
  | "addr" :: _ => (st, Addr.stepLine toks)
  | "life" :: _ => let (s, o) := Life.stepLine st.life toks; ({ st with life := s }, o)
  | _ => (st, ["bad-op"])

partial def loop (h : IO.FS.Stream) (out : IO.FS.Stream) (st : DriverState) : IO Unit := do
  let line ← h.getLine
  if line.isEmpty then return ()
  let l := line.trimAscii.toString
  if l.isEmpty then loop h out st
  else
    let (st', outs) := dispatch st (l.splitOn " ")
    out.putStrLn ("> " ++ l)
    for o in outs do out.putStrLn o
    loop h out st'

def main : IO Unit := do
  let stdin ← IO.getStdin
  let stdout ← IO.getStdout
  loop stdin stdout {}
