/-
Line-protocol driver over the executable models (`lean_exe a10model`).
Reads one operation per line on stdin (`<component> <op> args…`), echoes
`> <line>` and prints the model's output lines, exactly as the Rust harness
prints the implementation's.
-/
import A10Verif.Model.Basic
import A10Verif.Model.Addr
import A10Verif.Model.Life
import A10Verif.Model.CqRing
import A10Verif.Model.Encode
import A10Verif.Model.Fds
import A10Verif.Model.Pool
import A10Verif.Model.SqRing
import A10Verif.Model.Wake
import A10Verif.Model.Blocked
import A10Verif.Model.Teardown
import A10Verif.Model.Bufs
import A10Verif.Model.Composite
import A10Verif.Model.ReadBuf
import A10Verif.Model.Config
import A10Verif.Model.Inotify

open A10

structure DriverState where
  life : Life.Sys := {}
  cq : CqRing.St := CqRing.init
  encode : Encode.St := Encode.init
  fds : Fds.Sys := Fds.init
  pool : Pool.LSt := none
  sq : SqRing.St := SqRing.init 1 0 0
  wake : Wake.St := {}
  blk : Blocked.St := Blocked.init 1 0 0
  teardown : Teardown.Driver := {}
  bufs : Bufs.St := Bufs.init
  readbuf : ReadBuf.St := ReadBuf.init
  inotify : Inotify.St := Inotify.init

def dispatch (st : DriverState) (toks : List String) : DriverState × List String :=
  match toks with
  | "addr" :: _ => (st, Addr.stepLine toks)
  | "readbuf" :: _ => let (s, o) := ReadBuf.stepLine st.readbuf toks; ({ st with readbuf := s }, o)
  | "config" :: _ => (st, Config.stepLine toks)
  | "inotify" :: _ => let (s, o) := Inotify.stepLine st.inotify toks; ({ st with inotify := s }, o)
  | "bufs" :: _ => let (s, o) := Bufs.stepLine st.bufs toks; ({ st with bufs := s }, o)
  | "composite" :: _ => (st, Composite.stepLine toks)
  | "teardown" :: _ => let (s, o) := Teardown.stepLine st.teardown toks; ({ st with teardown := s }, o)
  | "blk" :: _ => let (s, o) := Blocked.stepLine st.blk toks; ({ st with blk := s }, o)
  | "wake" :: _ => let (s, o) := Wake.stepLine st.wake toks; ({ st with wake := s }, o)
  | "sq" :: _ => let (s, o) := SqRing.stepLine st.sq toks; ({ st with sq := s }, o)
  | "fds" :: _ => let (s, o) := Fds.stepLine st.fds toks; ({ st with fds := s }, o)
  | "pool" :: _ => let (s, o) := Pool.stepLine st.pool toks; ({ st with pool := s }, o)
  | "encode" :: _ => let (s, o) := Encode.stepLine st.encode toks; ({ st with encode := s }, o)
  | "cq" :: _ => let (s, o) := CqRing.stepLine st.cq toks; ({ st with cq := s }, o)
  | "life" :: _ => let (s, o) := Life.stepLine st.life toks; ({ st with life := s }, o)
  | _ => (st, ["bad-op"])

partial def loop (h : IO.FS.Stream) (out : IO.FS.Stream) (st : DriverState) : IO Unit := do
  let line ← h.getLine
  if line.isEmpty then return ()
  let l := line.trimAscii.toString
  if l.isEmpty then loop h out st
  else
    let (st', outs) := dispatch st (l.splitOn " ")
    out.putStrLn ("> " ++ l)
    for o in outs do out.putStrLn o
    loop h out st'

def main : IO Unit := do
  let stdin ← IO.getStdin
  let stdout ← IO.getStdout
  loop stdin stdout {}
