#!/bin/bash
# confirm_seeded.sh <PID> <name> [sub]: confirm a red-team change in its scratch worktree
# /tmp/rt/rt-<PID> (patch applied there), store it under seeded/<PID>-<name>, remove the worktree.
set -u
PID=$1; NAME=$2; SUB=${3:-}; WT=/tmp/rt/rt-$PID; OUT=/tmp/rt/rt-$PID-out${SUB:+/$SUB}; DST=/verif/seeded/$PID$SUB-$NAME
cd $WT || exit 2
git -C $WT checkout -q -- . 2>/dev/null; git -C $WT clean -fdq tests examples 2>/dev/null
git -C $WT apply --check $OUT/patch.diff || { echo "patch does not apply"; exit 2; }
git -C $WT apply $OUT/patch.diff
echo "== build + existing suite with the change"
# the pinned suite occasionally hangs (tests/util block_on flake, DESIGN §10.6): time-box and retry once
timeout 400 cargo test --workspace --no-fail-fast --offline > /tmp/rt-$PID-confirm.log 2>&1 || { pkill -f "$WT/target/debug/deps/functional" ; timeout 400 cargo test --workspace --no-fail-fast --offline > /tmp/rt-$PID-confirm.log 2>&1; }
grep -E "^test result|FAILED|error(\[|:)" /tmp/rt-$PID-confirm.log | head -8
echo "== demo WITH the change (expected to fail)"
(cd $OUT/demo && timeout 900 bash ./run.sh > /tmp/rt-$PID-demo-with.log 2>&1; echo "rc=$?")
grep -E "test result|passed|failed|FAIL|panicked" /tmp/rt-$PID-demo-with.log | head -6
git -C $WT checkout -q -- . ; git -C $WT clean -fdq tests examples 2>/dev/null
echo "== demo WITHOUT the change (expected to pass)"
(cd $OUT/demo && timeout 900 bash ./run.sh > /tmp/rt-$PID-demo-without.log 2>&1; echo "rc=$?")
grep -E "test result|passed|failed|FAIL|panicked" /tmp/rt-$PID-demo-without.log | head -6
mkdir -p $DST && cp $OUT/patch.diff $OUT/meta.json $DST/ && cp -r $OUT/demo $DST/
echo "stored in $DST"
