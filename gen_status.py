#!/usr/bin/env python3
"""Rewrite the table of DESIGN.md §10.0 from checks.json, lean/A10Verif/Props/*.lean,
known-findings.json and seeded/*/meta.json."""
import json, os, re, glob
ROOT = os.path.dirname(os.path.abspath(__file__))
reg = json.load(open(os.path.join(ROOT, "checks.json")))["properties"]
kf = json.load(open(os.path.join(ROOT, "known-findings.json")))
seeded = {}
for m in glob.glob(os.path.join(ROOT, "seeded", "*", "meta.json")):
    p = json.load(open(m)).get("property", "?")
    seeded[p] = seeded.get(p, 0) + 1
rows = ["| prop | `Cxx_` theorems | correspondence components (quick/thorough cases) | known findings | `fix:` commits | seeded changes |", "|---|---|---|---|---|---|"]
for p in sorted(reg):
    src = open(os.path.join(ROOT, "lean", "A10Verif", "Props", p + ".lean")).read()
    nth = len(re.findall(r"^theorem " + p + "_", src, re.M))
    comps = ", ".join(f"`{c['name']}` ({c.get('quick')}/{c.get('thorough')})" for c in reg[p]["components"])
    finds = [f.get("id", "?") for f in kf["findings"] if f.get("property") == p]
    fixes = []
    for l in kf["fixed"]:
        m = re.match(r"fixed: property=(\S+) (\S+) ", l)
        if m and p in m.group(1).split("/"):
            fixes.append(m.group(2))
    rows.append(f"| {p} | {nth} | {comps} | {', '.join(finds) or '—'} | {', '.join(fixes) or '—'} | {seeded.get(p, 0)} |")
d = open(os.path.join(ROOT, "DESIGN.md")).read()
a = d.index("| prop | `Cxx_` theorems |")
b = d.index("\n\n", a)
d = d[:a] + "\n".join(rows) + d[b:]
open(os.path.join(ROOT, "DESIGN.md"), "w").write(d)
print("status table:", len(rows) - 2, "rows")
