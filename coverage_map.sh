#!/bin/bash
# coverage_map.sh — diagnostic, NOT a registered check.
# Which lines of /repo/src does the correspondence harness actually execute?
# Builds the harness with -C instrument-coverage (nightly's llvm-tools), runs every component
# with its quick case count and prints, per a10 source file, the lines that were never executed
# (Debug/Display implementations and log lines are not filtered out: read the list with that in
# mind). A line that is never executed is a place where a behaviour-changing edit cannot be seen
# by any correspondence component — the list is the to-do list for new generators.
# Scratch (build output, profiles) lives under /tmp/covtarget and /tmp/cov; remove them afterwards.
set -u
ROOT=$(cd "$(dirname "$0")" && pwd)
T=/tmp/covtarget; C=/tmp/cov
B=$(rustc +nightly --print sysroot)/lib/rustlib/x86_64-unknown-linux-gnu/bin
[ -x "$B/llvm-cov" ] || { echo "nightly llvm-tools not found"; exit 2; }
(cd "$ROOT/harness" && RUSTFLAGS="--cfg a10_verif -C instrument-coverage" CARGO_TARGET_DIR=$T cargo +nightly build --offline --quiet) || exit 2
mkdir -p $C && rm -f $C/*.profraw
python3 - "$ROOT" <<'EOF' > $C/comps.txt
import json, sys
reg = json.load(open(sys.argv[1] + "/checks.json"))["properties"]
seen = {}
for p in reg.values():
    for c in p["components"]:
        seen[c["name"]] = max(seen.get(c["name"], 0), c.get("quick", 1000))
for n, k in seen.items():
    print(n, k)
EOF
while read -r n k; do
  mkdir -p $C/out-$n
  LLVM_PROFILE_FILE=$C/$n-%p.profraw timeout 1800 $T/debug/a10h $n --seed "${VERIF_SEED:-1}" --cases $k --out $C/out-$n --tier quick > $C/out-$n/log 2>&1
  echo "ran $n ($k cases) rc=$?"
done < $C/comps.txt
$B/llvm-profdata merge -sparse $C/*.profraw -o $C/all.profdata || exit 2
$B/llvm-cov report $T/debug/a10h -instr-profile=$C/all.profdata --ignore-filename-regex='(/verif/|/rustc/|\.cargo|kqueue|rustup)' 2>/dev/null | cut -c1-40,95-200
$B/llvm-cov show $T/debug/a10h -instr-profile=$C/all.profdata --ignore-filename-regex='(/verif/|/rustc/|\.cargo|kqueue|rustup)' --show-line-counts-or-regions=false -show-instantiations=false 2>/dev/null > $C/show.txt
python3 - <<'EOF'
import re
cur = None
unc = {}
for l in open('/tmp/cov/show.txt', errors='replace'):
    m = re.match(r'^(/\S+/src/\S+):$', l)
    if m:
        cur = m.group(1); unc[cur] = []; continue
    m = re.match(r'^\s*(\d+)\|\s*([0-9.kME]+)?\|(.*)$', l)
    if m and cur and m.group(2) == '0':
        unc[cur].append((int(m.group(1)), m.group(3)))
for f, v in sorted(unc.items()):
    if v:
        print(f"== {f}: {len(v)} lines never executed")
        for ln, src in v:
            print(f"{ln:6} {src[:110]}")
EOF
