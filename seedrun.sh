#!/bin/bash
# seedrun.sh [seeded ids…]: evaluate seeded changes WITHOUT touching /repo: a scratch copy of /verif whose
# harness depends on a private clone of /repo (current HEAD + working tree), removed afterwards.
# SEEDRUN_ID=<n> selects separate scratch directories so that several runs can go on at the same time.
set -u
S=/tmp/seedrun${SEEDRUN_ID:-}; R=/tmp/seedrun-repo${SEEDRUN_ID:-}
rm -rf $R; git clone -q /repo $R || exit 2
(cd /repo && git diff) | (cd $R && git apply 2>/dev/null)
mkdir -p $S; rsync -a --delete --exclude replays --exclude .git /verif/ $S/
sed -i "s#path = \"/repo\"#path = \"$R\"#" $S/harness/Cargo.toml
(cd $R && git add -A >/dev/null 2>&1; git -c user.email=x -c user.name=x commit -qm wt >/dev/null 2>&1)
cd $S && A10_REPO=$R ./run_seeded.py "$@"
rc=$?
[ "${KEEP:-0}" = 1 ] || rm -rf $S $R
exit $rc
