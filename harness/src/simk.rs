//! Simulated io_uring kernel.
//!
//! a10 reaches the kernel through `libc::syscall(SYS_io_uring_*)`; this binary
//! defines the `syscall` symbol itself (ELF interposition), so all of a10's
//! ring code runs unmodified against memfd-backed rings that the simulated
//! kernel controls. The kernel is passive and script-driven: it can hold
//! operations in flight, order completions, inject results and start the ring
//! counters at any 32-bit value.

#![allow(dead_code)]

use std::collections::{BTreeMap, VecDeque};
use std::sync::Mutex;
use std::sync::atomic::{AtomicBool, AtomicI64, AtomicU16, AtomicU32, Ordering};

use crate::track;

pub const SYS_IO_URING_SETUP: i64 = 425;
pub const SYS_IO_URING_ENTER: i64 = 426;
pub const SYS_IO_URING_REGISTER: i64 = 427;

pub const OFF_SQ_RING: i64 = 0;
pub const OFF_CQ_RING: i64 = 0x800_0000;
pub const OFF_SQES: i64 = 0x1000_0000;

// setup flags
pub const SETUP_SQPOLL: u32 = 1 << 1;
pub const SETUP_SQ_AFF: u32 = 1 << 2;
pub const SETUP_CQSIZE: u32 = 1 << 3;
pub const SETUP_CLAMP: u32 = 1 << 4;
pub const SETUP_ATTACH_WQ: u32 = 1 << 5;
pub const SETUP_R_DISABLED: u32 = 1 << 6;
pub const SETUP_SUBMIT_ALL: u32 = 1 << 7;
pub const SETUP_COOP_TASKRUN: u32 = 1 << 8;
pub const SETUP_SINGLE_ISSUER: u32 = 1 << 12;
pub const SETUP_DEFER_TASKRUN: u32 = 1 << 13;
pub const SETUP_NO_SQARRAY: u32 = 1 << 16;

// features
pub const FEAT_SINGLE_MMAP: u32 = 1 << 0;
pub const FEAT_NODROP: u32 = 1 << 1;
pub const FEAT_SUBMIT_STABLE: u32 = 1 << 2;
pub const FEAT_RW_CUR_POS: u32 = 1 << 3;
pub const FEAT_SQPOLL_NONFIXED: u32 = 1 << 7;
pub const FEAT_DEFAULT: u32 = 0x3fff & !FEAT_SINGLE_MMAP;

// enter flags
pub const ENTER_GETEVENTS: u32 = 1 << 0;
pub const ENTER_SQ_WAKEUP: u32 = 1 << 1;
pub const ENTER_SQ_WAIT: u32 = 1 << 2;
pub const ENTER_EXT_ARG: u32 = 1 << 3;

// sqe flags
pub const IOSQE_FIXED_FILE: u8 = 1 << 0;
pub const IOSQE_BUFFER_SELECT: u8 = 1 << 5;
pub const IOSQE_CQE_SKIP_SUCCESS: u8 = 1 << 6;

// cqe flags
pub const CQE_F_BUFFER: u32 = 1 << 0;
pub const CQE_F_MORE: u32 = 1 << 1;
pub const CQE_F_SOCK_NONEMPTY: u32 = 1 << 2;
pub const CQE_F_NOTIF: u32 = 1 << 3;
pub const CQE_F_SKIP: u32 = 1 << 5;
pub const CQE_BUFFER_SHIFT: u32 = 16;

// opcodes
pub const OP_NOP: u8 = 0;
pub const OP_READV: u8 = 1;
pub const OP_WRITEV: u8 = 2;
pub const OP_FSYNC: u8 = 3;
pub const OP_POLL_ADD: u8 = 6;
pub const OP_SENDMSG: u8 = 9;
pub const OP_RECVMSG: u8 = 10;
pub const OP_ACCEPT: u8 = 13;
pub const OP_ASYNC_CANCEL: u8 = 14;
pub const OP_CONNECT: u8 = 16;
pub const OP_FALLOCATE: u8 = 17;
pub const OP_OPENAT: u8 = 18;
pub const OP_CLOSE: u8 = 19;
pub const OP_FILES_UPDATE: u8 = 20;
pub const OP_STATX: u8 = 21;
pub const OP_READ: u8 = 22;
pub const OP_WRITE: u8 = 23;
pub const OP_FADVISE: u8 = 24;
pub const OP_MADVISE: u8 = 25;
pub const OP_SEND: u8 = 26;
pub const OP_RECV: u8 = 27;
pub const OP_OPENAT2: u8 = 28;
pub const OP_SPLICE: u8 = 30;
pub const OP_SHUTDOWN: u8 = 34;
pub const OP_RENAMEAT: u8 = 35;
pub const OP_UNLINKAT: u8 = 36;
pub const OP_MKDIRAT: u8 = 37;
pub const OP_MSG_RING: u8 = 40;
pub const OP_SOCKET: u8 = 45;
pub const OP_URING_CMD: u8 = 46;
pub const OP_SEND_ZC: u8 = 47;
pub const OP_SENDMSG_ZC: u8 = 48;
pub const OP_READ_MULTISHOT: u8 = 49;
pub const OP_WAITID: u8 = 50;
pub const OP_FIXED_FD_INSTALL: u8 = 54;
pub const OP_FTRUNCATE: u8 = 55;
pub const OP_BIND: u8 = 56;
pub const OP_LISTEN: u8 = 57;
pub const OP_PIPE: u8 = 62;

// register opcodes
pub const REGISTER_FILES_UPDATE: u32 = 6;
pub const REGISTER_ENABLE_RINGS: u32 = 12;
pub const REGISTER_FILES2: u32 = 13;
pub const REGISTER_FILES_UPDATE2: u32 = 14;
pub const REGISTER_PBUF_RING: u32 = 22;
pub const UNREGISTER_PBUF_RING: u32 = 23;
pub const REGISTER_SYNC_CANCEL: u32 = 24;
pub const REGISTER_SEND_MSG_RING: u32 = 31;

pub fn opcode_name(op: u8) -> &'static str {
    match op {
        OP_NOP => "NOP",
        OP_READV => "READV",
        OP_WRITEV => "WRITEV",
        OP_FSYNC => "FSYNC",
        OP_POLL_ADD => "POLL_ADD",
        OP_SENDMSG => "SENDMSG",
        OP_RECVMSG => "RECVMSG",
        OP_ACCEPT => "ACCEPT",
        OP_ASYNC_CANCEL => "ASYNC_CANCEL",
        OP_CONNECT => "CONNECT",
        OP_FALLOCATE => "FALLOCATE",
        OP_OPENAT => "OPENAT",
        OP_CLOSE => "CLOSE",
        OP_FILES_UPDATE => "FILES_UPDATE",
        OP_STATX => "STATX",
        OP_READ => "READ",
        OP_WRITE => "WRITE",
        OP_FADVISE => "FADVISE",
        OP_MADVISE => "MADVISE",
        OP_SEND => "SEND",
        OP_RECV => "RECV",
        OP_OPENAT2 => "OPENAT2",
        OP_SPLICE => "SPLICE",
        OP_SHUTDOWN => "SHUTDOWN",
        OP_RENAMEAT => "RENAMEAT",
        OP_UNLINKAT => "UNLINKAT",
        OP_MKDIRAT => "MKDIRAT",
        OP_MSG_RING => "MSG_RING",
        OP_SOCKET => "SOCKET",
        OP_URING_CMD => "URING_CMD",
        OP_SEND_ZC => "SEND_ZC",
        OP_SENDMSG_ZC => "SENDMSG_ZC",
        OP_READ_MULTISHOT => "READ_MULTISHOT",
        OP_WAITID => "WAITID",
        OP_FIXED_FD_INSTALL => "FIXED_FD_INSTALL",
        OP_FTRUNCATE => "FTRUNCATE",
        OP_BIND => "BIND",
        OP_LISTEN => "LISTEN",
        OP_PIPE => "PIPE",
        _ => "OTHER",
    }
}

/// The 64-byte submission entry, as raw named fields.
#[repr(C)]
#[derive(Copy, Clone, Debug, PartialEq, Eq)]
pub struct Sqe {
    pub opcode: u8,
    pub flags: u8,
    pub ioprio: u16,
    pub fd: i32,
    pub off: u64,  // off / addr2
    pub addr: u64, // addr / splice_off_in
    pub len: u32,
    pub op_flags: u32, // rw_flags / msg_flags / ...
    pub user_data: u64,
    pub buf_index: u16, // buf_index / buf_group
    pub personality: u16,
    pub file_index: u32, // splice_fd_in / file_index / optlen
    pub addr3: u64,
    pub pad2: u64,
}

const _: () = assert!(size_of::<Sqe>() == 64);

impl Sqe {
    pub fn is_zero(&self) -> bool {
        let bytes: [u8; 64] = unsafe { std::mem::transmute(*self) };
        bytes.iter().all(|b| *b == 0)
    }
    pub fn bytes(&self) -> [u8; 64] {
        unsafe { std::mem::transmute(*self) }
    }
}

#[repr(C)]
#[derive(Copy, Clone, Debug, PartialEq, Eq)]
pub struct Cqe {
    pub user_data: u64,
    pub res: i32,
    pub flags: u32,
}

#[repr(C)]
#[derive(Copy, Clone, Debug, Default)]
pub struct SqOff {
    pub head: u32,
    pub tail: u32,
    pub ring_mask: u32,
    pub ring_entries: u32,
    pub flags: u32,
    pub dropped: u32,
    pub array: u32,
    pub resv1: u32,
    pub user_addr: u64,
}

#[repr(C)]
#[derive(Copy, Clone, Debug, Default)]
pub struct CqOff {
    pub head: u32,
    pub tail: u32,
    pub ring_mask: u32,
    pub ring_entries: u32,
    pub overflow: u32,
    pub cqes: u32,
    pub flags: u32,
    pub resv1: u32,
    pub user_addr: u64,
}

#[repr(C)]
#[derive(Copy, Clone, Debug, Default)]
pub struct Params {
    pub sq_entries: u32,
    pub cq_entries: u32,
    pub flags: u32,
    pub sq_thread_cpu: u32,
    pub sq_thread_idle: u32,
    pub features: u32,
    pub wq_fd: u32,
    pub resv: [u32; 3],
    pub sq_off: SqOff,
    pub cq_off: CqOff,
}

const _: () = assert!(size_of::<Params>() == 120);

// Layout of the two ring pages in the memfd.
const SQ_HEAD: usize = 0;
const SQ_TAIL: usize = 4;
const SQ_MASK: usize = 8;
const SQ_ENTRIES: usize = 12;
const SQ_FLAGS: usize = 16;
const SQ_DROPPED: usize = 20;
const CQ_HEAD: usize = 0;
const CQ_TAIL: usize = 4;
const CQ_MASK: usize = 8;
const CQ_ENTRIES: usize = 12;
const CQ_OVERFLOW: usize = 16;
const CQ_FLAGS: usize = 20;
const CQ_CQES: usize = 64;

/// A user-memory region referenced by a consumed submission.
#[derive(Clone, Debug)]
pub struct Region {
    pub what: &'static str,
    pub addr: usize,
    pub len: usize,
    /// Block id (tracking allocator) at consumption; `None` = not heap (stack,
    /// static, mmap) — cannot be checked.
    pub block: Option<u64>,
}

#[derive(Clone, Debug)]
pub struct Inflight {
    pub seq: u64,
    pub sqe: Sqe,
    pub regions: Vec<Region>,
    /// Block of the operation state `user_data` points to.
    pub state_block: Option<u64>,
    pub cancel_requested: bool,
    /// Number of CQEs posted for it so far.
    pub posted: u32,
}

#[derive(Clone, Debug)]
pub enum KEv {
    Setup {
        fd: i32,
        params_in: Params,
        params_out: Params,
        ret: i64,
    },
    Enter {
        fd: i32,
        to_submit: u32,
        min_complete: u32,
        flags: u32,
        /// (sec, nsec)
        timeout: Option<(i64, i64)>,
        ret: i64,
        consumed: Vec<u64>,
        blocked: bool,
    },
    Consumed {
        seq: u64,
        sqe: Sqe,
    },
    /// The kernel consumed an entry that was still in the reset (all-zero) state.
    TornEntry {
        index: u32,
    },
    Cancel {
        seq: u64,
        target_ud: u64,
        target_seq: Option<u64>,
        res: i32,
    },
    MsgRing {
        seq: u64,
        target_fd: i32,
        ud: u64,
        res: i32,
    },
    CloseReq {
        seq: u64,
        fd: i32,
        direct: bool,
        res: i32,
    },
    Register {
        fd: i32,
        op: u32,
        nr: u32,
        ret: i64,
        detail: String,
    },
    Posted {
        seq: Option<u64>,
        cqe: Cqe,
        overflowed: bool,
    },
    /// Oracle: the kernel was about to touch memory that is no longer the
    /// block it was at submission.
    BadMemory {
        seq: u64,
        what: &'static str,
        addr: usize,
    },
    /// Oracle: a completion is about to be delivered for an operation state
    /// that has been freed (a10 would dereference freed memory).
    FreedState {
        seq: u64,
        user_data: u64,
    },
    CloseFd {
        fd: i32,
        ret: i64,
    },
    Mmap {
        fd: i32,
        off: i64,
        len: usize,
        ret: isize,
    },
    Munmap {
        addr: usize,
        len: usize,
        known: bool,
    },
    Data {
        seq: u64,
        bytes: Vec<u8>,
    },
}

#[derive(Clone, Debug, Default)]
pub struct EnterScript {
    /// Fail the call with this errno before doing anything.
    pub fail: Option<i32>,
    /// Completions posted after the submissions were consumed.
    pub post: Vec<PostSpec>,
    /// Result of the wait if it cannot be satisfied: `ETIME`/`EINTR`; default
    /// ETIME with a timeout, BLOCKED(→EINTR) without.
    pub wait_errno: Option<i32>,
    /// Consume at most this many entries (partial submit).
    pub max_consume: Option<u32>,
}

#[derive(Clone, Debug)]
pub enum Target {
    Seq(u64),
    /// n-th oldest in-flight entry
    Nth(usize),
    UserData(u64),
}

#[derive(Clone, Debug)]
pub struct PostSpec {
    pub target: Target,
    pub res: i32,
    pub flags: u32,
    /// Bytes the kernel writes into the operation's read target(s) before
    /// posting (READ/RECV/READV/RECVMSG/pool).
    pub data: Option<Vec<u8>>,
    /// Take a buffer from the buffer group named in the SQE.
    pub select_buf: bool,
}

impl PostSpec {
    pub fn new(target: Target, res: i32, flags: u32) -> PostSpec {
        PostSpec {
            target,
            res,
            flags,
            data: None,
            select_buf: false,
        }
    }
}

pub struct PbufRing {
    pub ring_addr: usize,
    pub entries: u32,
    pub khead: u16,
    pub block: Option<u64>,
}

pub struct SimRing {
    pub fd: i32,
    pub sq_entries: u32,
    pub cq_entries: u32,
    pub flags: u32,
    sq_ring: *mut u8,
    cq_ring: *mut u8,
    sqes: *mut Sqe,
    sq_ring_len: usize,
    cq_ring_len: usize,
    sqes_len: usize,
    pub inflight: Vec<Inflight>,
    pub overflow: VecDeque<(Option<u64>, Cqe)>,
    pub pbufs: BTreeMap<u16, PbufRing>,
    pub files: Option<Vec<Option<i32>>>,
    pub enter_scripts: VecDeque<EnterScript>,
    pub register_fail: BTreeMap<u32, i32>,
    pub enabled: bool,
    pub closed: bool,
    pub scribble: bool,
    /// fds the kernel handed out as regular descriptors and nobody closed yet.
    pub issued_fds: Vec<i32>,
    pub next_seq: u64,
    pub enters: u64,
    /// SQPOLL: the kernel thread went idle (IORING_SQ_NEED_WAKEUP is set in the SQ flags word);
    /// it only runs again when an `io_uring_enter` carries IORING_ENTER_SQ_WAKEUP.
    pub sqpoll_asleep: bool,
    /// IORING_SETUP_SINGLE_ISSUER is enforced (opt-in, `ENFORCE_SINGLE_ISSUER`): the first thread to
    /// enter becomes the submitter, `io_uring_enter` from any other thread fails with EEXIST.
    pub enforce_single: bool,
    pub submitter: Option<i64>,
    /// SQPOLL, opt-in (`SQPOLL_EAGER`): a deterministic kernel thread. It takes everything that is
    /// published at every `io_uring_enter` (as if it had just run), goes idle (NEED_WAKEUP) whenever
    /// nothing is left, and while idle only runs again for an enter that carries SQ_WAKEUP. The
    /// `Enter` event then reports the number it took as `to_submit` (a10 itself passes 0).
    pub sqpoll_eager: bool,
    /// Deferred completions (DEFER_TASKRUN), opt-in per ring: `Some(b)` = completions wait in
    /// `deferred` and at most `b` of them are handed over by each `io_uring_enter(GETEVENTS)`
    /// (Linux: 20; a smaller bound is the adversarial choice).
    pub defer_batch: Option<u32>,
    pub deferred: VecDeque<(Option<u64>, Cqe)>,
    /// A signal is pending for the thread that waits next: the next `io_uring_enter(GETEVENTS)`
    /// whose wait cannot be satisfied returns EINTR (after consuming the submissions), whatever
    /// its timeout.
    pub intr_next_wait: bool,
}

unsafe impl Send for SimRing {}

#[derive(Clone, Debug)]
pub struct SetupCfg {
    pub sq_head0: u32,
    pub cq_head0: u32,
    pub features: u32,
    pub setup_errno: Option<i32>,
    pub scribble: bool,
    /// Copied into `register_fail` of every ring created (register opcode -> errno).
    pub register_fail: BTreeMap<u32, i32>,
    /// Report these `sq_entries` / `cq_entries` to the caller instead of the granted ones
    /// (the ring itself keeps the granted sizes).
    pub echo_sq: Option<u32>,
    pub echo_cq: Option<u32>,
}

impl Default for SetupCfg {
    fn default() -> SetupCfg {
        SetupCfg {
            sq_head0: 0,
            cq_head0: 0,
            features: FEAT_DEFAULT,
            setup_errno: None,
            scribble: true,
            register_fail: BTreeMap::new(),
            echo_sq: None,
            echo_cq: None,
        }
    }
}

pub struct Sim {
    pub rings: BTreeMap<i32, SimRing>,
    pub events: Vec<KEv>,
    pub cfg: SetupCfg,
    /// mappings a10 made of ring fds: addr -> (fd, off, len)
    pub mappings: BTreeMap<usize, (i32, i64, usize)>,
    /// fail the n-th (0-based) mmap of a ring fd from now on with errno
    pub mmap_fail: Option<(u32, i32)>,
    pub mmap_count: u32,
    pub madvise_fail: Option<(u32, i32)>,
    pub madvise_count: u32,
    /// Unmapped-but-remembered ring mappings: addr -> len (for use-after-unmap checks).
    pub unmapped: Vec<(usize, usize)>,
}

pub static ACTIVE: AtomicBool = AtomicBool::new(false);
static SIM: Mutex<Option<Sim>> = Mutex::new(None);
/// Number of real fds closed through `close(2)` that belong to no ring (for ledgers).
pub static CLOSE_CALLS: AtomicI64 = AtomicI64::new(0);

pub fn with_sim<R>(f: impl FnOnce(&mut Sim) -> R) -> R {
    let mut g = match SIM.lock() {
        Ok(g) => g,
        Err(e) => e.into_inner(),
    };
    let sim = g.get_or_insert_with(|| Sim {
        rings: BTreeMap::new(),
        events: Vec::new(),
        cfg: SetupCfg::default(),
        mappings: BTreeMap::new(),
        mmap_fail: None,
        mmap_count: 0,
        madvise_fail: None,
        madvise_count: 0,
        unmapped: Vec::new(),
    });
    f(sim)
}

pub fn with_ring<R>(fd: i32, f: impl FnOnce(&mut SimRing, &mut Vec<KEv>) -> R) -> R {
    with_sim(|sim| {
        let Sim { rings, events, .. } = sim;
        let ring = rings.get_mut(&fd).expect("no such simulated ring");
        f(ring, events)
    })
}

/// Activate the simulated kernel with `cfg` for the rings created from now on.
pub fn activate(cfg: SetupCfg) {
    with_sim(|sim| sim.cfg = cfg);
    ACTIVE.store(true, Ordering::SeqCst);
}

pub fn deactivate() {
    ACTIVE.store(false, Ordering::SeqCst);
}

pub fn drain_events() -> Vec<KEv> {
    with_sim(|sim| std::mem::take(&mut sim.events))
}

/// Forget the rings whose descriptor a10 has closed (their number may be handed out again by the
/// next `io_uring_setup`, which would replace the entry). Call before building an additional ring
/// whose descriptor has to be told apart from the existing ones.
pub fn purge_closed() {
    purge_closed_except(-1);
}

/// Occupy descriptor number `n` (with /dev/null) if it is free, so that the next `io_uring_setup` is
/// not handed the number of a ring a10 has closed but a component still inspects; returns whether it
/// did (then `release_fd(n)` frees it again).
pub fn hold_fd(n: i32) -> bool {
    unsafe {
        if raw_syscall(libc::SYS_fcntl, n as i64, libc::F_GETFD as i64, 0, 0, 0, 0) >= 0 {
            return false;
        }
        let path = b"/dev/null\0";
        let fd = raw_syscall(libc::SYS_openat, libc::AT_FDCWD as i64, path.as_ptr() as i64, libc::O_RDONLY as i64, 0, 0, 0);
        if fd < 0 {
            return false;
        }
        if fd != n as i64 {
            raw_syscall(libc::SYS_dup3, fd, n as i64, 0, 0, 0, 0);
            raw_syscall(libc::SYS_close, fd, 0, 0, 0, 0, 0);
        }
        true
    }
}

pub fn release_fd(n: i32) {
    unsafe { raw_syscall(libc::SYS_close, n as i64, 0, 0, 0, 0, 0) };
}

/// As `purge_closed`, but the ring with descriptor `keep` stays (a component's own ring, which it
/// still inspects after a10 closed it).
pub fn purge_closed_except(keep: i32) {
    with_sim(|sim| {
        let dead: Vec<i32> = sim.rings.iter().filter(|(k, r)| r.closed && **k != keep).map(|(k, _)| *k).collect();
        for fd in dead {
            if let Some(r) = sim.rings.remove(&fd) {
                r.destroy();
            }
        }
    });
}

/// Forget all rings (their memfds were closed by a10 or are closed here).
pub fn reset() {
    with_sim(|sim| {
        let fds: Vec<i32> = sim.rings.keys().copied().collect();
        for fd in fds {
            let r = sim.rings.remove(&fd).unwrap();
            r.destroy();
        }
        sim.events.clear();
        // Ring mappings a10 still holds at the end of a case belong to objects it leaked (the
        // components have reported that by now, e.g. the known findings F11/F19): nothing can reach
        // them any more. Unmap them, or a long run exhausts the kernel's limit on mappings.
        for (addr, (_, _, len)) in std::mem::take(&mut sim.mappings) {
            unsafe { raw_syscall(libc::SYS_munmap, addr as i64, len as i64, 0, 0, 0, 0) };
        }
        sim.unmapped.clear();
        sim.mmap_fail = None;
        sim.madvise_fail = None;
        sim.mmap_count = 0;
        sim.madvise_count = 0;
    });
}

fn errno_ret(e: i32) -> i64 {
    unsafe { *libc::__errno_location() = e };
    -1
}

pub unsafe fn raw_syscall(n: i64, a1: i64, a2: i64, a3: i64, a4: i64, a5: i64, a6: i64) -> i64 {
    let ret: i64;
    unsafe {
        std::arch::asm!(
            "syscall",
            inlateout("rax") n => ret,
            in("rdi") a1, in("rsi") a2, in("rdx") a3,
            in("r10") a4, in("r8") a5, in("r9") a6,
            lateout("rcx") _, lateout("r11") _,
            options(nostack)
        );
    }
    ret
}

fn raw_to_libc(ret: i64) -> i64 {
    if (-4095..0).contains(&ret) {
        errno_ret(-ret as i32)
    } else {
        ret
    }
}

// --- symbol interposition -------------------------------------------------

#[unsafe(no_mangle)]
pub unsafe extern "C" fn syscall(
    n: libc::c_long,
    a1: libc::c_long,
    a2: libc::c_long,
    a3: libc::c_long,
    a4: libc::c_long,
    a5: libc::c_long,
    a6: libc::c_long,
) -> libc::c_long {
    if ACTIVE.load(Ordering::SeqCst) {
        match n {
            SYS_IO_URING_SETUP => return sim_setup(a1 as u32, a2 as *mut Params),
            SYS_IO_URING_ENTER => {
                let known = with_sim(|s| s.rings.contains_key(&(a1 as i32)));
                if known {
                    return sim_enter(a1 as i32, a2 as u32, a3 as u32, a4 as u32, a5 as usize);
                }
            }
            SYS_IO_URING_REGISTER => {
                let fd = a1 as i32;
                let known = fd == -1 || with_sim(|s| s.rings.contains_key(&fd));
                if known {
                    return sim_register(fd, a2 as u32, a3 as usize, a4 as u32);
                }
            }
            _ => {}
        }
    }
    raw_to_libc(unsafe { raw_syscall(n, a1, a2, a3, a4, a5, a6) })
}

#[unsafe(no_mangle)]
pub unsafe extern "C" fn close(fd: libc::c_int) -> libc::c_int {
    let ret = raw_to_libc(unsafe { raw_syscall(libc::SYS_close, fd as i64, 0, 0, 0, 0, 0) });
    if ACTIVE.load(Ordering::SeqCst) {
        // Never allocate while a10 is not involved: only log for interesting fds.
        with_sim(|sim| {
            let is_ring = sim.rings.contains_key(&fd);
            let issued = sim.rings.values().any(|r| r.issued_fds.contains(&fd));
            if is_ring {
                if let Some(r) = sim.rings.get_mut(&fd) {
                    r.closed = true;
                }
            }
            if is_ring || issued {
                for r in sim.rings.values_mut() {
                    r.issued_fds.retain(|f| *f != fd);
                }
                sim.events.push(KEv::CloseFd { fd, ret });
            }
        });
    }
    ret as libc::c_int
}

#[unsafe(no_mangle)]
pub unsafe extern "C" fn mmap(
    addr: *mut libc::c_void,
    len: libc::size_t,
    prot: libc::c_int,
    flags: libc::c_int,
    fd: libc::c_int,
    off: libc::off_t,
) -> *mut libc::c_void {
    let watched = fd >= 0
        && ACTIVE.load(Ordering::SeqCst)
        && with_sim(|sim| sim.rings.contains_key(&fd));
    if watched {
        let fail = with_sim(|sim| {
            let n = sim.mmap_count;
            sim.mmap_count += 1;
            match sim.mmap_fail {
                Some((k, e)) if k == n => Some(e),
                _ => None,
            }
        });
        if let Some(e) = fail {
            errno_ret(e);
            with_sim(|sim| {
                sim.events.push(KEv::Mmap {
                    fd,
                    off,
                    len,
                    ret: -1,
                })
            });
            return libc::MAP_FAILED;
        }
    }
    let ret = raw_to_libc(unsafe {
        raw_syscall(
            libc::SYS_mmap,
            addr as i64,
            len as i64,
            prot as i64,
            flags as i64,
            fd as i64,
            off,
        )
    });
    if watched {
        with_sim(|sim| {
            if ret != -1 {
                sim.mappings.insert(ret as usize, (fd, off, len));
                // the address range is in use again: no longer "unmapped"
                let (a, b) = (ret as usize, ret as usize + len);
                sim.unmapped.retain(|(x, l)| *x + *l <= a || *x >= b);
            }
            sim.events.push(KEv::Mmap {
                fd,
                off,
                len,
                ret: ret as isize,
            });
        });
    }
    ret as *mut libc::c_void
}

#[unsafe(no_mangle)]
pub unsafe extern "C" fn munmap(addr: *mut libc::c_void, len: libc::size_t) -> libc::c_int {
    if ACTIVE.load(Ordering::SeqCst) {
        with_sim(|sim| {
            if let Some((_, _, l)) = sim.mappings.remove(&(addr as usize)) {
                sim.unmapped.push((addr as usize, l));
                sim.events.push(KEv::Munmap {
                    addr: addr as usize,
                    len,
                    known: l == len,
                });
            }
        });
    }
    raw_to_libc(unsafe { raw_syscall(libc::SYS_munmap, addr as i64, len as i64, 0, 0, 0, 0) })
        as libc::c_int
}

#[unsafe(no_mangle)]
pub unsafe extern "C" fn madvise(
    addr: *mut libc::c_void,
    len: libc::size_t,
    advice: libc::c_int,
) -> libc::c_int {
    if ACTIVE.load(Ordering::SeqCst) {
        let fail = with_sim(|sim| {
            if sim.mappings.contains_key(&(addr as usize)) {
                let n = sim.madvise_count;
                sim.madvise_count += 1;
                match sim.madvise_fail {
                    Some((k, e)) if k == n => Some(e),
                    _ => None,
                }
            } else {
                None
            }
        });
        if let Some(e) = fail {
            return errno_ret(e) as libc::c_int;
        }
    }
    raw_to_libc(unsafe {
        raw_syscall(
            libc::SYS_madvise,
            addr as i64,
            len as i64,
            advice as i64,
            0,
            0,
            0,
        )
    }) as libc::c_int
}

// --- synchronous socket / pipe calls (fallback paths of a10) ----------------
//
// `getsockname`, `getpeername`, `getsockopt`, `setsockopt` and `pipe2` are
// interposed like `close`/`mmap` above. Unless the simulated kernel is active
// AND a component switched the trap on (`sync_trap(true)`; only `encode` does),
// they forward to the real function (`dlsym(RTLD_NEXT, ..)`, raw system call if
// that cannot be resolved) and record nothing. With the trap on, a call is
// recorded (`SyncCall`) and answered from the script (`SyncScript`) without
// reaching the real kernel.

/// One trapped synchronous call.
#[derive(Clone, Debug, PartialEq)]
pub struct SyncCall {
    /// "getsockname" | "getpeername" | "getsockopt" | "setsockopt" | "pipe2"
    pub call: &'static str,
    /// descriptor argument (-1 for `pipe2`)
    pub fd: i32,
    pub level: i32,
    pub optname: i32,
    /// `*address_len` / `*optlen` on entry, `option_len` of `setsockopt`
    pub len_in: u32,
    /// value bytes passed to `setsockopt` (at most 64 are read)
    pub val: Vec<u8>,
    /// `pipe2` flags
    pub flags: i32,
    /// what was returned: 0 or -errno
    pub ret: i32,
}

/// Outcome of the next trapped calls.
#[derive(Clone, Debug, Default)]
pub struct SyncScript {
    /// fail with this errno (nothing is written)
    pub errno: Option<i32>,
    /// bytes written to the address / option buffer (truncated to the length
    /// the caller passed in, as the kernel does)
    pub data: Vec<u8>,
    /// value stored into `*address_len` / `*optlen`
    pub len_out: u32,
    /// descriptors `pipe2` returns
    pub fds: [i32; 2],
}

static SYNC_TRAP: AtomicBool = AtomicBool::new(false);
static SYNC_LOG: Mutex<(Vec<SyncCall>, Option<SyncScript>)> = Mutex::new((Vec::new(), None));

fn with_sync<R>(f: impl FnOnce(&mut (Vec<SyncCall>, Option<SyncScript>)) -> R) -> R {
    let mut g = match SYNC_LOG.lock() {
        Ok(g) => g,
        Err(e) => e.into_inner(),
    };
    f(&mut g)
}

/// Switch the trap on/off. Off (the default) = pure forwarding.
pub fn sync_trap(on: bool) {
    SYNC_TRAP.store(on, Ordering::SeqCst);
    if !on {
        with_sync(|g| {
            g.0.clear();
            g.1 = None;
        });
    }
}

/// Outcome of the trapped calls from now on (`None` = succeed writing nothing).
pub fn sync_script(s: Option<SyncScript>) {
    with_sync(|g| g.1 = s);
}

/// The calls trapped since the last drain.
pub fn sync_drain() -> Vec<SyncCall> {
    with_sync(|g| std::mem::take(&mut g.0))
}

fn sync_trapped() -> bool {
    SYNC_TRAP.load(Ordering::SeqCst) && ACTIVE.load(Ordering::SeqCst)
}

/// Address of the next definition of `name` (the C library's), resolved once.
fn next_symbol(cache: &std::sync::atomic::AtomicUsize, name: &std::ffi::CStr) -> usize {
    let p = cache.load(Ordering::Relaxed);
    if p != 0 {
        return p;
    }
    let p = unsafe { libc::dlsym(libc::RTLD_NEXT, name.as_ptr()) } as usize;
    cache.store(p, Ordering::Relaxed);
    p
}

/// Record a trapped call and produce its return value from the script.
fn sync_answer(mut c: SyncCall, write: impl FnOnce(&SyncScript)) -> libc::c_int {
    let script = with_sync(|g| g.1.clone()).unwrap_or_default();
    let ret = match script.errno {
        Some(e) => {
            c.ret = -e;
            errno_ret(e) as libc::c_int
        }
        None => {
            write(&script);
            c.ret = 0;
            0
        }
    };
    with_sync(|g| g.0.push(c));
    ret
}

fn sync_call(call: &'static str, fd: i32) -> SyncCall {
    SyncCall { call, fd, level: 0, optname: 0, len_in: 0, val: Vec::new(), flags: 0, ret: 0 }
}

unsafe fn sync_name(
    call: &'static str,
    fd: libc::c_int,
    addr: *mut libc::sockaddr,
    len: *mut libc::socklen_t,
) -> libc::c_int {
    let mut c = sync_call(call, fd);
    c.len_in = if len.is_null() { 0 } else { unsafe { *len } };
    let cap = c.len_in as usize;
    sync_answer(c, |s| unsafe {
        if !addr.is_null() {
            let n = s.data.len().min(cap);
            std::ptr::copy_nonoverlapping(s.data.as_ptr(), addr.cast::<u8>(), n);
        }
        if !len.is_null() {
            *len = s.len_out;
        }
    })
}

#[unsafe(no_mangle)]
pub unsafe extern "C" fn getsockname(
    fd: libc::c_int,
    addr: *mut libc::sockaddr,
    len: *mut libc::socklen_t,
) -> libc::c_int {
    if sync_trapped() {
        return unsafe { sync_name("getsockname", fd, addr, len) };
    }
    static NEXT: std::sync::atomic::AtomicUsize = std::sync::atomic::AtomicUsize::new(0);
    type F = unsafe extern "C" fn(libc::c_int, *mut libc::sockaddr, *mut libc::socklen_t) -> libc::c_int;
    match next_symbol(&NEXT, c"getsockname") {
        0 => raw_to_libc(unsafe { raw_syscall(libc::SYS_getsockname, fd as i64, addr as i64, len as i64, 0, 0, 0) }) as libc::c_int,
        p => unsafe { std::mem::transmute::<usize, F>(p)(fd, addr, len) },
    }
}

#[unsafe(no_mangle)]
pub unsafe extern "C" fn getpeername(
    fd: libc::c_int,
    addr: *mut libc::sockaddr,
    len: *mut libc::socklen_t,
) -> libc::c_int {
    if sync_trapped() {
        return unsafe { sync_name("getpeername", fd, addr, len) };
    }
    static NEXT: std::sync::atomic::AtomicUsize = std::sync::atomic::AtomicUsize::new(0);
    type F = unsafe extern "C" fn(libc::c_int, *mut libc::sockaddr, *mut libc::socklen_t) -> libc::c_int;
    match next_symbol(&NEXT, c"getpeername") {
        0 => raw_to_libc(unsafe { raw_syscall(libc::SYS_getpeername, fd as i64, addr as i64, len as i64, 0, 0, 0) }) as libc::c_int,
        p => unsafe { std::mem::transmute::<usize, F>(p)(fd, addr, len) },
    }
}

#[unsafe(no_mangle)]
pub unsafe extern "C" fn getsockopt(
    fd: libc::c_int,
    level: libc::c_int,
    optname: libc::c_int,
    optval: *mut libc::c_void,
    optlen: *mut libc::socklen_t,
) -> libc::c_int {
    if sync_trapped() {
        let mut c = sync_call("getsockopt", fd);
        c.level = level;
        c.optname = optname;
        c.len_in = if optlen.is_null() { 0 } else { unsafe { *optlen } };
        let cap = c.len_in as usize;
        return sync_answer(c, |s| unsafe {
            if !optval.is_null() {
                let n = s.data.len().min(cap);
                std::ptr::copy_nonoverlapping(s.data.as_ptr(), optval.cast::<u8>(), n);
            }
            if !optlen.is_null() {
                *optlen = s.len_out;
            }
        });
    }
    static NEXT: std::sync::atomic::AtomicUsize = std::sync::atomic::AtomicUsize::new(0);
    type F = unsafe extern "C" fn(libc::c_int, libc::c_int, libc::c_int, *mut libc::c_void, *mut libc::socklen_t) -> libc::c_int;
    match next_symbol(&NEXT, c"getsockopt") {
        0 => raw_to_libc(unsafe { raw_syscall(libc::SYS_getsockopt, fd as i64, level as i64, optname as i64, optval as i64, optlen as i64, 0) }) as libc::c_int,
        p => unsafe { std::mem::transmute::<usize, F>(p)(fd, level, optname, optval, optlen) },
    }
}

#[unsafe(no_mangle)]
pub unsafe extern "C" fn setsockopt(
    fd: libc::c_int,
    level: libc::c_int,
    optname: libc::c_int,
    optval: *const libc::c_void,
    optlen: libc::socklen_t,
) -> libc::c_int {
    if sync_trapped() {
        let mut c = sync_call("setsockopt", fd);
        c.level = level;
        c.optname = optname;
        c.len_in = optlen;
        if !optval.is_null() {
            let n = (optlen as usize).min(64);
            c.val = unsafe { std::slice::from_raw_parts(optval.cast::<u8>(), n) }.to_vec();
        }
        return sync_answer(c, |_| {});
    }
    static NEXT: std::sync::atomic::AtomicUsize = std::sync::atomic::AtomicUsize::new(0);
    type F = unsafe extern "C" fn(libc::c_int, libc::c_int, libc::c_int, *const libc::c_void, libc::socklen_t) -> libc::c_int;
    match next_symbol(&NEXT, c"setsockopt") {
        0 => raw_to_libc(unsafe { raw_syscall(libc::SYS_setsockopt, fd as i64, level as i64, optname as i64, optval as i64, optlen as i64, 0) }) as libc::c_int,
        p => unsafe { std::mem::transmute::<usize, F>(p)(fd, level, optname, optval, optlen) },
    }
}

#[unsafe(no_mangle)]
pub unsafe extern "C" fn pipe2(fds: *mut libc::c_int, flags: libc::c_int) -> libc::c_int {
    if sync_trapped() {
        let mut c = sync_call("pipe2", -1);
        c.flags = flags;
        return sync_answer(c, |s| unsafe {
            if !fds.is_null() {
                *fds = s.fds[0];
                *fds.add(1) = s.fds[1];
            }
        });
    }
    static NEXT: std::sync::atomic::AtomicUsize = std::sync::atomic::AtomicUsize::new(0);
    type F = unsafe extern "C" fn(*mut libc::c_int, libc::c_int) -> libc::c_int;
    match next_symbol(&NEXT, c"pipe2") {
        0 => raw_to_libc(unsafe { raw_syscall(libc::SYS_pipe2, fds as i64, flags as i64, 0, 0, 0, 0) }) as libc::c_int,
        p => unsafe { std::mem::transmute::<usize, F>(p)(fds, flags) },
    }
}

// --- setup ----------------------------------------------------------------

fn raw_mmap_fd(fd: i32, off: i64, len: usize) -> *mut u8 {
    let ret = unsafe {
        raw_syscall(
            libc::SYS_mmap,
            0,
            len as i64,
            (libc::PROT_READ | libc::PROT_WRITE) as i64,
            libc::MAP_SHARED as i64,
            fd as i64,
            off,
        )
    };
    assert!(!(-4095..0).contains(&ret), "kernel-side mmap failed: {ret}");
    ret as *mut u8
}

fn page_up(n: usize) -> usize {
    (n + 4095) & !4095
}

fn sim_setup(entries: u32, p: *mut Params) -> i64 {
    let params_in = unsafe { *p };
    let cfg = with_sim(|s| s.cfg.clone());
    if let Some(e) = cfg.setup_errno {
        with_sim(|s| {
            s.events.push(KEv::Setup {
                fd: -1,
                params_in,
                params_out: params_in,
                ret: -(e as i64),
            })
        });
        return errno_ret(e);
    }
    let flags = params_in.flags;
    // Refusals by the sizing rules are logged like scripted ones.
    let einval = || {
        with_sim(|s| {
            s.events.push(KEv::Setup {
                fd: -1,
                params_in,
                params_out: params_in,
                ret: -(libc::EINVAL as i64),
            })
        });
        errno_ret(libc::EINVAL)
    };
    if entries == 0 {
        return einval();
    }
    let mut sq_entries = entries;
    if sq_entries > 32768 {
        if flags & SETUP_CLAMP == 0 {
            return einval();
        }
        sq_entries = 32768;
    }
    let sq_entries = sq_entries.next_power_of_two();
    let cq_entries = if flags & SETUP_CQSIZE != 0 {
        let mut c = params_in.cq_entries;
        if c == 0 {
            return einval();
        }
        if c > 65536 {
            if flags & SETUP_CLAMP == 0 {
                return einval();
            }
            c = 65536;
        }
        let c = c.next_power_of_two();
        if c < sq_entries {
            return einval();
        }
        c
    } else {
        2 * sq_entries
    };

    let name = c"a10-sim-ring";
    let fd = unsafe { raw_syscall(libc::SYS_memfd_create, name.as_ptr() as i64, 0, 0, 0, 0, 0) };
    assert!(fd >= 0, "memfd_create failed");
    let fd = fd as i32;
    let sqes_len = page_up(sq_entries as usize * 64);
    let total = OFF_SQES as usize + sqes_len;
    let r = unsafe { raw_syscall(libc::SYS_ftruncate, fd as i64, total as i64, 0, 0, 0, 0) };
    assert!(r == 0, "ftruncate failed");
    let sq_ring_len = 4096usize;
    let cq_ring_len = page_up(CQ_CQES + cq_entries as usize * 16);
    let sq_ring = raw_mmap_fd(fd, OFF_SQ_RING, sq_ring_len);
    let cq_ring = raw_mmap_fd(fd, OFF_CQ_RING, cq_ring_len);
    let sqes = raw_mmap_fd(fd, OFF_SQES, sqes_len) as *mut Sqe;

    unsafe {
        w32(sq_ring, SQ_HEAD, cfg.sq_head0);
        w32(sq_ring, SQ_TAIL, cfg.sq_head0);
        w32(sq_ring, SQ_MASK, sq_entries - 1);
        w32(sq_ring, SQ_ENTRIES, sq_entries);
        w32(cq_ring, CQ_HEAD, cfg.cq_head0);
        w32(cq_ring, CQ_TAIL, cfg.cq_head0);
        w32(cq_ring, CQ_MASK, cq_entries - 1);
        w32(cq_ring, CQ_ENTRIES, cq_entries);
    }

    let mut out = params_in;
    out.sq_entries = sq_entries;
    out.cq_entries = cq_entries;
    out.features = cfg.features;
    if let Some(n) = cfg.echo_sq {
        out.sq_entries = n;
    }
    if let Some(n) = cfg.echo_cq {
        out.cq_entries = n;
    }
    out.sq_off = SqOff {
        head: SQ_HEAD as u32,
        tail: SQ_TAIL as u32,
        ring_mask: SQ_MASK as u32,
        ring_entries: SQ_ENTRIES as u32,
        flags: SQ_FLAGS as u32,
        dropped: SQ_DROPPED as u32,
        array: if flags & SETUP_NO_SQARRAY != 0 { 0 } else { 64 },
        resv1: 0,
        user_addr: 0,
    };
    out.cq_off = CqOff {
        head: CQ_HEAD as u32,
        tail: CQ_TAIL as u32,
        ring_mask: CQ_MASK as u32,
        ring_entries: CQ_ENTRIES as u32,
        overflow: CQ_OVERFLOW as u32,
        cqes: CQ_CQES as u32,
        flags: CQ_FLAGS as u32,
        resv1: 0,
        user_addr: 0,
    };
    unsafe { *p = out };

    let ring = SimRing {
        fd,
        sq_entries,
        cq_entries,
        flags,
        sq_ring,
        cq_ring,
        sqes,
        sq_ring_len,
        cq_ring_len,
        sqes_len,
        inflight: Vec::new(),
        overflow: VecDeque::new(),
        pbufs: BTreeMap::new(),
        files: None,
        enter_scripts: VecDeque::new(),
        register_fail: cfg.register_fail.clone(),
        enabled: flags & SETUP_R_DISABLED == 0,
        closed: false,
        scribble: cfg.scribble,
        issued_fds: Vec::new(),
        next_seq: 1,
        enters: 0,
        sqpoll_asleep: false,
        enforce_single: ENFORCE_SINGLE_ISSUER.load(Ordering::SeqCst),
        // as in Linux: the submitter of a single-issuer ring is the thread that creates it, or —
        // for a ring created disabled — the thread that enables it
        submitter: if flags & SETUP_SINGLE_ISSUER != 0 && flags & SETUP_R_DISABLED == 0 {
            Some(unsafe { raw_syscall(libc::SYS_gettid, 0, 0, 0, 0, 0, 0) })
        } else {
            None
        },
        sqpoll_eager: SQPOLL_EAGER.load(Ordering::SeqCst),
        intr_next_wait: false,
        defer_batch: None,
        deferred: VecDeque::new(),
    };
    with_sim(|s| {
        s.rings.insert(fd, ring);
        s.events.push(KEv::Setup {
            fd,
            params_in,
            params_out: out,
            ret: fd as i64,
        });
    });
    fd as i64
}

unsafe fn w32(base: *mut u8, off: usize, v: u32) {
    unsafe { (*(base.add(off) as *const AtomicU32)).store(v, Ordering::SeqCst) }
}
unsafe fn r32(base: *mut u8, off: usize) -> u32 {
    unsafe { (*(base.add(off) as *const AtomicU32)).load(Ordering::SeqCst) }
}

fn region(what: &'static str, addr: u64, len: usize) -> Region {
    Region {
        what,
        addr: addr as usize,
        len,
        block: track::block_of(addr as usize).map(|b| b.id),
    }
}

#[repr(C)]
#[derive(Copy, Clone)]
struct Iovec {
    base: u64,
    len: u64,
}

#[repr(C)]
#[derive(Copy, Clone)]
struct Msghdr {
    name: u64,
    namelen: u32,
    _pad: u32,
    iov: u64,
    iovlen: u64,
    control: u64,
    controllen: u64,
    flags: i32,
    _pad2: u32,
}

pub const SOCKET_OP_GETSOCKOPT: u32 = 2;
pub const SOCKET_OP_SETSOCKOPT: u32 = 3;
pub const SOCKET_OP_GETSOCKNAME: u32 = 5;

/// When set, a CLOSE submission made by a `Close` future (`user_data` > 3) is an
/// ordinary in-flight submission that completes when the script posts for it
/// Rings created while this is set enforce IORING_SETUP_SINGLE_ISSUER (see `SimRing::enforce_single`).
pub static ENFORCE_SINGLE_ISSUER: AtomicBool = AtomicBool::new(false);
pub static SQPOLL_EAGER: AtomicBool = AtomicBool::new(false);
/// The flush of the Ring's drop — `io_uring_enter(min_complete = u32::MAX, IORING_ENTER_SQ_WAIT)` on
/// a ring with a kernel thread, after which a10 waits for the thread to have taken the queue: the
/// simulated thread gets to run during that call and takes everything published. One of the
/// behaviours an asynchronous thread may show (it spares the ordinary cases the one-second bound
/// of that wait); switched off by the scenario that lets the thread run later. SQ_WAIT by itself
/// does NOT make the thread take anything (Linux: it only waits while the queue is FULL).
pub static SQWAIT_RUNS_THREAD: AtomicBool = AtomicBool::new(true);

/// (the `life` component); closes made by dropping an `AsyncFd` stay synchronous.
pub static DEFER_CLOSE_OPS: AtomicBool = AtomicBool::new(false);

/// When set, a successful completion also writes plausible bytes into the
/// request's out-parameters (`SimRing::write_out_params`); components that write
/// them themselves before posting (`encode`) leave it off.
pub static WRITE_OUT_PARAMS: AtomicBool = AtomicBool::new(false);

/// Length (including the terminating NUL) of the C string at `addr`.
fn cstr_len(addr: u64) -> usize {
    if addr == 0 {
        return 0;
    }
    // A path that was already freed is still readable (quarantine / poison pattern);
    // bound the scan so that garbage cannot run away.
    let mut n = 0usize;
    while n < 4096 && unsafe { *((addr as usize + n) as *const u8) } != 0 {
        n += 1;
    }
    n + 1
}

/// User memory regions the kernel may touch for this submission.
pub fn regions_of(sqe: &Sqe) -> Vec<Region> {
    let mut v = Vec::new();
    let buf_select = sqe.flags & IOSQE_BUFFER_SELECT != 0;
    match sqe.opcode {
        OP_READ | OP_WRITE | OP_SEND | OP_RECV | OP_SEND_ZC => {
            if !buf_select && sqe.addr != 0 {
                v.push(region("data", sqe.addr, sqe.len as usize));
            }
            if matches!(sqe.opcode, OP_SEND | OP_SEND_ZC) && sqe.off != 0 {
                // addr2 = destination address, addr_len in file_index's low 16 bits
                v.push(region("addr", sqe.off, (sqe.file_index & 0xffff) as usize));
            }
        }
        OP_READV | OP_WRITEV => {
            let n = sqe.len as usize;
            v.push(region("iovecs", sqe.addr, n * 16));
            for i in 0..n {
                let iov = unsafe { *(sqe.addr as *const Iovec).add(i) };
                if iov.len > 0 {
                    v.push(region("iov-data", iov.base, iov.len as usize));
                }
            }
        }
        OP_SENDMSG | OP_RECVMSG | OP_SENDMSG_ZC => {
            v.push(region("msghdr", sqe.addr, size_of::<Msghdr>()));
            let m = unsafe { *(sqe.addr as *const Msghdr) };
            if m.name != 0 {
                v.push(region("msg-name", m.name, m.namelen as usize));
            }
            if m.iov != 0 {
                v.push(region("iovecs", m.iov, m.iovlen as usize * 16));
                for i in 0..m.iovlen as usize {
                    let iov = unsafe { *(m.iov as *const Iovec).add(i) };
                    if iov.len > 0 && !buf_select {
                        v.push(region("iov-data", iov.base, iov.len as usize));
                    }
                }
            }
            if m.control != 0 {
                v.push(region("msg-control", m.control, m.controllen as usize));
            }
        }
        OP_ACCEPT => {
            if sqe.addr != 0 && sqe.off != 0 {
                // addr = sockaddr, addr2(off) = socklen_t*
                let lenp = sqe.off;
                v.push(region("addrlen", lenp, 4));
                let l = unsafe { *(lenp as *const u32) };
                v.push(region("addr", sqe.addr, l as usize));
            }
        }
        OP_CONNECT | OP_BIND => {
            v.push(region("addr", sqe.addr, sqe.off as usize));
        }
        OP_OPENAT | OP_UNLINKAT | OP_MKDIRAT => {
            v.push(region("path", sqe.addr, cstr_len(sqe.addr)));
        }
        OP_RENAMEAT => {
            v.push(region("path", sqe.addr, cstr_len(sqe.addr)));
            v.push(region("path2", sqe.off, cstr_len(sqe.off)));
        }
        OP_STATX => {
            v.push(region("path", sqe.addr, cstr_len(sqe.addr)));
            v.push(region("statx", sqe.off, 256));
        }
        OP_WAITID => {
            if sqe.off != 0 {
                v.push(region("siginfo", sqe.off, 128));
            }
        }
        OP_FILES_UPDATE => {
            v.push(region("fds", sqe.addr, sqe.len as usize * 4));
        }
        OP_PIPE => {
            v.push(region("fds", sqe.addr, 8));
        }
        OP_URING_CMD => match sqe.off as u32 {
            // socket commands: cmd_op in the low half of `off`
            SOCKET_OP_GETSOCKOPT | SOCKET_OP_SETSOCKOPT => {
                // optval = addr3, optlen = file_index
                if sqe.addr3 != 0 {
                    v.push(region("optval", sqe.addr3, sqe.file_index as usize));
                }
            }
            SOCKET_OP_GETSOCKNAME => {
                // addr = sockaddr, addr3 = socklen_t*
                if sqe.addr != 0 && sqe.addr3 != 0 {
                    v.push(region("addrlen", sqe.addr3, 4));
                    let l = unsafe { *(sqe.addr3 as *const u32) };
                    v.push(region("addr", sqe.addr, l as usize));
                }
            }
            _ => {}
        },
        _ => {}
    }
    v
}

impl SimRing {
    fn destroy(self) {
        unsafe {
            raw_syscall(libc::SYS_munmap, self.sq_ring as i64, self.sq_ring_len as i64, 0, 0, 0, 0);
            raw_syscall(libc::SYS_munmap, self.cq_ring as i64, self.cq_ring_len as i64, 0, 0, 0, 0);
            raw_syscall(libc::SYS_munmap, self.sqes as i64, self.sqes_len as i64, 0, 0, 0, 0);
            if !self.closed {
                raw_syscall(libc::SYS_close, self.fd as i64, 0, 0, 0, 0, 0);
            }
        }
    }

    pub fn sq_head(&self) -> u32 {
        unsafe { r32(self.sq_ring, SQ_HEAD) }
    }
    pub fn sq_tail(&self) -> u32 {
        unsafe { r32(self.sq_ring, SQ_TAIL) }
    }
    pub fn cq_head(&self) -> u32 {
        unsafe { r32(self.cq_ring, CQ_HEAD) }
    }
    pub fn cq_tail(&self) -> u32 {
        unsafe { r32(self.cq_ring, CQ_TAIL) }
    }
    pub fn set_sq_flags(&self, v: u32) {
        unsafe { w32(self.sq_ring, SQ_FLAGS, v) }
    }
    /// SQPOLL: the kernel thread goes idle if nothing is pending (sets IORING_SQ_NEED_WAKEUP).
    pub fn sqpoll_sleep(&mut self) -> bool {
        if self.flags & SETUP_SQPOLL == 0 || self.sq_pending() != 0 || self.sqpoll_asleep {
            return false;
        }
        self.sqpoll_asleep = true;
        self.set_sq_flags(1);
        true
    }
    /// Zero a submission slot (harness set-up only).
    pub fn clear_sqe(&mut self, index: u32) {
        unsafe { std::ptr::write_bytes(self.sqes.add((index & (self.sq_entries - 1)) as usize), 0, 1) }
    }
    pub fn sqe_at(&self, index: u32) -> Sqe {
        unsafe { *self.sqes.add((index & (self.sq_entries - 1)) as usize) }
    }
    /// Published, unconsumed completions, oldest first.
    pub fn cq_pending(&self) -> Vec<Cqe> {
        let mut v = Vec::new();
        let mut h = self.cq_head();
        let t = self.cq_tail();
        while h != t {
            let idx = (h & (self.cq_entries - 1)) as usize;
            v.push(unsafe { std::ptr::read_volatile(self.cq_ring.add(CQ_CQES + idx * 16) as *const Cqe) });
            h = h.wrapping_add(1);
        }
        v
    }
    pub fn cq_count(&self) -> u32 {
        self.cq_tail().wrapping_sub(self.cq_head())
    }
    pub fn sq_pending(&self) -> u32 {
        self.sq_tail().wrapping_sub(self.sq_head())
    }

    /// Consume up to `n` published submissions (KC1).
    pub fn consume(&mut self, n: u32, ev: &mut Vec<KEv>) -> Vec<u64> {
        let mut seqs = Vec::new();
        for _ in 0..n {
            let head = self.sq_head();
            let tail = self.sq_tail();
            if head == tail {
                break;
            }
            let sqe = self.sqe_at(head);
            if sqe.is_zero() {
                ev.push(KEv::TornEntry {
                    index: head & (self.sq_entries - 1),
                });
            }
            unsafe { w32(self.sq_ring, SQ_HEAD, head.wrapping_add(1)) };
            let seq = self.next_seq;
            self.next_seq += 1;
            seqs.push(seq);
            ev.push(KEv::Consumed { seq, sqe });
            self.execute(seq, sqe, ev);
        }
        seqs
    }

    fn execute(&mut self, seq: u64, sqe: Sqe, ev: &mut Vec<KEv>) {
        let skip_ok = sqe.flags & IOSQE_CQE_SKIP_SUCCESS != 0;
        match sqe.opcode {
            OP_ASYNC_CANCEL => {
                let target_ud = sqe.addr;
                let found = self
                    .inflight
                    .iter_mut()
                    .find(|i| i.sqe.user_data == target_ud);
                let (res, target_seq) = match found {
                    Some(i) => {
                        i.cancel_requested = true;
                        (0, Some(i.seq))
                    }
                    None => (-libc::ENOENT, None),
                };
                ev.push(KEv::Cancel {
                    seq,
                    target_ud,
                    target_seq,
                    res,
                });
                if !(skip_ok && res == 0) {
                    self.post_raw(None, Cqe { user_data: sqe.user_data, res, flags: 0 }, ev);
                }
            }
            OP_CLOSE if !(sqe.user_data > 3 && DEFER_CLOSE_OPS.load(Ordering::SeqCst)) => {
                let direct = sqe.file_index != 0;
                let res = if direct {
                    let idx = (sqe.file_index - 1) as usize;
                    match self.files.as_mut().and_then(|f| f.get_mut(idx)) {
                        Some(slot @ Some(_)) => {
                            *slot = None;
                            0
                        }
                        Some(None) => -libc::EBADF,
                        None => -libc::ENXIO,
                    }
                } else {
                    let fd = sqe.fd;
                    if self.issued_fds.contains(&fd) {
                        self.issued_fds.retain(|f| *f != fd);
                    }
                    let r = unsafe { raw_syscall(libc::SYS_close, fd as i64, 0, 0, 0, 0, 0) };
                    r as i32
                };
                ev.push(KEv::CloseReq {
                    seq,
                    fd: if direct { (sqe.file_index - 1) as i32 } else { sqe.fd },
                    direct,
                    res,
                });
                if !(skip_ok && res == 0) {
                    self.post_raw(None, Cqe { user_data: sqe.user_data, res, flags: 0 }, ev);
                }
            }
            OP_MSG_RING if sqe.user_data <= 3 => {
                // Wake message: executed synchronously on the target ring.
                // Handled by the caller (needs access to the other ring).
                self.inflight.push(Inflight {
                    seq,
                    sqe,
                    regions: Vec::new(),
                    state_block: None,
                    cancel_requested: false,
                    posted: 0,
                });
            }
            _ => {
                let mut regions = regions_of(&sqe);
                // A buffer-select request hands the kernel the buffer ring of its group and the
                // buffers offered there: they too must stay what they are until the final completion.
                if sqe.flags & IOSQE_BUFFER_SELECT != 0 {
                    if let Some(p) = self.pbufs.get(&sqe.buf_index) {
                        regions.push(region("pool-ring", p.ring_addr as u64, p.entries as usize * 16));
                        let mut seen: Vec<u64> = Vec::new();
                        for (_, addr, len) in self.available_buffers(sqe.buf_index) {
                            let r = region("pool-buffer", addr, len as usize);
                            match r.block {
                                Some(b) if seen.contains(&b) => {}
                                Some(b) => {
                                    seen.push(b);
                                    regions.push(r);
                                }
                                None => regions.push(r),
                            }
                        }
                    }
                }
                // Oracle C01: a submission must not reference memory that has
                // already been freed (the tracking allocator keeps freed watched
                // blocks in quarantine, so this is detectable).
                for r in &regions {
                    if r.block.is_none() && (track::freed_block_of(r.addr).is_some() || crate::util::on_stack(r.addr)) {
                        // freed heap memory, or a thread's stack: the frame that held it is gone by
                        // the time the kernel reads it (operations outlive the call that built them)
                        ev.push(KEv::BadMemory { seq, what: r.what, addr: r.addr });
                    }
                }
                let state_block = if sqe.user_data > 3 {
                    track::block_of((sqe.user_data & !1) as usize).map(|b| b.id)
                } else {
                    None
                };
                self.inflight.push(Inflight {
                    seq,
                    sqe,
                    regions,
                    state_block,
                    cancel_requested: false,
                    posted: 0,
                });
            }
        }
    }

    /// Publish a CQE (KC3): slot first, then the tail; overflow list when full. On a ring with
    /// deferred completions (`defer_batch`, IORING_SETUP_DEFER_TASKRUN: probed on the real kernel by
    /// `a10h kc`) nothing is published outside `io_uring_enter(GETEVENTS)`: the completion waits.
    pub fn post_raw(&mut self, seq: Option<u64>, cqe: Cqe, ev: &mut Vec<KEv>) {
        if self.defer_batch.is_some() {
            self.deferred.push_back((seq, cqe));
            return;
        }
        self.post_now(seq, cqe, ev);
    }

    /// `io_uring_enter(GETEVENTS)` on a ring with deferred completions hands over one batch.
    pub fn run_deferred(&mut self, ev: &mut Vec<KEv>) {
        let Some(b) = self.defer_batch else { return };
        for _ in 0..b {
            let Some((seq, cqe)) = self.deferred.pop_front() else { break };
            self.post_now(seq, cqe, ev);
        }
    }

    fn post_now(&mut self, seq: Option<u64>, cqe: Cqe, ev: &mut Vec<KEv>) {
        if !self.overflow.is_empty() || self.cq_count() >= self.cq_entries {
            self.overflow.push_back((seq, cqe));
            ev.push(KEv::Posted {
                seq,
                cqe,
                overflowed: true,
            });
            return;
        }
        self.write_cqe(cqe);
        ev.push(KEv::Posted {
            seq,
            cqe,
            overflowed: false,
        });
    }

    fn write_cqe(&mut self, cqe: Cqe) {
        let tail = self.cq_tail();
        let idx = (tail & (self.cq_entries - 1)) as usize;
        unsafe {
            let slot = self.cq_ring.add(CQ_CQES + idx * 16) as *mut Cqe;
            std::ptr::write_volatile(slot, cqe);
            std::sync::atomic::fence(Ordering::SeqCst);
            w32(self.cq_ring, CQ_TAIL, tail.wrapping_add(1));
        }
    }

    pub fn flush_overflow(&mut self) {
        while !self.overflow.is_empty() && self.cq_count() < self.cq_entries {
            let (_, cqe) = self.overflow.pop_front().unwrap();
            self.write_cqe(cqe);
        }
    }

    /// Overwrite every CQ slot outside `[head, tail)` with junk: the kernel is
    /// free to reuse released slots at any time.
    pub fn scribble_free_slots(&mut self) {
        if !self.scribble {
            return;
        }
        let head = self.cq_head();
        let count = self.cq_count().min(self.cq_entries);
        for k in count..self.cq_entries {
            let idx = (head.wrapping_add(k) & (self.cq_entries - 1)) as usize;
            unsafe {
                let slot = self.cq_ring.add(CQ_CQES + idx * 16) as *mut Cqe;
                std::ptr::write_volatile(
                    slot,
                    Cqe {
                        user_data: 0,
                        res: 0x5c21bb1e_u32 as i32,
                        flags: 0,
                    },
                );
            }
        }
    }

    pub fn find_inflight(&self, t: &Target) -> Option<usize> {
        match t {
            Target::Seq(s) => self.inflight.iter().position(|i| i.seq == *s),
            Target::Nth(n) => {
                if *n < self.inflight.len() {
                    Some(*n)
                } else {
                    None
                }
            }
            Target::UserData(u) => self.inflight.iter().position(|i| i.sqe.user_data == *u),
        }
    }

    /// Post a completion for an in-flight submission (KC2, KC4, KC6).
    /// Returns false if the target is not in flight.
    pub fn post(&mut self, spec: &PostSpec, ev: &mut Vec<KEv>) -> bool {
        let Some(pos) = self.find_inflight(&spec.target) else {
            return false;
        };
        let seq = self.inflight[pos].seq;
        let sqe = self.inflight[pos].sqe;
        let is_final = spec.flags & CQE_F_MORE == 0;
        let mut flags = spec.flags;

        // Oracle C01: every region is still the same live block.
        let mut bad = false;
        for r in &self.inflight[pos].regions {
            if let Some(id) = r.block {
                if !track::region_in_block(r.addr, r.len.max(1), id) {
                    ev.push(KEv::BadMemory {
                        seq,
                        what: r.what,
                        addr: r.addr,
                    });
                    bad = true;
                }
            }
        }
        // Oracle C01/C06: the operation state a10 will dereference is live.
        if let Some(id) = self.inflight[pos].state_block {
            let addr = (sqe.user_data & !1) as usize;
            if !track::region_in_block(addr, 1, id) {
                ev.push(KEv::FreedState {
                    seq,
                    user_data: sqe.user_data,
                });
                bad = true;
            }
        }
        if bad {
            // Do not deliver: a10 would corrupt memory. Drop the submission.
            self.inflight.remove(pos);
            return true;
        }

        // Data transfer into user memory.
        if let Some(data) = &spec.data {
            if spec.select_buf || sqe.flags & IOSQE_BUFFER_SELECT != 0 {
                let bgid = sqe.buf_index;
                if let Some((bid, addr, len)) = self.select_buffer(bgid) {
                    let n = data.len().min(len as usize);
                    unsafe { std::ptr::copy_nonoverlapping(data.as_ptr(), addr as *mut u8, n) };
                    flags |= CQE_F_BUFFER | ((bid as u32) << CQE_BUFFER_SHIFT);
                } else {
                    // No buffer available.
                    let cqe = Cqe {
                        user_data: sqe.user_data,
                        res: -libc::ENOBUFS,
                        flags: spec.flags & !CQE_F_MORE,
                    };
                    self.inflight.remove(pos);
                    self.post_raw(Some(seq), cqe, ev);
                    return true;
                }
            } else {
                self.scatter(&sqe, data);
            }
        } else if spec.res > 0 {
            // For writes/sends: record the bytes the kernel accepted.
            if let Some(bytes) = self.gather(&sqe, spec.res as usize) {
                ev.push(KEv::Data { seq, bytes });
            }
        }

        self.write_out_params(&sqe, spec);

        self.inflight[pos].posted += 1;
        if is_final {
            self.inflight.remove(pos);
        }
        let cqe = Cqe {
            user_data: sqe.user_data,
            res: spec.res,
            flags,
        };
        self.post_raw(Some(seq), cqe, ev);
        true
    }

    /// KC4: take the next buffer published in the buffer ring.
    pub fn select_buffer(&mut self, bgid: u16) -> Option<(u16, u64, u32)> {
        let p = self.pbufs.get_mut(&bgid)?;
        // tail lives at offset 14 of the first entry.
        let tail = unsafe { (*((p.ring_addr + 14) as *const AtomicU16)).load(Ordering::SeqCst) };
        if tail == p.khead {
            return None;
        }
        let idx = (p.khead as u32 & (p.entries - 1)) as usize;
        let e = unsafe { *((p.ring_addr + idx * 16) as *const (u64, u32, u16, u16)) };
        p.khead = p.khead.wrapping_add(1);
        Some((e.2, e.0, e.1))
    }

    /// Buffer ids currently available to the kernel in group `bgid`, in order.
    pub fn available_buffers(&self, bgid: u16) -> Vec<(u16, u64, u32)> {
        let Some(p) = self.pbufs.get(&bgid) else {
            return Vec::new();
        };
        let tail = unsafe { (*((p.ring_addr + 14) as *const AtomicU16)).load(Ordering::SeqCst) };
        let mut out = Vec::new();
        let mut h = p.khead;
        while h != tail {
            let idx = (h as u32 & (p.entries - 1)) as usize;
            let e = unsafe { *((p.ring_addr + idx * 16) as *const (u64, u32, u16, u16)) };
            out.push((e.2, e.0, e.1));
            h = h.wrapping_add(1);
        }
        out
    }

    fn scatter(&self, sqe: &Sqe, data: &[u8]) {
        match sqe.opcode {
            OP_READ | OP_RECV => {
                let n = data.len().min(sqe.len as usize);
                unsafe { std::ptr::copy_nonoverlapping(data.as_ptr(), sqe.addr as *mut u8, n) };
            }
            OP_READV | OP_RECVMSG => {
                let (iov, n) = if sqe.opcode == OP_READV {
                    (sqe.addr, sqe.len as usize)
                } else {
                    let m = unsafe { *(sqe.addr as *const Msghdr) };
                    (m.iov, m.iovlen as usize)
                };
                let mut rest = data;
                for i in 0..n {
                    if rest.is_empty() {
                        break;
                    }
                    let v = unsafe { *(iov as *const Iovec).add(i) };
                    let k = rest.len().min(v.len as usize);
                    unsafe { std::ptr::copy_nonoverlapping(rest.as_ptr(), v.base as *mut u8, k) };
                    rest = &rest[k..];
                }
            }
            _ => {}
        }
    }

    /// What a successful completion writes into the out-parameters of the
    /// request besides the payload: peer / local address + length, `msg_namelen`
    /// and `msg_flags`, the statx buffer, `siginfo_t` of WAITID, the value of
    /// GETSOCKOPT, the two descriptors of PIPE, the slot allocated by
    /// FILES_UPDATE. (The regions were checked to be live just before.)
    fn write_out_params(&mut self, sqe: &Sqe, spec: &PostSpec) {
        if spec.res < 0 || !WRITE_OUT_PARAMS.load(Ordering::SeqCst) {
            return;
        }
        // 127.0.0.1:4660 as `sockaddr_in`
        let sin: [u8; 16] = {
            let mut b = [0u8; 16];
            b[0..2].copy_from_slice(&(libc::AF_INET as u16).to_ne_bytes());
            b[2..4].copy_from_slice(&4660u16.to_be_bytes());
            b[4..8].copy_from_slice(&[127, 0, 0, 1]);
            b
        };
        let put = |dst: u64, bytes: &[u8], cap: usize| {
            let n = bytes.len().min(cap);
            unsafe { std::ptr::copy_nonoverlapping(bytes.as_ptr(), dst as *mut u8, n) };
        };
        match sqe.opcode {
            OP_ACCEPT if sqe.addr != 0 && sqe.off != 0 => {
                let cap = unsafe { *(sqe.off as *const u32) } as usize;
                put(sqe.addr, &sin, cap);
                unsafe { *(sqe.off as *mut u32) = 16 };
            }
            OP_RECVMSG => {
                let m = unsafe { &mut *(sqe.addr as *mut Msghdr) };
                if m.name != 0 {
                    put(m.name, &sin, m.namelen as usize);
                    m.namelen = 16;
                }
            }
            OP_STATX if sqe.off != 0 => {
                let mut b = [0u8; 256];
                b[0..4].copy_from_slice(&(sqe.len & 0xfff).to_ne_bytes()); // stx_mask
                b[4..8].copy_from_slice(&4096u32.to_ne_bytes()); // stx_blksize
                b[16..20].copy_from_slice(&1u32.to_ne_bytes()); // stx_nlink
                b[28..30].copy_from_slice(&((libc::S_IFREG | 0o644) as u16).to_ne_bytes()); // stx_mode
                b[40..48].copy_from_slice(&1234u64.to_ne_bytes()); // stx_size
                b[48..56].copy_from_slice(&8u64.to_ne_bytes()); // stx_blocks
                for off in [64usize, 80, 96, 112] {
                    // stx_atime, stx_btime, stx_ctime, stx_mtime
                    b[off..off + 8].copy_from_slice(&1_700_000_000i64.to_ne_bytes());
                }
                put(sqe.off, &b, 256);
            }
            OP_WAITID if sqe.off != 0 => {
                let mut b = [0u8; 128];
                b[0..4].copy_from_slice(&libc::SIGCHLD.to_ne_bytes()); // si_signo
                b[8..12].copy_from_slice(&libc::CLD_EXITED.to_ne_bytes()); // si_code
                b[16..20].copy_from_slice(&sqe.fd.to_ne_bytes()); // si_pid
                b[24..28].copy_from_slice(&7i32.to_ne_bytes()); // si_status
                put(sqe.off, &b, 128);
            }
            OP_URING_CMD => match sqe.off as u32 {
                SOCKET_OP_GETSOCKOPT if sqe.addr3 != 0 => {
                    put(sqe.addr3, &1i32.to_ne_bytes(), sqe.file_index as usize);
                }
                SOCKET_OP_GETSOCKNAME if sqe.addr != 0 && sqe.addr3 != 0 => {
                    let cap = unsafe { *(sqe.addr3 as *const u32) } as usize;
                    put(sqe.addr, &sin, cap);
                    unsafe { *(sqe.addr3 as *mut u32) = 16 };
                }
                _ => {}
            },
            OP_PIPE if sqe.addr != 0 => {
                if let Some(d) = &spec.data {
                    put(sqe.addr, d, 8);
                }
            }
            OP_FILES_UPDATE if sqe.off as u32 == u32::MAX && sqe.addr != 0 => {
                // IORING_FILE_INDEX_ALLOC: the allocated slot is written back
                match &spec.data {
                    Some(d) => put(sqe.addr, d, 4 * sqe.len as usize),
                    None => put(sqe.addr, &0i32.to_ne_bytes(), 4 * sqe.len as usize),
                }
            }
            _ => {}
        }
    }

    fn gather(&self, sqe: &Sqe, n: usize) -> Option<Vec<u8>> {
        match sqe.opcode {
            OP_WRITE | OP_SEND | OP_SEND_ZC => {
                let n = n.min(sqe.len as usize);
                Some(unsafe { std::slice::from_raw_parts(sqe.addr as *const u8, n) }.to_vec())
            }
            OP_WRITEV | OP_SENDMSG | OP_SENDMSG_ZC => {
                let (iov, cnt) = if sqe.opcode == OP_WRITEV {
                    (sqe.addr, sqe.len as usize)
                } else {
                    let m = unsafe { *(sqe.addr as *const Msghdr) };
                    (m.iov, m.iovlen as usize)
                };
                let mut out = Vec::new();
                let mut left = n;
                for i in 0..cnt {
                    if left == 0 {
                        break;
                    }
                    let v = unsafe { *(iov as *const Iovec).add(i) };
                    let k = left.min(v.len as usize);
                    out.extend_from_slice(unsafe {
                        std::slice::from_raw_parts(v.base as *const u8, k)
                    });
                    left -= k;
                }
                Some(out)
            }
            _ => None,
        }
    }

    /// Hand out a fresh regular descriptor (KC8): a real fd.
    pub fn fresh_fd(&mut self) -> i32 {
        let path = c"/dev/null";
        let fd = unsafe {
            raw_syscall(
                libc::SYS_openat,
                libc::AT_FDCWD as i64,
                path.as_ptr() as i64,
                (libc::O_RDWR | libc::O_CLOEXEC) as i64,
                0,
                0,
                0,
            )
        };
        assert!(fd >= 0);
        self.issued_fds.push(fd as i32);
        fd as i32
    }

    /// Like `fresh_fd`, but the descriptor number is at least `min` (so numbers
    /// can be kept unique within a case even though closed numbers are reused).
    pub fn fresh_fd_min(&mut self, min: i32) -> i32 {
        let fd = self.fresh_fd();
        let dup = unsafe { raw_syscall(libc::SYS_fcntl, fd as i64, libc::F_DUPFD_CLOEXEC as i64, min as i64, 0, 0, 0) };
        assert!(dup >= 0);
        unsafe { raw_syscall(libc::SYS_close, fd as i64, 0, 0, 0, 0, 0) };
        self.issued_fds.retain(|f| *f != fd);
        self.issued_fds.push(dup as i32);
        dup as i32
    }

    /// Allocate a direct descriptor slot.
    pub fn fresh_direct(&mut self) -> Option<u32> {
        let files = self.files.as_mut()?;
        let idx = files.iter().position(|f| f.is_none())?;
        files[idx] = Some(1);
        Some(idx as u32)
    }
}

fn sim_enter(fd: i32, to_submit: u32, min_complete: u32, flags: u32, arg: usize) -> i64 {
    // Timeout from the extended argument.
    let timeout = if flags & ENTER_EXT_ARG != 0 && arg != 0 {
        let ts_ptr = unsafe { *((arg + 16) as *const u64) };
        if ts_ptr != 0 {
            let ts = unsafe { *(ts_ptr as *const (i64, i64)) };
            Some(ts)
        } else {
            None
        }
    } else {
        None
    };

    // Wake messages need two rings; collect them first.
    crate::sched::sys_point(crate::sched::SYS, 1);
    // (seq, target ring, off, len, own user_data, sqe flags)
    let mut wake_targets: Vec<(u64, i32, u64, u32, u64, u8)> = Vec::new();
    let mut must_block = false;
    let ret = with_sim(|sim| {
        let Sim { rings, events, .. } = sim;
        let ring = rings.get_mut(&fd).unwrap();
        ring.enters += 1;
        let script = ring.enter_scripts.pop_front().unwrap_or_default();
        let mut consumed = Vec::new();
        let mut blocked = false;
        let mut reported: Option<u32> = None;
        if ring.flags & SETUP_SQPOLL != 0 && ring.sqpoll_eager {
            // (also for a call that fails: what the caller left for the kernel thread)
            reported = Some(ring.sq_pending());
        }
        let ret: i64 = 'ret: {
            if ring.closed {
                break 'ret -(libc::EBADF as i64);
            }
            if let Some(e) = script.fail {
                break 'ret -(e as i64);
            }
            if !ring.enabled {
                break 'ret -(libc::EBADFD as i64);
            }
            // (as in Linux: only a call that submits — or waits, with DEFER_TASKRUN — is refused)
            if ring.enforce_single && ring.flags & SETUP_SINGLE_ISSUER != 0 && (to_submit > 0 || (ring.flags & SETUP_DEFER_TASKRUN != 0 && flags & ENTER_GETEVENTS != 0)) {
                let tid = unsafe { raw_syscall(libc::SYS_gettid, 0, 0, 0, 0, 0, 0) };
                match ring.submitter {
                    None => ring.submitter = Some(tid),
                    Some(t) if t != tid => break 'ret -(libc::EEXIST as i64),
                    Some(_) => {}
                }
            }
            ring.scribble_free_slots();
            let mut n = to_submit.min(ring.sq_pending());
            if ring.flags & SETUP_SQPOLL != 0 && ring.sqpoll_eager {
                if ring.sqpoll_asleep && flags & ENTER_SQ_WAKEUP == 0 {
                    n = 0;
                } else {
                    ring.sqpoll_asleep = false;
                    ring.set_sq_flags(0);
                    n = ring.sq_pending();
                }
                reported = Some(n);
            } else if ring.flags & SETUP_SQPOLL != 0 {
                n = 0;
                if flags & ENTER_SQ_WAIT != 0 && min_complete == u32::MAX && SQWAIT_RUNS_THREAD.load(Ordering::SeqCst) {
                    ring.sqpoll_asleep = false;
                    ring.set_sq_flags(0);
                    n = ring.sq_pending();
                } else if ring.sqpoll_asleep && flags & ENTER_SQ_WAKEUP != 0 {
                    // the woken kernel thread runs at once and takes everything published
                    ring.sqpoll_asleep = false;
                    ring.set_sq_flags(0);
                    n = ring.sq_pending();
                }
            }
            if let Some(m) = script.max_consume {
                n = n.min(m);
            }
            consumed = ring.consume(n, events);
            if ring.sqpoll_eager {
                ring.sqpoll_sleep();
            }
            // Wake messages are executed at once.
            let mut i = 0;
            while i < ring.inflight.len() {
                let inf = &ring.inflight[i];
                if inf.sqe.opcode == OP_MSG_RING && inf.sqe.user_data <= 3 {
                    wake_targets.push((inf.seq, inf.sqe.fd, inf.sqe.off, inf.sqe.len, inf.sqe.user_data, inf.sqe.flags));
                    ring.inflight.remove(i);
                } else {
                    i += 1;
                }
            }
            for spec in &script.post {
                ring.post(spec, events);
            }
            let mut wait: i64 = 0;
            if flags & ENTER_GETEVENTS != 0 {
                ring.flush_overflow();
                ring.run_deferred(events);
                let want = min_complete.min(ring.cq_entries);
                if ring.cq_count() < want && wake_targets.iter().all(|w| w.1 != fd) && ring.intr_next_wait {
                    ring.intr_next_wait = false;
                    wait = -(libc::EINTR as i64);
                } else if ring.cq_count() < want && wake_targets.iter().all(|w| w.1 != fd) {
                    wait = match (script.wait_errno, timeout) {
                        (Some(e), _) => -(e as i64),
                        (None, Some(_)) => -(libc::ETIME as i64),
                        (None, None) => {
                            if crate::sched::is_worker() {
                                // really block: parked by the scheduler below
                                must_block = true;
                                0
                            } else {
                                blocked = true;
                                -(libc::EINTR as i64)
                            }
                        }
                    };
                }
            }
            if !consumed.is_empty() {
                consumed.len() as i64
            } else {
                wait
            }
        };
        events.push(KEv::Enter {
            fd,
            to_submit: reported.unwrap_or(to_submit),
            min_complete,
            flags,
            timeout,
            ret,
            consumed,
            blocked,
        });
        ret
    });
    for (seq, tfd, ud, len, own_ud, sqe_flags) in wake_targets {
        let res = deliver_msg(seq, tfd, ud, len);
        // KC7 (probed on the real kernel, `a10h kc`): the MSG_RING submission itself completes on
        // the source ring — res 0, skipped with IOSQE_CQE_SKIP_SUCCESS — after the message was posted
        if res != 0 || sqe_flags & IOSQE_CQE_SKIP_SUCCESS == 0 {
            with_sim(|sim| {
                let Sim { rings, events, .. } = sim;
                if let Some(r) = rings.get_mut(&fd) {
                    if !r.closed {
                        r.post_raw(None, Cqe { user_data: own_ud, res, flags: 0 }, events);
                    }
                }
            });
        }
    }
    if must_block {
        // Blocked in the kernel until a completion is available.
        loop {
            let ready = with_sim(|sim| {
                let ring = sim.rings.get_mut(&fd).unwrap();
                ring.flush_overflow();
                ring.cq_count() >= min_complete.min(ring.cq_entries).max(1)
            });
            if ready {
                break;
            }
            crate::sched::sys_point(crate::sched::SYS_BLOCKED, 1);
        }
    }
    if ret < 0 { errno_ret(-ret as i32) } else { ret }
}

/// KC7: MSG_RING posts one CQE with `user_data = off`, `res = len` on the target.
fn deliver_msg(seq: u64, target_fd: i32, ud: u64, len: u32) -> i32 {
    with_sim(|sim| {
        let Sim { rings, events, .. } = sim;
        let res = match rings.get_mut(&target_fd) {
            Some(t) if !t.closed => {
                t.post_raw(
                    None,
                    Cqe {
                        user_data: ud,
                        res: len as i32,
                        flags: 0,
                    },
                    events,
                );
                0
            }
            _ => -libc::EBADFD,
        };
        events.push(KEv::MsgRing {
            seq,
            target_fd,
            ud,
            res,
        });
        res
    })
}

fn sim_register(fd: i32, op: u32, arg: usize, nr: u32) -> i64 {
    crate::sched::sys_point(crate::sched::SYS, 2);
    if fd == -1 {
        if op == REGISTER_SEND_MSG_RING {
            let sqe = unsafe { *(arg as *const Sqe) };
            deliver_msg(0, sqe.fd, sqe.off, sqe.len);
            with_sim(|s| {
                s.events.push(KEv::Register {
                    fd,
                    op,
                    nr,
                    ret: 0,
                    detail: format!("send_msg_ring target={} ud={}", sqe.fd, sqe.off),
                })
            });
            return 0;
        }
        return errno_ret(libc::EINVAL);
    }
    let ret = with_sim(|sim| {
        let Sim { rings, events, .. } = sim;
        let ring = rings.get_mut(&fd).unwrap();
        let mut detail = String::new();
        let ret: i64 = 'ret: {
            if ring.closed {
                break 'ret -(libc::EBADF as i64);
            }
            if let Some(e) = ring.register_fail.get(&op) {
                break 'ret -(*e as i64);
            }
            match op {
                REGISTER_ENABLE_RINGS => {
                    if ring.enabled {
                        break 'ret -(libc::EBADFD as i64);
                    }
                    ring.enabled = true;
                    if ring.flags & SETUP_SINGLE_ISSUER != 0 {
                        ring.submitter = Some(unsafe { raw_syscall(libc::SYS_gettid, 0, 0, 0, 0, 0, 0) });
                    }
                    0
                }
                REGISTER_FILES2 => {
                    // io_uring_rsrc_register { nr: u32, flags: u32, resv2: u64, data: u64, tags: u64 }
                    let n = unsafe { *(arg as *const u32) };
                    let fl = unsafe { *((arg + 4) as *const u32) };
                    detail = format!("files2 nr={n} flags={fl}");
                    if ring.files.is_some() {
                        break 'ret -(libc::EBUSY as i64);
                    }
                    ring.files = Some(vec![None; n as usize]);
                    0
                }
                REGISTER_FILES_UPDATE | REGISTER_FILES_UPDATE2 => {
                    // io_uring_files_update { offset: u32, resv: u32, fds: u64 }
                    let offset = unsafe { *(arg as *const u32) } as usize;
                    let fds = unsafe { *((arg + 8) as *const u64) } as *const i32;
                    let mut done = 0i64;
                    let Some(files) = ring.files.as_mut() else {
                        break 'ret -(libc::ENXIO as i64);
                    };
                    for i in 0..nr as usize {
                        let v = unsafe { *fds.add(i) };
                        let Some(slot) = files.get_mut(offset + i) else {
                            break 'ret -(libc::EINVAL as i64);
                        };
                        detail.push_str(&format!("slot{}:={} ", offset + i, v));
                        *slot = if v == -1 { None } else { Some(v) };
                        done += 1;
                    }
                    done
                }
                REGISTER_PBUF_RING => {
                    // io_uring_buf_reg { ring_addr: u64, ring_entries: u32, bgid: u16, flags: u16, resv }
                    let ring_addr = unsafe { *(arg as *const u64) } as usize;
                    let entries = unsafe { *((arg + 8) as *const u32) };
                    let bgid = unsafe { *((arg + 12) as *const u16) };
                    detail = format!("pbuf_ring bgid={bgid} entries={entries}");
                    if !entries.is_power_of_two() || entries > 32768 {
                        break 'ret -(libc::EINVAL as i64);
                    }
                    if ring.pbufs.contains_key(&bgid) {
                        break 'ret -(libc::EEXIST as i64);
                    }
                    ring.pbufs.insert(
                        bgid,
                        PbufRing {
                            ring_addr,
                            entries,
                            khead: 0,
                            block: track::block_of(ring_addr).map(|b| b.id),
                        },
                    );
                    0
                }
                UNREGISTER_PBUF_RING => {
                    let bgid = unsafe { *((arg + 12) as *const u16) };
                    detail = format!("unregister pbuf_ring bgid={bgid}");
                    if ring.pbufs.remove(&bgid).is_none() {
                        break 'ret -(libc::ENOENT as i64);
                    }
                    0
                }
                REGISTER_SYNC_CANCEL => {
                    // KC5: finalises every in-flight submission before returning.
                    let n = ring.inflight.len();
                    detail = format!("sync_cancel inflight={n}");
                    let seqs: Vec<u64> = ring.inflight.iter().map(|i| i.seq).collect();
                    for s in seqs {
                        ring.post(
                            &PostSpec::new(Target::Seq(s), -libc::ECANCELED, 0),
                            events,
                        );
                    }
                    if n == 0 { -(libc::ENOENT as i64) } else { 0 }
                }
                _ => -(libc::EINVAL as i64),
            }
        };
        events.push(KEv::Register {
            fd,
            op,
            nr,
            ret,
            detail,
        });
        ret
    });
    if ret < 0 { errno_ret(-ret as i32) } else { ret }
}
