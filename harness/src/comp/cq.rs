//! C05: completions consumed exactly once, in order, wrap-safe; internal ones ignored.
//!
//! A real `Ring` with a small completion queue whose counters start at an
//! arbitrary 32-bit value. A few real operations (single-shot `write`,
//! multishot `read` from a buffer pool) are started; the script then makes the
//! simulated kernel publish completions in batches — between `Ring::poll`
//! calls, inside the `io_uring_enter` call of a poll, and *while the poll loop
//! is running* — mixing operation completions (every `res` is a unique
//! sequence number) with bookkeeping entries (`user_data` 0-3) and
//! `IORING_CQE_F_SKIP` padding. The concurrent kernel scribbles over every
//! slot the published head allows at every `enter`, before every entry a10
//! dequeues and at every wake-up.
//!
//! Observation points (no hook in a10): a `log` logger receives a10's own
//! trace line "dequeued completion" (slot index + local head, emitted by
//! `Completions::poll` before each `process`) and its warn lines for
//! bookkeeping entries; wakers; the futures' results; the shared head/tail
//! words.

use std::collections::HashSet;
use std::future::Future;
use std::pin::Pin;
use std::sync::{Arc, Mutex};
use std::task::{Context, Poll, Wake, Waker};
use std::time::Duration;

use a10::io::ReadBufPool;
use a10::{AsyncFd, Ring, SubmissionQueue};

use crate::comp::{Case, CaseReport, Comp};
use crate::simk::{self, Cqe, KEv, PostSpec, Target, CQE_F_MORE, CQE_F_NOTIF, CQE_F_SKIP};
use crate::track;
use crate::util::{self, lockp, Rng};

pub struct CqComp;

const POOL_BUFS: u16 = 128;
const BUF_SIZE: u32 = 256;
const MAX_BUF_POSTS: u32 = 120;

/// `user_data` of padding entries that belong to no operation: the address of
/// a zeroed, leaked decoy block (never touched by a correct a10).
#[repr(align(64))]
#[allow(dead_code)]
struct Decoy([u8; 1024]);
fn junk_ud() -> u64 {
    static D: std::sync::OnceLock<usize> = std::sync::OnceLock::new();
    *D.get_or_init(|| Box::leak(Box::new(Decoy([0; 1024]))) as *mut Decoy as usize) as u64
}
const FAKE_SEQ: u64 = 1 << 40;

// --- hooks: logger + wakers ------------------------------------------------

/// One scripted completion, resolved against the case state.
#[derive(Clone, Debug)]
enum Planned {
    Miss,
    /// completion of an in-flight operation
    Op(PostSpec),
    /// raw entry (bookkeeping / padding): posted through a fake in-flight entry
    Raw(Cqe),
}

#[derive(Default)]
struct Hook {
    in_poll: bool,
    rfd: i32,
    /// (index, local head, content of that slot, published head word) per dequeued entry
    reads: Vec<(u64, u64, Option<Cqe>, u32)>,
    warns: Vec<String>,
    /// (waker id, published head word when it ran, entries dequeued so far)
    wakes: Vec<(u32, u32, usize)>,
    mid_at: usize,
    mid_plan: Option<Vec<Planned>>,
    mid_fired: bool,
    fake_n: u64,
    /// head word when the poll started, ring mask
    pre_head: u32,
    mask: u32,
    /// (user_data, res) of the entries the kernel has published / will publish, from the head on
    expect: Vec<(u64, i32)>,
    /// oracle failure detected while a10 was inside the poll loop
    violation: Option<(String, String)>,
}

static HOOK: Mutex<Option<Hook>> = Mutex::new(None);

fn with_hook<R>(f: impl FnOnce(&mut Hook) -> R) -> R {
    let mut g = lockp(&HOOK);
    f(g.get_or_insert_with(Hook::default))
}

fn fake_inflight(seq: u64, ud: u64) -> simk::Inflight {
    simk::Inflight {
        seq,
        sqe: simk::Sqe {
            opcode: simk::OP_NOP,
            flags: 0,
            ioprio: 0,
            fd: -1,
            off: 0,
            addr: 0,
            len: 0,
            op_flags: 0,
            user_data: ud,
            buf_index: 0,
            personality: 0,
            file_index: 0,
            addr3: 0,
            pad2: 0,
        },
        regions: Vec::new(),
        state_block: None,
        cancel_requested: false,
        posted: 0,
    }
}

/// The kernel posts the planned completions now.
fn post_now(r: &mut simk::SimRing, ev: &mut Vec<KEv>, plan: &[Planned], fake_n: &mut u64) {
    for p in plan {
        match p {
            Planned::Miss => {}
            Planned::Op(spec) => {
                r.post(spec, ev);
            }
            Planned::Raw(c) => {
                *fake_n += 1;
                let seq = FAKE_SEQ + *fake_n;
                r.inflight.push(fake_inflight(seq, c.user_data));
                r.post(&PostSpec::new(Target::Seq(seq), c.res, c.flags), ev);
            }
        }
    }
    r.inflight.retain(|x| x.seq < FAKE_SEQ);
}

/// What the shared memory holds in slot `index` right now (`None`: the slot is
/// outside `[head, tail)`, i.e. released to the kernel and scribbled).
fn slot_content(r: &simk::SimRing, index: u64) -> Option<Cqe> {
    let pending = r.cq_pending();
    let off = (index as u32).wrapping_sub(r.cq_head()) & (r.cq_entries - 1);
    pending.get(off as usize).copied()
}

struct CqLogger;
static LOGGER: CqLogger = CqLogger;

impl log::Log for CqLogger {
    fn enabled(&self, _: &log::Metadata<'_>) -> bool {
        true
    }
    fn log(&self, record: &log::Record<'_>) {
        with_hook(|h| {
            if !h.in_poll {
                return;
            }
            let msg = record.args().to_string();
            match msg.as_str() {
                "dequeued completion" => {
                    let kvs = record.key_values();
                    let get = |k: &str| kvs.get(log::kv::Key::from_str(k)).and_then(|v| v.to_u64());
                    let index = get("index").unwrap_or(u64::MAX);
                    let head = get("head").unwrap_or(u64::MAX);
                    let k = h.reads.len();
                    let plan = if k == h.mid_at { h.mid_plan.take() } else { None };
                    let mut fake_n = h.fake_n;
                    let (content, published) = simk::with_ring(h.rfd, |r, ev| {
                        // The kernel runs concurrently: it may reuse every slot
                        // the *published* head has released, and publish more.
                        r.scribble_free_slots();
                        if let Some(plan) = &plan {
                            post_now(r, ev, plan, &mut fake_n);
                        }
                        (slot_content(r, index), r.cq_head())
                    });
                    h.fake_n = fake_n;
                    if plan.is_some() {
                        h.mid_fired = true;
                    }
                    h.reads.push((index, head, content, published));
                    // The property's oracle, evaluated before a10 acts on the entry.
                    let want_head = h.pre_head.wrapping_add(k as u32);
                    let want_index = want_head & h.mask;
                    let bad = if head != want_head as u64 || index != want_index as u64 {
                        Some(("C05/slot-order", format!("dequeue #{k} of this poll used head {head} / slot {index}; the next unconsumed position is head {want_head} / slot {want_index}")))
                    } else if published.wrapping_sub(h.pre_head) as usize > k {
                        // (releasing entries 0..k-1 one by one would be allowed; entry #k and later not yet)
                        Some(("C05/head-early", format!("the head word was already {published} when entry #{k} (head {want_head}) was dequeued: slots were released before they were read")))
                    } else {
                        match (content, h.expect.get(k)) {
                            (Some(c), Some(p)) if c.user_data == p.0 && c.res == p.1 => None,
                            (Some(c), Some(p)) => Some(("C05/slot-order", format!("dequeue #{k} read (user_data {:#x}, res {}) but the completion published at that position is (user_data {:#x}, res {})", c.user_data, c.res, p.0, p.1))),
                            (None, _) => Some(("C05/unpublished-read", format!("dequeue #{k} read slot {index}, which is outside [head, tail): nothing is published there"))),
                            (Some(c), None) => Some(("C05/unpublished-read", format!("dequeue #{k} read (user_data {:#x}, res {}) beyond everything the kernel has published", c.user_data, c.res))),
                        }
                    };
                    if let Some((sig, what)) = bad {
                        if h.violation.is_none() {
                            h.violation = Some((sig.to_string(), what));
                        }
                        h.in_poll = false;
                        // Do not let a10 act on an entry it must not read.
                        panic!("cq oracle: stop");
                    }
                }
                "unexpected completion" => h.warns.push("none".into()),
                "unexpected cancelation completion" => h.warns.push("cancel".into()),
                "failed to close fd" => h.warns.push("close".into()),
                _ => {}
            }
        });
    }
    fn flush(&self) {}
}

struct CqWaker {
    id: u32,
}

impl Wake for CqWaker {
    fn wake(self: Arc<Self>) {
        self.wake_by_ref();
    }
    fn wake_by_ref(self: &Arc<Self>) {
        with_hook(|h| {
            let published = if h.in_poll {
                simk::with_ring(h.rfd, |r, _| {
                    r.scribble_free_slots();
                    r.cq_head()
                })
            } else {
                0
            };
            let k = h.reads.len();
            h.wakes.push((self.id, published, k));
        });
    }
}

fn waker(id: u32) -> Waker {
    Waker::from(Arc::new(CqWaker { id }))
}

// --- operations --------------------------------------------------------------

trait Pollable {
    /// `None` = Pending; otherwise the canonical result line and its value
    /// (`Some(v)`: ok `v` / err `-v`; `None`: end of stream).
    fn poll(&mut self, cx: &mut Context<'_>) -> Option<(String, Option<i64>)>;
}

fn err_num(e: &std::io::Error) -> i64 {
    match e.raw_os_error() {
        Some(n) => n as i64,
        // `fallback` turns EINVAL into an `Unsupported` error without errno.
        None if e.kind() == std::io::ErrorKind::Unsupported => libc::EINVAL as i64,
        None => 0,
    }
}

struct WriteOp<F>(Pin<Box<F>>);
impl<F: Future<Output = std::io::Result<usize>>> Pollable for WriteOp<F> {
    fn poll(&mut self, cx: &mut Context<'_>) -> Option<(String, Option<i64>)> {
        match self.0.as_mut().poll(cx) {
            Poll::Pending => None,
            Poll::Ready(Ok(n)) => Some((format!("ready ok {n}"), Some(n as i64))),
            Poll::Ready(Err(e)) => Some((format!("ready err {}", err_num(&e)), Some(-err_num(&e)))),
        }
    }
}

struct MRead(Pin<Box<a10::io::MultishotRead<'static>>>);
impl Pollable for MRead {
    fn poll(&mut self, cx: &mut Context<'_>) -> Option<(String, Option<i64>)> {
        match self.0.as_mut().poll_next(cx) {
            Poll::Pending => None,
            Poll::Ready(None) => Some(("ready none".into(), None)),
            // The buffer goes back to the pool at once.
            Poll::Ready(Some(Ok(buf))) => Some((format!("ready ok {}", buf.len()), Some(buf.len() as i64))),
            Poll::Ready(Some(Err(e))) => Some((format!("ready err {}", err_num(&e)), Some(-err_num(&e)))),
        }
    }
}

struct OpSlot {
    multi: bool,
    obj: Option<Box<dyn Pollable>>,
    ud: u64,
    // --- oracle ---
    /// values the caller has received so far (ok n = n, err e = -e)
    got: Vec<i64>,
    ended: bool,
    /// index into `pubs` from which this operation's current submission counts
    since: usize,
    woken: bool,
}

/// The scripted part of the case state that planning a batch changes.
#[derive(Clone)]
struct PlanState {
    inflight: HashSet<usize>,
    buf_posts: u32,
}

struct CqCase {
    ring: Option<Ring>,
    sq: Option<SubmissionQueue>,
    rfd: i32,
    fd: &'static AsyncFd,
    pool: Option<ReadBufPool>,
    cq_len: u32,
    head0: u32,
    ops: Vec<OpSlot>,
    ps: PlanState,
    // --- oracle ---
    /// every completion the kernel has posted, in order (ring or overflow list)
    pubs: Vec<Cqe>,
    /// how many of them a10 has consumed (head word - initial head)
    consumed: usize,
    oracle: Vec<(String, String, String)>,
    /// an oracle failure was detected: a10's state may be corrupt, stop calling it
    poisoned: bool,
    feats: Vec<String>,
    // --- generator ---
    steps_left: u32,
    next_seq: i32,
    last_multi_tail: Option<u64>,
}

fn parse_kv(t: &[&str], k: &str) -> Option<u32> {
    t.iter().find_map(|x| x.strip_prefix(&format!("{k}="))).and_then(|v| v.parse().ok())
}

#[derive(Clone, Debug)]
enum Tgt {
    Op(usize),
    Reserved(u64),
    SkipOp(usize),
    SkipJunk,
}

#[derive(Clone, Debug)]
struct Spec {
    tgt: Tgt,
    res: i32,
    flags: u32,
}

fn parse_specs(s: &str) -> Option<Vec<Spec>> {
    if s == "-" {
        return Some(Vec::new());
    }
    let mut v = Vec::new();
    for t in s.split(',') {
        let f: Vec<&str> = t.split(':').collect();
        if f.len() != 3 {
            return None;
        }
        let tgt = if f[0] == "j" {
            Tgt::SkipJunk
        } else {
            let (k, n) = f[0].split_at(f[0].char_indices().nth(1).map(|x| x.0).unwrap_or(f[0].len()));
            if n.is_empty() || !n.bytes().all(|b| b.is_ascii_digit()) {
                return None;
            }
            let n: u64 = n.parse().ok()?;
            match k {
                "o" => Tgt::Op(n as usize),
                "r" => Tgt::Reserved(n),
                "k" => Tgt::SkipOp(n as usize),
                _ => return None,
            }
        };
        let res: i32 = parse_int(f[1])?;
        let flags: u32 = parse_nat(f[2])?.try_into().ok()?;
        v.push(Spec { tgt, res, flags });
    }
    Some(v)
}

/// Decimal natural number, as the model's `String.toNat?` accepts it.
fn parse_nat(s: &str) -> Option<u64> {
    if s.is_empty() || !s.bytes().all(|b| b.is_ascii_digit()) {
        return None;
    }
    s.parse().ok()
}

fn parse_int(s: &str) -> Option<i32> {
    let (neg, d) = match s.strip_prefix('-') {
        Some(d) => (true, d),
        None => (false, s),
    };
    let n = parse_nat(d)? as i64;
    let n = if neg { -n } else { n };
    i32::try_from(n).ok()
}

fn list<T: std::fmt::Display>(v: &[T]) -> String {
    if v.is_empty() { "-".into() } else { v.iter().map(|x| x.to_string()).collect::<Vec<_>>().join(",") }
}

impl CqCase {
    fn new(header: &str) -> CqCase {
        let t: Vec<&str> = header.split(' ').collect();
        let sq_len = parse_kv(&t, "sq").unwrap_or(1).max(1);
        let cq_len = parse_kv(&t, "cq").unwrap_or(2).max(1);
        let cqh = parse_kv(&t, "cqh").unwrap_or(0);
        let sqh = parse_kv(&t, "sqh").unwrap_or(0);
        let _ = log::set_logger(&LOGGER);
        log::set_max_level(log::LevelFilter::Trace);
        simk::reset();
        simk::activate(simk::SetupCfg { sq_head0: sqh, cq_head0: cqh, ..Default::default() });
        let ring = Ring::config()
            .with_submission_queue_size(sq_len)
            .with_completion_queue_size(cq_len)
            .build()
            .expect("ring build");
        let sq = ring.sq();
        let rfd = simk::with_sim(|s| *s.rings.keys().next().unwrap());
        let raw = simk::with_ring(rfd, |r, _| r.fresh_fd());
        let fd: &'static AsyncFd = Box::leak(Box::new(unsafe { AsyncFd::from_raw_fd(raw, sq.clone()) }));
        let pool = ReadBufPool::new(sq.clone(), POOL_BUFS, BUF_SIZE).expect("pool");
        let cq_len = simk::with_ring(rfd, |r, _| r.cq_entries);
        simk::drain_events();
        track::drain_frees();
        with_hook(|h| {
            *h = Hook { rfd, ..Default::default() };
        });
        CqCase {
            ring: Some(ring),
            sq: Some(sq),
            rfd,
            fd,
            pool: Some(pool),
            cq_len,
            head0: cqh,
            ops: Vec::new(),
            ps: PlanState { inflight: HashSet::new(), buf_posts: 0 },
            pubs: Vec::new(),
            consumed: 0,
            oracle: Vec::new(),
            poisoned: false,
            feats: Vec::new(),
            steps_left: parse_kv(&t, "steps").unwrap_or(0),
            next_seq: 1,
            last_multi_tail: None,
        }
    }

    fn fail(&mut self, sig: &str, what: String) {
        self.oracle.push(("C05".into(), sig.into(), what));
        self.poisoned = true;
    }

    /// Resolve a batch against (a copy of) the scripted state.
    fn plan(&self, ps: &mut PlanState, specs: &[Spec]) -> Vec<Planned> {
        let mut out = Vec::new();
        for sp in specs {
            out.push(match &sp.tgt {
                Tgt::Op(i) => match self.ops.get(*i) {
                    None => Planned::Miss,
                    Some(o) => {
                        let wants_buf = o.multi && sp.res > 0;
                        if !ps.inflight.contains(i) || (o.multi && sp.res > 255) || (wants_buf && ps.buf_posts >= MAX_BUF_POSTS) {
                            Planned::Miss
                        } else {
                            if wants_buf {
                                ps.buf_posts += 1;
                            }
                            if sp.flags & CQE_F_MORE == 0 {
                                ps.inflight.remove(i);
                            }
                            let mut spec = PostSpec::new(Target::UserData(o.ud), sp.res, sp.flags);
                            if wants_buf {
                                spec.data = Some(vec![0xCD; sp.res as usize]);
                                spec.select_buf = true;
                            }
                            Planned::Op(spec)
                        }
                    }
                },
                Tgt::Reserved(n) if *n <= 3 => Planned::Raw(Cqe { user_data: *n, res: sp.res, flags: sp.flags }),
                Tgt::Reserved(_) => Planned::Miss,
                Tgt::SkipOp(i) => match self.ops.get(*i) {
                    None => Planned::Miss,
                    Some(o) => Planned::Raw(Cqe { user_data: o.ud, res: sp.res, flags: sp.flags | CQE_F_SKIP }),
                },
                Tgt::SkipJunk => Planned::Raw(Cqe { user_data: junk_ud(), res: sp.res, flags: sp.flags | CQE_F_SKIP }),
            });
        }
        out
    }

    /// Outcome per planned entry from the `Posted` events (in order), and the
    /// oracle's publication log.
    fn outcomes(&mut self, plan: &[Planned], posted: &mut std::vec::IntoIter<(Cqe, bool)>) -> Vec<String> {
        let mut outs = Vec::new();
        for p in plan {
            match p {
                Planned::Miss => outs.push("miss".to_string()),
                _ => match posted.next() {
                    Some((cqe, overflowed)) => {
                        self.pubs.push(cqe);
                        if overflowed {
                            self.feats.push("overflow".into());
                        }
                        outs.push(if overflowed { "overflow" } else { "posted" }.to_string());
                    }
                    None => outs.push("lost".to_string()),
                },
            }
        }
        outs
    }

    fn posted_events(evs: &[KEv]) -> std::vec::IntoIter<(Cqe, bool)> {
        evs.iter()
            .filter_map(|e| match e {
                KEv::Posted { cqe, overflowed, .. } => Some((*cqe, *overflowed)),
                _ => None,
            })
            .collect::<Vec<_>>()
            .into_iter()
    }

    /// Is entry `c` an operation completion (not bookkeeping, not padding)?
    fn op_of(&self, c: &Cqe) -> Option<usize> {
        if c.flags & CQE_F_SKIP != 0 || c.user_data <= 3 {
            return None;
        }
        self.ops.iter().position(|o| o.ud == c.user_data)
    }

    /// Oracle: the values operation `i` must have produced from the consumed
    /// prefix of the publication sequence, and whether its stream has ended.
    fn expected(&self, i: usize) -> (Vec<i64>, bool) {
        let o = &self.ops[i];
        let mut vals = Vec::new();
        let mut ended = false;
        let mut slot: i64 = 0;
        for c in self.pubs[..self.consumed.min(self.pubs.len())].iter().skip(o.since.min(self.consumed)) {
            if self.op_of(c) != Some(i) {
                continue;
            }
            let fin = c.flags & CQE_F_MORE == 0;
            if o.multi {
                let restart = fin && (c.res == -libc::EINTR || c.res == -libc::ECANCELED);
                if !restart {
                    vals.push(c.res as i64);
                }
                if fin {
                    ended = !restart;
                }
            } else {
                if c.flags & CQE_F_NOTIF == 0 {
                    slot = c.res as i64;
                }
                if fin && slot != -(libc::EINTR as i64) && slot != -(libc::ECANCELED as i64) {
                    vals.push(slot);
                    ended = true;
                }
            }
        }
        (vals, ended)
    }

    fn sync_consumed(&mut self) {
        let head = simk::with_ring(self.rfd, |r, _| r.cq_head());
        self.consumed = head.wrapping_sub(self.head0) as usize;
    }

    fn poll_op(&mut self, i: usize, w: u32) -> Vec<String> {
        let mut out = Vec::new();
        let old_tail = simk::with_ring(self.rfd, |r, _| r.sq_tail());
        let wk = waker(w);
        let mut cx = Context::from_waker(&wk);
        let mut obj = self.ops[i].obj.take().unwrap();
        let r = util::catch(|| obj.poll(&mut cx));
        self.ops[i].obj = Some(obj);
        let (exp, ended) = self.expected(i);
        let ngot = self.ops[i].got.len();
        match r {
            Err(_) => out.push("panic".into()),
            Ok(None) => {
                out.push("pending".into());
                self.ops[i].woken = false;
                if exp.len() > ngot {
                    self.fail("C05/lost-completion", format!("op{i} is Pending although the completion with result {} was processed by Ring::poll", exp[ngot]));
                } else if ended && self.ops[i].multi && !self.ops[i].ended {
                    self.fail("C05/lost-completion", format!("op{i} is Pending although its final completion was processed"));
                }
            }
            Ok(Some((line, val))) => {
                match val {
                    Some(v) => {
                        match exp.get(ngot) {
                            Some(e) if *e == v => {}
                            Some(e) => self.fail("C05/wrong-result", format!("op{i} received {v}; the next completion published for it carries {e} (out of order, duplicated or foreign)")),
                            None => self.fail("C05/wrong-result", format!("op{i} received {v} but no processed completion is outstanding for it (duplicated, unpublished or foreign)")),
                        }
                        self.ops[i].got.push(v);
                        if !self.ops[i].multi {
                            self.ops[i].ended = true;
                        }
                    }
                    None => {
                        if exp.len() > ngot || !ended {
                            self.fail("C05/lost-completion", format!("op{i} ended with {} published results undelivered", exp.len().saturating_sub(ngot)));
                        }
                        self.ops[i].ended = true;
                    }
                }
                out.push(line);
            }
        }
        // A (re)submission is consumed by the kernel at once.
        let new = simk::with_ring(self.rfd, |r, ev| {
            let tail = r.sq_tail();
            let mut uds = Vec::new();
            let mut t = old_tail;
            while t != tail {
                uds.push(r.sqe_at(t).user_data);
                t = t.wrapping_add(1);
            }
            let n = r.sq_pending();
            r.consume(n, ev);
            uds
        });
        if !new.is_empty() {
            out.push("sqe".into());
            // Freed operation states are quarantined: a second free is recorded, not fatal.
            track::watch((new[0] & !1) as usize);
            let o = &mut self.ops[i];
            o.ud = new[0];
            o.since = self.pubs.len();
            o.got.clear();
            o.ended = false;
            self.ps.inflight.insert(i);
        }
        simk::drain_events();
        out
    }
}

impl CqCase {
    /// `cq pwake`: a ring of its own; two reads complete in one batch, the first one's waker is an
    /// ordinary one, the second one's waker panics inside `Ring::poll`. The first read's result is
    /// taken and its future dropped (its state is released); the NEXT `Ring::poll` must not process
    /// the batch again (fix ecc12ae: the head is stored while unwinding as well).
    fn do_pwake(&mut self) -> Vec<String> {
        let pre = simk::drain_events();
        simk::purge_closed_except(self.rfd);
        let held_main = simk::hold_fd(self.rfd);
        let before: Vec<i32> = simk::with_sim(|s| s.rings.keys().copied().collect());
        let built = Ring::config().with_submission_queue_size(4).build();
        if held_main {
            simk::release_fd(self.rfd);
        }
        let mut ring_b = match built {
            Ok(r) => r,
            Err(e) => return vec![format!("pwake setup-failed {e}")],
        };
        let Some(rfd_b) = simk::with_sim(|s| s.rings.keys().copied().find(|k| !before.contains(k))) else {
            return vec!["pwake no-new-ring".into()];
        };
        let sq_b = ring_b.sq();
        let raw = simk::with_ring(rfd_b, |r, _| r.fresh_fd());
        let fd: &'static AsyncFd = Box::leak(Box::new(unsafe { AsyncFd::from_raw_fd(raw, sq_b.clone()) }));
        drop(sq_b);
        // keep released blocks intact for the duration of the scenario: a second processing of a
        // completion then finds the old state (and panics in a10) instead of hanging on garbage
        track::quarantine_all(true);
        let wa = util::waker(991);
        let wp = util::panicking_waker();
        let noop = Waker::noop();
        let mut fa = Box::pin(fd.read(Vec::with_capacity(16)));
        let mut fb = Box::pin(fd.read(Vec::with_capacity(16)));
        let _ = fa.as_mut().poll(&mut Context::from_waker(&wa));
        let _ = fb.as_mut().poll(&mut Context::from_waker(&wp));
        let _ = util::catch(|| ring_b.poll(Some(Duration::ZERO)));
        util::drain_wakes();
        simk::with_ring(rfd_b, |r, ev| {
            r.post(&PostSpec::new(Target::Nth(0), 4, 0), ev);
            r.post(&PostSpec::new(Target::Nth(0), 4, 0), ev);
        });
        let first = match util::catch(|| ring_b.poll(Some(Duration::ZERO))) {
            Err(_) => "panic",
            Ok(Ok(())) => "ok",
            Ok(Err(_)) => "err",
        };
        let woken_a = util::drain_wakes().iter().filter(|w| **w == 991).count();
        let a = match fa.as_mut().poll(&mut Context::from_waker(noop)) {
            Poll::Ready(Ok(_)) => "ready",
            Poll::Ready(Err(_)) => "error",
            Poll::Pending => "pending",
        };
        drop(fa);
        let second = match util::catch(|| ring_b.poll(Some(Duration::ZERO))) {
            Err(_) => "panic",
            Ok(Ok(())) => "ok",
            Ok(Err(_)) => "err",
        };
        let again = util::drain_wakes().iter().filter(|w| **w == 991).count();
        let b = match util::catch(|| fb.as_mut().poll(&mut Context::from_waker(noop))) {
            Ok(Poll::Ready(Ok(_))) => "ready",
            Ok(Poll::Ready(Err(_))) => "error",
            Ok(Poll::Pending) => "pending",
            Err(_) => "panic",
        };
        if second != "ok" || again != 0 || b != "ready" {
            self.oracle.push(("C05".into(), "C05/reprocessed-after-panic".into(), format!("after a waker panicked inside Ring::poll (first poll: {first}, first read woken {woken_a}x and {a}), the next Ring::poll processed the batch again: it ended with {second}, woke the first read's waker {again} more time(s), the second read is {b}")));
        }
        let _ = util::catch(move || drop(fb));
        let _ = util::catch(move || drop(ring_b));
        unsafe { drop(Box::from_raw(std::ptr::from_ref(fd).cast_mut())) };
        if unsafe { simk::raw_syscall(libc::SYS_fcntl, raw as i64, libc::F_GETFD as i64, 0, 0, 0, 0) } >= 0 {
            unsafe { simk::raw_syscall(libc::SYS_close, raw as i64, 0, 0, 0, 0, 0) };
        }
        let _ = simk::drain_events();
        simk::with_sim(|sim| {
            let mut keep = pre;
            keep.append(&mut sim.events);
            sim.events = keep;
        });
        simk::purge_closed_except(self.rfd);
        util::drain_wakes();
        track::quarantine_all(false);
        track::release_quarantine();
        vec![format!("pwake first={first} a={a}/{woken_a} second={second}/{again} b={b}")]
    }

}

impl Case for CqCase {
    fn next_op(&mut self, rng: &mut Rng) -> Option<String> {
        if self.steps_left == 0 || self.next_seq > 240 || self.poisoned {
            return None;
        }
        self.steps_left -= 1;
        if self.ops.is_empty() || (self.ops.len() < 2 && rng.chance(1, 2)) {
            let kind = if rng.chance(1, 2) { "mread" } else { "write" };
            return Some(format!("cq new {} {kind}", self.ops.len()));
        }
        let live: Vec<usize> = (0..self.ops.len()).filter(|i| !self.ops[*i].ended).collect();
        let woken: Vec<usize> = live.iter().copied().filter(|i| self.ops[*i].woken).collect();
        let w_new = if self.ops.len() < 5 { 2 } else { 0 };
        let w_kpost = 6;
        let w_rpoll = 8;
        let w_poll = if live.is_empty() { 0 } else if woken.is_empty() { 2 } else { 8 };
        let w_bad = if rng.chance(1, 20) { 1 } else { 0 };
        if rng.chance(1, 60) {
            return Some("cq pwake".into());
        }
        match rng.weighted(&[w_new, w_kpost, w_rpoll, w_poll, w_bad]) {
            0 => {
                let kind = if rng.chance(1, 2) { "mread" } else { "write" };
                Some(format!("cq new {} {kind}", self.ops.len()))
            }
            1 => {
                let n = if rng.chance(1, 5) { rng.range(1, self.cq_len as u64 + 2) } else { rng.range(1, 4) };
                let specs = self.gen_specs(rng, n as usize);
                Some(format!("cq kpost {specs}"))
            }
            2 => {
                let es = if rng.chance(1, 2) { let n = rng.range(1, 3) as usize; self.gen_specs(rng, n) } else { "-".into() };
                let (mid, ms) = if rng.chance(1, 3) {
                    let n = rng.range(1, 2) as usize;
                    (rng.below(3), self.gen_specs(rng, n))
                } else {
                    (9, "-".to_string())
                };
                let fail = if rng.chance(1, 14) { *rng.pick(&[62u32, 4, 9, 16, 12, 11]) } else { 0 };
                Some(format!("cq rpoll {es} {mid} {ms} {fail}"))
            }
            3 => {
                let i = if !woken.is_empty() && rng.chance(4, 5) { *rng.pick(&woken) } else { *rng.pick(&live) };
                let w = if rng.chance(3, 4) { i as u64 } else { i as u64 + 100 };
                Some(format!("cq poll {i} {w}"))
            }
            _ => Some(
                match rng.below(7) {
                    0 => "cq poll 99 1".to_string(),
                    1 => "cq kpost o9:1:0,x1:2:3".to_string(),
                    2 => "cq rpoll - - - 0".to_string(),
                    3 => format!("cq new {} pipe", self.ops.len()),
                    4 => "cq kpost r7:1:0,o99:5:0".to_string(),
                    5 => "cq kpost o0:1".to_string(),
                    _ => "cq frob".to_string(),
                },
            ),
        }
    }

    fn exec(&mut self, op: &str) -> Vec<String> {
        let t: Vec<&str> = op.split(' ').collect();
        let mut out = Vec::new();
        if self.poisoned {
            return vec!["unsafe-state".into()];
        }
        // Watchdog: a hang inside a10 (e.g. on the mutex of a freed state) ends the process.
        unsafe { libc::alarm(60) };
        match t.as_slice() {
            ["cq", "new", i, kind] => {
                let Some(i) = parse_nat(i) else { return vec!["bad-op".into()] };
                let i = i as usize;
                if i != self.ops.len() || !(*kind == "write" || *kind == "mread") {
                    return vec!["bad-op".into()];
                }
                let fd = self.fd;
                let obj: Box<dyn Pollable> = if *kind == "write" {
                    Box::new(WriteOp(Box::pin(fd.write(vec![0x5Au8; 64]))))
                } else {
                    Box::new(MRead(Box::pin(fd.multishot_read(self.pool.as_ref().unwrap().clone()))))
                };
                self.ops.push(OpSlot {
                    multi: *kind == "mread",
                    obj: Some(obj),
                    ud: 0,
                    got: Vec::new(),
                    ended: false,
                    since: self.pubs.len(),
                    woken: false,
                });
                let lines = self.poll_op(i, i as u32);
                if lines == ["pending", "sqe"] {
                    out.push("ok".into());
                } else {
                    out.push(format!("new-failed {}", lines.join("/")));
                }
            }
            ["cq", "poll", i, w] => {
                let (Some(i), Some(w)) = (parse_nat(i), parse_nat(w)) else { return vec!["bad-op".into()] };
                let i = i as usize;
                if i >= self.ops.len() || w > u32::MAX as u64 {
                    return vec!["bad-op".into()];
                }
                out = self.poll_op(i, w as u32);
            }
            ["cq", "kpost", specs] => {
                let Some(specs) = parse_specs(specs) else { return vec!["bad-op".into()] };
                let mut ps = self.ps.clone();
                let plan = self.plan(&mut ps, &specs);
                self.ps = ps;
                let mut fake_n = with_hook(|h| h.fake_n);
                simk::with_ring(self.rfd, |r, ev| post_now(r, ev, &plan, &mut fake_n));
                with_hook(|h| h.fake_n = fake_n);
                let evs = simk::drain_events();
                let mut posted = Self::posted_events(&evs);
                let outs = self.outcomes(&plan, &mut posted);
                out.push(list(&outs));
            }
            ["cq", "pwake"] => {
                out = self.do_pwake();
            }
            ["cq", "rpoll", es, mid, ms, fail] => {
                let (Some(es), Some(mid), Some(ms), Some(fail)) = (parse_specs(es), parse_nat(mid), parse_specs(ms), parse_nat(fail)) else {
                    return vec!["bad-op".into()];
                };
                if self.ring.is_none() || fail > 4095 {
                    return vec!["bad-op".into()];
                }
                out = self.rpoll(&es, mid as usize, &ms, fail as i32);
            }
            _ => out.push("bad-op".into()),
        }
        unsafe { libc::alarm(0) };
        self.check_double_frees();
        out
    }

    fn drain_oracle(&mut self) -> Vec<(String, String, String)> {
        std::mem::take(&mut self.oracle)
    }

    fn finish(&mut self) -> CaseReport {
        unsafe { libc::alarm(120) };
        let rep = self.finish_inner();
        unsafe { libc::alarm(0) };
        rep
    }
}

impl CqCase {
    fn check_double_frees(&mut self) {
        for b in track::drain_double_frees() {
            let who = self.ops.iter().position(|o| (o.ud & !1) as usize == b.base);
            self.fail("C05/duplicate-final", format!("the state of op{} was freed twice: its final completion was dispatched more than once", who.map(|i| i.to_string()).unwrap_or("?".into())));
        }
    }

    fn finish_inner(&mut self) -> CaseReport {
        // Drain: everything the kernel has posted must be processed and reach
        // its operation, exactly once.
        let quiet = !self.poisoned;
        if quiet {
            for _ in 0..(self.pubs.len() + 4) {
                let (pending, over) = simk::with_ring(self.rfd, |r, _| (r.cq_count(), r.overflow.len()));
                if pending == 0 && over == 0 {
                    break;
                }
                let mut ring = self.ring.take().unwrap();
                let _ = util::catch(|| ring.poll(Some(Duration::ZERO)));
                self.ring = Some(ring);
                simk::with_ring(self.rfd, |r, _| r.enter_scripts.clear());
            }
            self.sync_consumed();
            if self.consumed != self.pubs.len() {
                self.fail("C05/unprocessed", format!("{} completions were published, Ring::poll consumed {}", self.pubs.len(), self.consumed));
            }
            for i in 0..self.ops.len() {
                for _ in 0..300 {
                    if self.ops[i].ended {
                        break;
                    }
                    let lines = self.poll_op(i, 1000 + i as u32);
                    if lines.first().map(|s| s.as_str()) == Some("pending") || lines.first().map(|s| s.as_str()) == Some("panic") || lines.contains(&"sqe".to_string()) {
                        break;
                    }
                }
            }
        }
        if self.poisoned {
            // a10's state may be corrupt: leak everything rather than run a10 code on it.
            for o in self.ops.iter_mut() {
                std::mem::forget(o.obj.take());
            }
            std::mem::forget(self.ring.take());
            std::mem::forget(self.pool.take());
            std::mem::forget(self.sq.take());
            with_hook(|h| *h = Hook::default());
            simk::drain_events();
            track::drain_frees();
            track::drain_double_frees();
            simk::deactivate();
            simk::with_sim(|s| {
                let fds: Vec<i32> = s.rings.keys().copied().collect();
                for fd in fds {
                    std::mem::forget(s.rings.remove(&fd));
                }
            });
            let features = std::mem::take(&mut self.feats);
            return CaseReport { oracle: std::mem::take(&mut self.oracle), features, nontrivial: true };
        }
        // Clean up: drop every future, the ring, the pool and the descriptor.
        for o in self.ops.iter_mut() {
            if let Some(obj) = o.obj.take() {
                let _ = util::catch(move || drop(obj));
            }
        }
        if let Some(ring) = self.ring.take() {
            let _ = util::catch(move || drop(ring));
        }
        drop(self.pool.take());
        let raw = self.fd.as_fd().map(|f| std::os::fd::AsRawFd::as_raw_fd(&f));
        if let Some(raw) = raw {
            unsafe { libc::close(raw) };
        }
        unsafe { drop(Box::from_raw(std::ptr::from_ref(self.fd).cast_mut())) };
        drop(self.sq.take());
        with_hook(|h| *h = Hook::default());
        simk::drain_events();
        track::drain_frees();
        self.check_double_frees();
        simk::reset();
        track::release_quarantine();
        let mut features = std::mem::take(&mut self.feats);
        features.sort();
        features.dedup();
        let nontrivial = features.iter().any(|f| matches!(f.as_str(), "wrap" | "bookkeeping-adjacent" | "multishot-split" | "mid-post" | "enter-batch"));
        CaseReport { oracle: std::mem::take(&mut self.oracle), features, nontrivial }
    }
}

impl CqCase {
    fn rpoll(&mut self, es: &[Spec], mid: usize, ms: &[Spec], fail: i32) -> Vec<String> {
        let mut out = Vec::new();
        let (pre_head, pre_tail) = simk::with_ring(self.rfd, |r, _| (r.cq_head(), r.cq_tail()));
        let will_enter = pre_head == pre_tail;
        // The kernel's side of `enter`.
        let mut ps1 = self.ps.clone();
        let enter_plan = if will_enter && fail == 0 { self.plan(&mut ps1, es) } else { Vec::new() };
        let mut fake_n = with_hook(|h| h.fake_n);
        simk::with_ring(self.rfd, |r, _| {
            r.enter_scripts.clear();
            if will_enter && fail != 0 {
                r.enter_scripts.push_back(simk::EnterScript { fail: Some(fail), ..Default::default() });
            } else if will_enter {
                let mut post = Vec::new();
                for p in &enter_plan {
                    match p {
                        Planned::Miss => {}
                        Planned::Op(spec) => post.push(spec.clone()),
                        Planned::Raw(c) => {
                            fake_n += 1;
                            let seq = FAKE_SEQ + fake_n;
                            r.inflight.push(fake_inflight(seq, c.user_data));
                            post.push(PostSpec::new(Target::Seq(seq), c.res, c.flags));
                        }
                    }
                }
                r.enter_scripts.push_back(simk::EnterScript { post, ..Default::default() });
            }
        });
        // The concurrent kernel at the `mid`-th dequeue.
        let mut ps2 = ps1.clone();
        let mid_plan = self.plan(&mut ps2, ms);
        let mut expect: Vec<(u64, i32)> = self.pubs.iter().skip(self.consumed).map(|c| (c.user_data, c.res)).collect();
        for p in enter_plan.iter().chain(mid_plan.iter()) {
            match p {
                Planned::Miss => {}
                Planned::Op(spec) => {
                    if let Target::UserData(ud) = spec.target {
                        expect.push((ud, spec.res));
                    }
                }
                Planned::Raw(c) => expect.push((c.user_data, c.res)),
            }
        }
        let mask = self.cq_len - 1;
        with_hook(|h| {
            h.pre_head = pre_head;
            h.mask = mask;
            h.expect = expect;
            h.violation = None;
            h.fake_n = fake_n;
            h.in_poll = true;
            h.reads.clear();
            h.warns.clear();
            h.wakes.clear();
            h.mid_at = mid;
            h.mid_plan = Some(mid_plan.clone());
            h.mid_fired = false;
        });
        simk::drain_events();
        let mut ring = self.ring.take().unwrap();
        let r = util::catch(|| ring.poll(Some(Duration::ZERO)));
        self.ring = Some(ring);
        let (reads, warns, wakes, mid_fired, violation) = with_hook(|h| {
            h.in_poll = false;
            h.mid_plan = None;
            (std::mem::take(&mut h.reads), std::mem::take(&mut h.warns), std::mem::take(&mut h.wakes), h.mid_fired, h.violation.take())
        });
        if let Some((sig, what)) = violation {
            self.fail(&sig, what);
        } else if let Err(msg) = &r {
            self.fail("C05/poll-panicked", format!("Ring::poll panicked while processing published completions: {msg}"));
        }
        simk::with_ring(self.rfd, |r, _| {
            r.enter_scripts.clear();
            r.inflight.retain(|x| x.seq < FAKE_SEQ);
        });
        let evs = simk::drain_events();
        let entered = evs.iter().any(|e| matches!(e, KEv::Enter { .. }));
        let mut posted = Self::posted_events(&evs);
        // enter phase
        let enter_outs = if entered && will_enter && fail == 0 {
            self.ps = ps1;
            let o = self.outcomes(&enter_plan, &mut posted);
            if !enter_plan.is_empty() {
                self.feats.push("enter-batch".into());
            }
            o
        } else {
            Vec::new()
        };
        out.push(if entered { format!("enter {}", list(&enter_outs)) } else { "noenter".into() });
        match &r {
            Err(_) => out.push("panic".into()),
            Ok(Err(e)) => {
                out.push(format!("error {}", err_num(e)));
                self.feats.push("enter-error".into());
            }
            Ok(Ok(())) => {}
        }
        if entered && fail != 0 && matches!(r, Ok(Ok(()))) {
            self.feats.push("enter-soft-error".into());
        }
        out.push(format!("reads {}", list(&reads.iter().map(|x| format!("{}@{}", x.0, x.1)).collect::<Vec<_>>())));
        // mid phase
        let mid_outs = if mid_fired {
            self.ps = ps2;
            self.feats.push("mid-post".into());
            let o = self.outcomes(&mid_plan, &mut posted);
            list(&o)
        } else {
            "-".to_string()
        };
        out.push(format!("mid {mid_outs}"));
        out.push(format!("warns {}", list(&warns)));
        out.push(format!("wakes {}", list(&wakes.iter().map(|w| w.0).collect::<Vec<_>>())));
        let (head, tail) = simk::with_ring(self.rfd, |r, _| (r.cq_head(), r.cq_tail()));
        out.push(format!("head={head} tail={tail}"));
        for w in &wakes {
            if let Some(o) = self.ops.get_mut(w.0 as usize % 100) {
                o.woken = true;
            }
        }

        // ---- the property's own oracle ----
        let before = self.consumed;
        for (id, published, k) in &wakes {
            // the entry being processed (#k-1) and everything after it must not be released yet
            let allowed = k.saturating_sub(1);
            if published.wrapping_sub(pre_head) as usize > allowed {
                self.fail("C05/head-early", format!("the head word was already {published} when waker {id} ran inside the poll loop that started at head {pre_head}"));
            }
        }
        self.sync_consumed();
        let n = head.wrapping_sub(pre_head) as usize;
        // tail at the moment the loop started = final tail minus what was published during the loop
        let during = if mid_fired { posted_direct(&evs, &mid_plan) } else { 0 };
        let loop_tail = tail.wrapping_sub(during);
        if self.poisoned {
            // already reported from inside the loop
        } else if matches!(r, Ok(Ok(()))) {
            if head != loop_tail {
                self.fail("C05/head-value", format!("after the poll the head word is {head}; the tail it had to consume up to is {loop_tail} (started at {pre_head})"));
            }
            if !reads.is_empty() && reads.len() != n {
                self.fail("C05/head-value", format!("{} entries were dequeued but the head moved by {n}", reads.len()));
            }
        } else if head != pre_head && matches!(r, Ok(Err(_))) {
            self.fail("C05/head-value", format!("poll returned an error but moved the head from {pre_head} to {head}"));
        }
        // features
        if head < pre_head {
            self.feats.push("wrap".into());
        }
        if n as u32 == self.cq_len && n > 0 {
            self.feats.push("full-batch".into());
        }
        let batch: Vec<Cqe> = self.pubs.iter().skip(before).take(n).copied().collect();
        for w in batch.windows(2) {
            let (a, b) = (self.op_of(&w[0]).is_some(), self.op_of(&w[1]).is_some());
            if a != b {
                self.feats.push("bookkeeping-adjacent".into());
            }
        }
        if let (Some(first), Some(prev)) = (batch.first(), self.last_multi_tail) {
            if first.user_data == prev && first.user_data & 1 == 1 && self.op_of(first).is_some() {
                self.feats.push("multishot-split".into());
            }
        }
        if let Some(last) = batch.last() {
            self.last_multi_tail = if self.op_of(last).is_some() && last.user_data & 1 == 1 && last.flags & CQE_F_MORE != 0 { Some(last.user_data) } else { None };
        }
        for c in &batch {
            if c.flags & CQE_F_SKIP != 0 {
                self.feats.push("skip-entry".into());
            } else if c.user_data <= 3 {
                self.feats.push(format!("reserved-{}", c.user_data));
            }
        }
        out
    }

    fn gen_specs(&mut self, rng: &mut Rng, n: usize) -> String {
        let mut v = Vec::new();
        let mut infl: Vec<usize> = self.ps.inflight.iter().copied().collect();
        infl.sort();
        for _ in 0..n {
            let seq = self.next_seq;
            self.next_seq += 1;
            let w_op = if infl.is_empty() { 0 } else { 10 };
            match rng.weighted(&[w_op, 4, 1, 1]) {
                0 => {
                    let i = *rng.pick(&infl);
                    let multi = self.ops[i].multi;
                    let restart = rng.chance(1, 30);
                    let res = if restart { *rng.pick(&[-libc::EINTR, -libc::ECANCELED]) } else if rng.chance(1, 6) { -(200 + seq) } else { seq };
                    let flags = if restart {
                        0
                    } else if multi {
                        if rng.chance(1, 7) { 0 } else { 2 }
                    } else if rng.chance(1, 8) {
                        2
                    } else if rng.chance(1, 12) {
                        10 // zero-copy style: a NOTIF with MORE before the final one
                    } else {
                        0
                    };
                    if flags & 2 == 0 {
                        infl.retain(|x| *x != i);
                    }
                    v.push(format!("o{i}:{res}:{flags}"));
                }
                1 => {
                    let ud = rng.below(4);
                    let res = if ud == 2 { *rng.pick(&[-2, -114, 0, -seq, -125]) } else { *rng.pick(&[0, seq, -seq]) };
                    let flags = *rng.pick(&[0u32, 0, 0, 2, 8, 32, 65537]);
                    v.push(format!("r{ud}:{res}:{flags}"));
                }
                2 => {
                    let i = rng.below(self.ops.len() as u64);
                    v.push(format!("k{i}:{seq}:{}", rng.pick(&[0u32, 2, 32])));
                }
                _ => v.push(format!("j:{seq}:{}", rng.pick(&[0u32, 2]))),
            }
        }
        if v.is_empty() { "-".into() } else { v.join(",") }
    }
}

/// How many of the planned entries went straight into the ring (not the
/// overflow list), counting from the end of the `Posted` events.
fn posted_direct(evs: &[KEv], plan: &[Planned]) -> u32 {
    let n = plan.iter().filter(|p| !matches!(p, Planned::Miss)).count();
    let posted: Vec<bool> = evs
        .iter()
        .filter_map(|e| match e {
            KEv::Posted { overflowed, .. } => Some(*overflowed),
            _ => None,
        })
        .collect();
    posted.iter().rev().take(n).filter(|o| !**o).count() as u32
}

impl Comp for CqComp {
    fn name(&self) -> &'static str {
        "cq"
    }
    fn rule(&self) -> String {
        "each case = a real Ring with cq ∈ {1,2,4,8,16} entries whose 32-bit counters start at 2^32-k (wrap inside the script), 0, 2^31-k or a random value; ≤ 5 real operations (single-shot write, multishot pool read); a random script of ≤ 45 ops: kpost (kernel publishes a batch of 1..cq+2 entries between polls), rpoll (Ring::poll; if it enters the kernel a batch is published during the call, optionally failing with ETIME/EINTR/other errno; optionally a batch is published concurrently while the poll loop is at its mid-th entry), poll (future/stream of one operation), new, plus a malformed stream; entries are operation completions (unique res as sequence number, F_MORE, NOTIF), bookkeeping user_data 0-3 with any res/flags, F_SKIP padding carrying a live operation's user_data or junk; the kernel scribbles every released slot at each enter, dequeue and wake-up. non-trivial = the counters wrap inside the case, a bookkeeping/padding entry is processed adjacent to an operation entry, a multishot burst is split across polls, entries published during enter are processed, or entries are published concurrently with the poll loop; distinct = distinct op scripts".into()
    }
    fn gen_header(&mut self, rng: &mut Rng, id: u64, _tier: &str) -> String {
        let cq = *rng.pick(&[1u32, 2, 2, 4, 4, 8, 16]);
        let sq = if cq >= 2 && rng.chance(1, 2) { 2 } else { 1 };
        let ctr = |rng: &mut Rng, span: u64| -> u32 {
            match rng.below(8) {
                0 => 0,
                1 => (1u32 << 31) - rng.below(span) as u32,
                2 => rng.next() as u32,
                _ => u32::MAX - rng.below(span) as u32,
            }
        };
        let cqh = ctr(rng, 3 * cq as u64 + 2);
        let sqh = ctr(rng, 4);
        format!("cq begin {id} sq={sq} cq={cq} sqh={sqh} cqh={cqh} steps={}", rng.range(8, 45))
    }
    fn begin(&mut self, header: &str) -> Box<dyn Case> {
        Box::new(CqCase::new(header))
    }
}
