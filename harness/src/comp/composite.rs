//! C10: all-or-error composite I/O is exact under arbitrary short transfers.
//!
//! Drives the eight real futures (`write_all`, `write_all_vectored`,
//! `send_all`, `send_all_vectored`, `read_n`, `read_n_vectored`, `recv_n`,
//! `recv_n_vectored`, with `.at()/.from()`, `.flags()`, `.zc()`, `.extract()`)
//! against the simulated kernel. Every request the kernel receives is answered
//! with the next count of the op's transfer script (never more than was
//! offered); the request (opcode, offset, flags, iovecs as offsets inside the
//! caller's buffers) and the final result are printed for the diff with the
//! Lean model (`Model/Composite.lean`).
//!
//! Oracle (independent of the model): the bytes the kernel accepted are, in
//! order, exactly the input stream; positional requests continue at
//! `off + Σ accepted`; every request carries the caller's flags and opcode;
//! `Ok` only after everything / at least `n` bytes; `WriteZero` /
//! `UnexpectedEof` only after the kernel returned 0; returned read buffers
//! hold their old content followed by the delivered stream, in arrival order;
//! extract returns the caller's buffers.

use std::future::Future;
use std::io;
use std::pin::Pin;
use std::sync::Arc;
use std::task::{Context, Poll};
use std::time::Duration;

use a10::io::{Buf, BufMut, BufMutSlice, BufSlice, LimitedBuf, ReadBuf, ReadBufPool};
use a10::net::{RecvFlag, SendFlag};
use a10::Extract;

use crate::comp::{Case, CaseReport, Comp};
use crate::simk::{self, KEv, PostSpec, Sqe, Target};
use crate::util::{self, Rng};

pub struct CompositeComp;

const NO_OFFSET: u64 = u64::MAX;
/// Largest buffer the harness allocates (the model rejects larger ones too).
const MAX_LEN: u64 = 1 << 20;

// ---------------------------------------------------------------------------
// Buffer types

/// A writing buffer element: different owners of bytes, all through a10's own
/// `Buf` implementations.
enum WB {
    V(Vec<u8>),
    B(Box<[u8]>),
    A(Arc<[u8]>),
    L(LimitedBuf<Vec<u8>>),
}

unsafe impl Buf for WB {
    unsafe fn parts(&self) -> (*const u8, u32) {
        unsafe {
            match self {
                WB::V(b) => b.parts(),
                WB::B(b) => b.parts(),
                WB::A(b) => b.parts(),
                WB::L(b) => b.parts(),
            }
        }
    }
}

/// A reading buffer element.
enum RB {
    V(Vec<u8>),
    L(LimitedBuf<Vec<u8>>),
}

unsafe impl BufMut for RB {
    unsafe fn parts_mut(&mut self) -> (*mut u8, u32) {
        unsafe {
            match self {
                RB::V(b) => b.parts_mut(),
                RB::L(b) => b.parts_mut(),
            }
        }
    }
    unsafe fn set_init(&mut self, n: usize) {
        unsafe {
            match self {
                RB::V(b) => b.set_init(n),
                RB::L(b) => b.set_init(n),
            }
        }
    }
    fn spare_capacity(&self) -> u32 {
        match self {
            RB::V(b) => b.spare_capacity(),
            RB::L(b) => b.spare_capacity(),
        }
    }
    fn has_spare_capacity(&self) -> bool {
        match self {
            RB::V(b) => b.has_spare_capacity(),
            RB::L(b) => b.has_spare_capacity(),
        }
    }
}

/// (pointer, length) of every element as the caller sees them, plus the total
/// length the container reports.
trait WParts {
    fn total(&self) -> usize;
    fn parts(self) -> Vec<(usize, usize)>;
}

fn wb_parts(b: &WB) -> (usize, usize) {
    let (p, l) = unsafe { Buf::parts(b) };
    (p as usize, l as usize)
}

impl WParts for WB {
    fn total(&self) -> usize {
        Buf::len(self)
    }
    fn parts(self) -> Vec<(usize, usize)> {
        vec![wb_parts(&self)]
    }
}

impl<const N: usize> WParts for [WB; N] {
    fn total(&self) -> usize {
        BufSlice::total_len(self)
    }
    fn parts(self) -> Vec<(usize, usize)> {
        self.iter().map(wb_parts).collect()
    }
}

impl<const N: usize> WParts for LimitedBuf<[WB; N]> {
    fn total(&self) -> usize {
        BufSlice::total_len(self)
    }
    fn parts(self) -> Vec<(usize, usize)> {
        self.into_inner().parts()
    }
}

/// Result of a read: (spare capacity reported, content) per element and the
/// total spare capacity the container reports.
trait RFin {
    fn fin(self) -> (u32, Vec<(u32, Vec<u8>)>);
}

impl RFin for Vec<u8> {
    fn fin(self) -> (u32, Vec<(u32, Vec<u8>)>) {
        let s = BufMut::spare_capacity(&self);
        (s, vec![(s, self)])
    }
}

impl RFin for LimitedBuf<Vec<u8>> {
    fn fin(self) -> (u32, Vec<(u32, Vec<u8>)>) {
        let s = BufMut::spare_capacity(&self);
        (s, vec![(s, self.into_inner())])
    }
}

impl RFin for ReadBuf {
    fn fin(self) -> (u32, Vec<(u32, Vec<u8>)>) {
        let s = BufMut::spare_capacity(&self);
        (s, vec![(s, self.as_slice().to_vec())])
    }
}

impl RFin for LimitedBuf<ReadBuf> {
    fn fin(self) -> (u32, Vec<(u32, Vec<u8>)>) {
        let s = BufMut::spare_capacity(&self);
        (s, vec![(s, self.into_inner().as_slice().to_vec())])
    }
}

fn rb_fin(b: RB) -> (u32, Vec<u8>) {
    match b {
        RB::V(v) => (BufMut::spare_capacity(&v), v),
        RB::L(l) => (BufMut::spare_capacity(&l), l.into_inner()),
    }
}

impl<const N: usize> RFin for [RB; N] {
    fn fin(self) -> (u32, Vec<(u32, Vec<u8>)>) {
        let t = BufMutSlice::total_spare_capacity(&self);
        (t, self.into_iter().map(rb_fin).collect())
    }
}

impl<const N: usize> RFin for LimitedBuf<[RB; N]> {
    fn fin(self) -> (u32, Vec<(u32, Vec<u8>)>) {
        let t = BufMutSlice::total_spare_capacity(&self);
        (t, self.into_inner().fin().1)
    }
}

macro_rules! tuple_impls {
    ($n:expr; $($t:ident . $i:tt),+) => {
        impl WParts for ($($t),+) {
            fn total(&self) -> usize { BufSlice::<$n>::total_len(self) }
            fn parts(self) -> Vec<(usize, usize)> { vec![$(wb_parts(&self.$i)),+] }
        }
        impl WParts for LimitedBuf<($($t),+)> {
            fn total(&self) -> usize { BufSlice::<$n>::total_len(self) }
            fn parts(self) -> Vec<(usize, usize)> { self.into_inner().parts() }
        }
    };
}
macro_rules! rtuple_impls {
    ($n:expr; $($t:ident . $i:tt),+) => {
        impl RFin for ($($t),+) {
            fn fin(self) -> (u32, Vec<(u32, Vec<u8>)>) {
                let t = BufMutSlice::<$n>::total_spare_capacity(&self);
                (t, vec![$(rb_fin(self.$i)),+])
            }
        }
        impl RFin for LimitedBuf<($($t),+)> {
            fn fin(self) -> (u32, Vec<(u32, Vec<u8>)>) {
                let t = BufMutSlice::<$n>::total_spare_capacity(&self);
                (t, self.into_inner().fin().1)
            }
        }
    };
}
tuple_impls!(2; WB.0, WB.1);
tuple_impls!(3; WB.0, WB.1, WB.2);
tuple_impls!(4; WB.0, WB.1, WB.2, WB.3);
tuple_impls!(5; WB.0, WB.1, WB.2, WB.3, WB.4);
tuple_impls!(6; WB.0, WB.1, WB.2, WB.3, WB.4, WB.5);
tuple_impls!(7; WB.0, WB.1, WB.2, WB.3, WB.4, WB.5, WB.6);
tuple_impls!(8; WB.0, WB.1, WB.2, WB.3, WB.4, WB.5, WB.6, WB.7);
rtuple_impls!(2; RB.0, RB.1);
rtuple_impls!(3; RB.0, RB.1, RB.2);
rtuple_impls!(4; RB.0, RB.1, RB.2, RB.3);
rtuple_impls!(5; RB.0, RB.1, RB.2, RB.3, RB.4);
rtuple_impls!(6; RB.0, RB.1, RB.2, RB.3, RB.4, RB.5);
rtuple_impls!(7; RB.0, RB.1, RB.2, RB.3, RB.4, RB.5, RB.6);
rtuple_impls!(8; RB.0, RB.1, RB.2, RB.3, RB.4, RB.5, RB.6, RB.7);

macro_rules! mk_tuple {
    ($v:expr; $($i:tt),+) => {{
        let mut it = $v.into_iter();
        ($({ let _ = $i; it.next().unwrap() }),+)
    }};
}

// ---------------------------------------------------------------------------
// Data patterns

/// Byte `p` of writing buffer `j`.
fn wbyte(j: usize, p: usize) -> u8 {
    ((j * 37 + p * 11 + (p >> 6) + 3) % 251) as u8
}
/// Byte `p` already present in reading buffer `j`.
fn ibyte(j: usize, p: usize) -> u8 {
    0x80 | ((j * 13 + p * 5) % 120) as u8
}
/// Byte `i` of the stream the kernel delivers.
fn sbyte(i: usize) -> u8 {
    ((i * 7 + (i >> 5) + 1) % 127) as u8
}

// ---------------------------------------------------------------------------
// Op specification (parsed from the op line)

#[derive(Clone, Debug)]
struct WSpec {
    fut: String,
    tup: bool,
    bufs: Vec<(u64, Option<u64>)>,
    outer: Option<u64>,
    off: u64,
    flags: u32,
    zc: bool,
    ext: bool,
    ks: Vec<u64>,
    /// The request pending after `ks` is answered with `-err` (`more`: zero-copy error + F_MORE, then the notification).
    err: Option<(i32, bool)>,
}

#[derive(Clone, Debug)]
enum RElem {
    Vec { len: u64, cap: u64, lim: Option<u64> },
    Pool { size: u64, lim: Option<u64> },
}

#[derive(Clone, Debug)]
struct RSpec {
    fut: String,
    tup: bool,
    bufs: Vec<RElem>,
    outer: Option<u64>,
    n: u64,
    off: u64,
    flags: u32,
    zsel: bool,
    ks: Vec<u64>,
    err: Option<(i32, bool)>,
}

fn kvs<'a>(toks: &[&'a str], key: &str) -> Option<&'a str> {
    for t in toks {
        let mut it = t.split('=');
        if let (Some(k), Some(v), None) = (it.next(), it.next(), it.next()) {
            if k == key {
                return Some(v);
            }
        }
    }
    None
}

/// Decimal digits only (what the Lean side accepts), within u64.
fn num(s: &str) -> Option<u64> {
    if s.is_empty() || !s.bytes().all(|b| b.is_ascii_digit()) {
        return None;
    }
    s.parse().ok()
}

fn opt_num(s: &str) -> Option<Option<u64>> {
    if s == "-" { Some(None) } else { num(s).map(Some) }
}

fn num_list(s: &str) -> Option<Vec<u64>> {
    if s.is_empty() || s == "-" {
        return Some(Vec::new());
    }
    s.split(',').map(num).collect()
}

/// `err=-` (or no `err` key) = none, `err=<errno>` or `err=<errno>+` (zero-copy: error with F_MORE + notification).
fn parse_err(toks: &[&str]) -> Option<Option<(i32, bool)>> {
    let Some(v) = kvs(toks, "err") else { return Some(None) };
    if v == "-" {
        return Some(None);
    }
    let (n, more) = match v.strip_suffix('+') {
        Some(n) => (n, true),
        None => (v, false),
    };
    let e = num(n)?;
    // EINTR / ECANCELED are retried inside the operation (C09); everything else reaches the composite future
    if e == 0 || e > 4095 || e == libc::EINTR as u64 || e == libc::ECANCELED as u64 {
        return None;
    }
    Some(Some((e as i32, more)))
}

fn flag01(s: &str) -> Option<bool> {
    match s {
        "0" => Some(false),
        "1" => Some(true),
        _ => None,
    }
}

fn parse_shape(s: &str, single: bool, n: usize) -> Option<bool> {
    match (s, single) {
        ("one", true) => Some(false),
        ("arr", false) => Some(false),
        ("tup", false) if n >= 2 => Some(true),
        _ => None,
    }
}

fn parse_w(toks: &[&str]) -> Option<WSpec> {
    let fut = kvs(toks, "fut")?.to_string();
    let bufs: Vec<(u64, Option<u64>)> = {
        let s = kvs(toks, "bufs")?;
        if s.is_empty() || s == "-" {
            Vec::new()
        } else {
            s.split(',')
                .map(|e| {
                    let p: Vec<&str> = e.split('/').collect();
                    match p.as_slice() {
                        [l] => Some((num(l)?, None)),
                        [l, m] => Some((num(l)?, Some(num(m)?))),
                        _ => None,
                    }
                })
                .collect::<Option<_>>()?
        }
    };
    let outer = opt_num(kvs(toks, "outer")?)?;
    let off = opt_num(kvs(toks, "off")?)?;
    let flags = num(kvs(toks, "flags")?)?;
    let zc = flag01(kvs(toks, "zc")?)?;
    let ext = flag01(kvs(toks, "ext")?)?;
    let ks = num_list(kvs(toks, "ks")?)?;
    let err = parse_err(toks)?;
    let single = fut == "write_all" || fut == "send_all";
    let tup = parse_shape(kvs(toks, "shape")?, single, bufs.len())?;
    if flags > u32::MAX as u64 || bufs.iter().any(|b| b.0 > MAX_LEN) {
        return None;
    }
    let file = fut == "write_all" || fut == "write_all_vectored";
    let sock = fut == "send_all" || fut == "send_all_vectored";
    if !(file || sock) {
        return None;
    }
    if file && (flags != 0 || zc) {
        return None;
    }
    if sock && off.is_some() {
        return None;
    }
    if single && (bufs.len() != 1 || outer.is_some()) {
        return None;
    }
    if !single && (bufs.is_empty() || bufs.len() > 8) {
        return None;
    }
    Some(WSpec { fut, tup, bufs, outer, off: off.unwrap_or(NO_OFFSET), flags: flags as u32, zc, ext, ks, err })
}

fn parse_r(toks: &[&str]) -> Option<RSpec> {
    let fut = kvs(toks, "fut")?.to_string();
    let bufs: Vec<RElem> = {
        let s = kvs(toks, "bufs")?;
        if s.is_empty() || s == "-" {
            Vec::new()
        } else {
            s.split(',')
                .map(|e| {
                    let p: Vec<&str> = e.split('/').collect();
                    match p.as_slice() {
                        ["pool", sz] => Some(RElem::Pool { size: num(sz)?, lim: None }),
                        ["pool", sz, m] => Some(RElem::Pool { size: num(sz)?, lim: Some(num(m)?) }),
                        [l, c] => Some(RElem::Vec { len: num(l)?, cap: num(c)?, lim: None }),
                        [l, c, m] => Some(RElem::Vec { len: num(l)?, cap: num(c)?, lim: Some(num(m)?) }),
                        _ => None,
                    }
                })
                .collect::<Option<_>>()?
        }
    };
    let outer = opt_num(kvs(toks, "outer")?)?;
    let n = num(kvs(toks, "n")?)?;
    let off = opt_num(kvs(toks, "off")?)?;
    let flags = num(kvs(toks, "flags")?)?;
    let zsel = flag01(kvs(toks, "zsel")?)?;
    let ks = num_list(kvs(toks, "ks")?)?;
    let err = parse_err(toks)?;
    let single = fut == "read_n" || fut == "recv_n";
    let tup = parse_shape(kvs(toks, "shape")?, single, bufs.len())?;
    if flags > u32::MAX as u64 {
        return None;
    }
    for b in &bufs {
        match b {
            RElem::Vec { len, cap, .. } => {
                if len > cap || *cap > MAX_LEN {
                    return None;
                }
            }
            RElem::Pool { size, .. } => {
                if *size == 0 || *size > MAX_LEN {
                    return None;
                }
            }
        }
    }
    let file = fut == "read_n" || fut == "read_n_vectored";
    let sock = fut == "recv_n" || fut == "recv_n_vectored";
    if !(file || sock) {
        return None;
    }
    if file && flags != 0 {
        return None;
    }
    if sock && off.is_some() {
        return None;
    }
    if single && (bufs.len() != 1 || outer.is_some()) {
        return None;
    }
    if !single && (bufs.is_empty() || bufs.len() > 8 || bufs.iter().any(|b| matches!(b, RElem::Pool { .. }))) {
        return None;
    }
    Some(RSpec { fut, tup, bufs, outer, n, off: off.unwrap_or(NO_OFFSET), flags: flags as u32, zsel, ks, err })
}

// ---------------------------------------------------------------------------
// Driving a future against the simulated kernel

/// One request as decoded from the submission, with the kernel's answer.
#[derive(Clone, Debug)]
struct Rec {
    opcode: u8,
    off: u64,
    op_flags: u32,
    sel: bool,
    /// (length, Some((buffer index, start)) if it lies in one of the caller's buffers)
    iov: Vec<(usize, Option<(usize, usize)>)>,
    res: Option<u32>,
    /// The kernel answered this request with `-err`.
    err: Option<i32>,
    /// Bytes accepted (writes) / delivered (reads).
    data: Vec<u8>,
}

enum Outcome<T> {
    Ready(io::Result<T>),
    Pending,
    Panic(String),
}

struct Drive {
    rfd: i32,
    read: bool,
    ks: Vec<u64>,
    ki: usize,
    err: Option<(i32, bool)>,
    /// Do not copy the bytes the kernel accepted out of the caller's buffers (gigabyte transfers).
    skip_gather: bool,
    /// Memory of the caller's buffers: (address, extent).
    bases: Vec<(usize, usize)>,
    zsel: bool,
    delivered: usize,
    lines: Vec<String>,
    recs: Vec<Rec>,
    anomalies: Vec<String>,
}

#[repr(C)]
#[derive(Copy, Clone)]
struct RawIovec {
    base: u64,
    len: u64,
}

fn raw_iovecs(sqe: &Sqe) -> Vec<RawIovec> {
    match sqe.opcode {
        simk::OP_WRITEV | simk::OP_READV => (0..sqe.len as usize)
            .map(|i| unsafe { *(sqe.addr as *const RawIovec).add(i) })
            .collect(),
        simk::OP_SENDMSG | simk::OP_SENDMSG_ZC | simk::OP_RECVMSG => {
            let m = unsafe { *(sqe.addr as *const libc::msghdr) };
            (0..m.msg_iovlen as usize)
                .map(|i| unsafe { *(m.msg_iov as *const RawIovec).add(i) })
                .collect()
        }
        _ => vec![RawIovec { base: sqe.addr, len: sqe.len as u64 }],
    }
}

fn is_data_op(op: u8) -> bool {
    matches!(
        op,
        simk::OP_WRITE
            | simk::OP_WRITEV
            | simk::OP_SEND
            | simk::OP_SEND_ZC
            | simk::OP_SENDMSG
            | simk::OP_SENDMSG_ZC
            | simk::OP_READ
            | simk::OP_READV
            | simk::OP_RECV
            | simk::OP_RECVMSG
    )
}

impl Drive {
    fn new(rfd: i32, read: bool, ks: Vec<u64>, err: Option<(i32, bool)>, bases: Vec<(usize, usize)>, zsel: bool) -> Drive {
        Drive { rfd, read, ks, ki: 0, err, skip_gather: false, bases, zsel, delivered: 0, lines: Vec::new(), recs: Vec::new(), anomalies: Vec::new() }
    }

    fn decode(&mut self, sqe: &Sqe) -> Rec {
        let sel = sqe.flags & simk::IOSQE_BUFFER_SELECT != 0;
        let mut iov = Vec::new();
        if sel {
            // The kernel will pick the next buffer of the group.
            let avail = simk::with_ring(self.rfd, |r, _| r.available_buffers(sqe.buf_index));
            match avail.first() {
                Some((_, addr, len)) => {
                    self.bases = vec![(*addr as usize, *len as usize)];
                    iov.push((*len as usize, Some((0, 0))));
                }
                None => iov.push((0, None)),
            }
        } else {
            for v in raw_iovecs(sqe) {
                let (a, l) = (v.base as usize, v.len as usize);
                let hit = self
                    .bases
                    .iter()
                    .position(|(b, e)| l > 0 && *b <= a && a + l <= *b + *e)
                    .map(|j| (j, a - self.bases[j].0));
                iov.push((l, hit));
            }
        }
        Rec { opcode: sqe.opcode, off: sqe.off, op_flags: sqe.op_flags, sel, iov, res: None, err: None, data: Vec::new() }
    }

    fn show(rec: &Rec, sqe_len: u32) -> String {
        let iov = if rec.iov.is_empty() {
            "none".to_string()
        } else {
            rec.iov
                .iter()
                .enumerate()
                .map(|(i, (l, hit))| match (l, hit) {
                    (0, _) => "-".to_string(),
                    (l, Some((j, s))) if *j == i => format!("{s}+{l}"),
                    (l, Some((j, s))) => format!("!{j}:{s}+{l}"),
                    (l, None) => format!("?+{l}"),
                })
                .collect::<Vec<_>>()
                .join(",")
        };
        format!(
            "req {} off={} flags={} n={} sel={} iov={}",
            simk::opcode_name(rec.opcode),
            rec.off,
            rec.op_flags,
            sqe_len,
            rec.sel as u8,
            iov
        )
    }

    fn run<T>(&mut self, ring: &mut a10::Ring, mut fut: Pin<&mut (dyn Future<Output = io::Result<T>> + '_)>) -> Outcome<T> {
        let w = util::waker(7);
        let mut cx = Context::from_waker(&w);
        loop {
            match util::catch(|| fut.as_mut().poll(&mut cx)) {
                Err(msg) => return Outcome::Panic(msg),
                Ok(Poll::Ready(r)) => return Outcome::Ready(r),
                Ok(Poll::Pending) => {}
            }
            // Let the kernel consume the submission.
            let _ = ring.poll(Some(Duration::ZERO));
            let infl: Vec<Sqe> = simk::with_ring(self.rfd, |r, _| {
                r.inflight.iter().map(|i| i.sqe).filter(|s| is_data_op(s.opcode)).collect()
            });
            if infl.len() != 1 {
                self.anomalies.push(format!("{} data requests in flight", infl.len()));
                self.lines.push(format!("anomaly inflight={}", infl.len()));
                return Outcome::Pending;
            }
            let sqe = infl[0];
            let mut rec = self.decode(&sqe);
            self.lines.push(Drive::show(&rec, sqe.len));
            if self.ki == self.ks.len() {
                let Some((e, more)) = self.err.take() else {
                    self.recs.push(rec);
                    return Outcome::Pending;
                };
                // The kernel fails this request. A zero-copy send may report the error with
                // F_MORE and send the notification afterwards (`more`), or fail in one step.
                let zc = matches!(sqe.opcode, simk::OP_SEND_ZC | simk::OP_SENDMSG_ZC);
                let two_step = zc && more;
                let spec = PostSpec::new(Target::UserData(sqe.user_data), -e, if two_step { simk::CQE_F_MORE } else { 0 });
                let _ = simk::drain_events();
                simk::with_ring(self.rfd, |r, ev| r.post(&spec, ev));
                let _ = simk::drain_events();
                rec.err = Some(e);
                self.lines.push(format!("res -{e}"));
                self.recs.push(rec);
                let _ = ring.poll(Some(Duration::ZERO));
                if two_step {
                    match util::catch(|| fut.as_mut().poll(&mut cx)) {
                        Err(msg) => return Outcome::Panic(msg),
                        Ok(Poll::Ready(r)) => {
                            self.anomalies.push("ready before the zero-copy notification".into());
                            return Outcome::Ready(r);
                        }
                        Ok(Poll::Pending) => {}
                    }
                    let notif = PostSpec::new(Target::UserData(sqe.user_data), 0, simk::CQE_F_NOTIF);
                    simk::with_ring(self.rfd, |r, ev| r.post(&notif, ev));
                    let _ = ring.poll(Some(Duration::ZERO));
                }
                continue;
            }
            let k = self.ks[self.ki];
            self.ki += 1;
            let offered: u64 = rec.iov.iter().map(|v| v.0 as u64).sum();
            let res = k.min(offered).min(i32::MAX as u64) as u32;
            let zc = matches!(sqe.opcode, simk::OP_SEND_ZC | simk::OP_SENDMSG_ZC);
            let mut spec = PostSpec::new(Target::UserData(sqe.user_data), res as i32, if zc { simk::CQE_F_MORE } else { 0 });
            if !self.read && self.skip_gather {
                spec.data = Some(Vec::new());
            }
            if self.read {
                let bytes: Vec<u8> = (0..res as usize).map(|i| sbyte(self.delivered + i)).collect();
                if !(rec.sel && res == 0 && !self.zsel) {
                    spec.data = Some(bytes.clone());
                }
                rec.data = bytes;
                self.delivered += res as usize;
            }
            let _ = simk::drain_events();
            simk::with_ring(self.rfd, |r, ev| r.post(&spec, ev));
            if !self.read {
                for e in simk::drain_events() {
                    if let KEv::Data { bytes, .. } = e {
                        rec.data = bytes;
                    }
                }
            }
            rec.res = Some(res);
            self.lines.push(format!("res {res}"));
            self.recs.push(rec);
            let _ = ring.poll(Some(Duration::ZERO));
            if zc {
                // The buffer is still the kernel's until the notification.
                match util::catch(|| fut.as_mut().poll(&mut cx)) {
                    Err(msg) => return Outcome::Panic(msg),
                    Ok(Poll::Ready(r)) => {
                        self.anomalies.push("ready before the zero-copy notification".into());
                        return Outcome::Ready(r);
                    }
                    Ok(Poll::Pending) => {}
                }
                let notif = PostSpec::new(Target::UserData(sqe.user_data), 0, simk::CQE_F_NOTIF);
                simk::with_ring(self.rfd, |r, ev| r.post(&notif, ev));
                let _ = ring.poll(Some(Duration::ZERO));
            }
        }
    }
}

/// After a future was dropped while its request is in flight: let the kernel
/// see the cancellation and finish the request so a10 frees the state.
fn settle(ring: &mut a10::Ring, rfd: i32) {
    let _ = ring.poll(Some(Duration::ZERO));
    loop {
        let ud = simk::with_ring(rfd, |r, _| r.inflight.iter().find(|i| is_data_op(i.sqe.opcode)).map(|i| i.sqe.user_data));
        let Some(ud) = ud else { break };
        let spec = PostSpec::new(Target::UserData(ud), -libc::ECANCELED, 0);
        simk::with_ring(rfd, |r, ev| r.post(&spec, ev));
        let _ = ring.poll(Some(Duration::ZERO));
    }
    let _ = simk::drain_events();
}

// ---------------------------------------------------------------------------
// The case

struct CompositeCase {
    ring: Option<a10::Ring>,
    fd: Option<a10::AsyncFd>,
    sq: Option<a10::SubmissionQueue>,
    rfd: i32,
    left: u32,
    feats: Vec<String>,
    oracle: Vec<(String, String, String)>,
    nontrivial: bool,
}

fn err_name(e: &io::Error) -> String {
    match e.kind() {
        io::ErrorKind::WriteZero => "WriteZero".into(),
        io::ErrorKind::UnexpectedEof => "UnexpectedEof".into(),
        _ => match e.raw_os_error() {
            Some(n) => format!("os{n}"),
            None => util::io_err_name(e),
        },
    }
}

fn send_flags(f: u32) -> SendFlag {
    // `SendFlag` is `repr(transparent)` over `u32`; combinations of the public
    // constants (`|`) produce exactly these values.
    unsafe { std::mem::transmute::<u32, SendFlag>(f) }
}

fn recv_flags(f: u32) -> RecvFlag {
    unsafe { std::mem::transmute::<u32, RecvFlag>(f) }
}

impl CompositeCase {
    fn fail(&mut self, fut: &str, what: &str, detail: String) {
        self.oracle.push(("C10".into(), format!("C10/{fut}/{what}"), detail));
    }

    // ----- writing futures

    fn build_welem(j: usize, len: u64, lim: Option<u64>) -> WB {
        let v: Vec<u8> = (0..len as usize).map(|p| wbyte(j, p)).collect();
        match lim {
            Some(m) => WB::L(LimitedBuf::new(v, m as usize)),
            None => match j % 3 {
                0 => WB::V(v),
                1 => WB::B(v.into_boxed_slice()),
                _ => WB::A(Arc::from(v)),
            },
        }
    }

    /// The input stream the property talks about: every byte of every buffer
    /// (as limited by the caller), in order.
    fn expected_input(s: &WSpec) -> Vec<u8> {
        let mut out = Vec::new();
        for (j, (len, lim)) in s.bufs.iter().enumerate() {
            let n = lim.map_or(*len, |m| m.min(*len)) as usize;
            out.extend((0..n).map(|p| wbyte(j, p)));
        }
        if let Some(o) = s.outer {
            out.truncate((o as usize).min(out.len()));
        }
        out
    }

    fn finish_w<B: WParts + 'static>(
        &mut self,
        s: &WSpec,
        mut d: Drive,
        out: Outcome<Option<B>>,
        before: Vec<(usize, usize)>,
        total_before: usize,
    ) -> Vec<String> {
        let mut lines = std::mem::take(&mut d.lines);
        let fut = s.fut.as_str();

        // Result line + extract check.
        let mut same = None;
        let result = match &out {
            Outcome::Ready(Ok(_)) => "ok",
            Outcome::Ready(Err(_)) => "err",
            Outcome::Pending => "pending",
            Outcome::Panic(_) => "panic",
        };
        let panic_msg = if let Outcome::Panic(m) = &out { m.clone() } else { String::new() };
        match out {
            Outcome::Ready(Ok(b)) => {
                let mut l = "result ok".to_string();
                match (s.ext, b) {
                    (true, Some(b)) => {
                        let t = b.total();
                        let after = b.parts();
                        let ok = after == before && t == total_before;
                        same = Some(ok);
                        l.push_str(if ok { " extract=same" } else { " extract=DIFFERENT" });
                    }
                    (false, None) => {}
                    _ => l.push_str(" extract=?"),
                }
                lines.push(l);
            }
            Outcome::Ready(Err(e)) => lines.push(format!("result err={}", err_name(&e))),
            Outcome::Pending => lines.push("result pending".into()),
            Outcome::Panic(_) => lines.push("result panic".into()),
        }

        // ----- oracle
        let input = CompositeCase::expected_input(s);
        let file = fut.starts_with("write");
        let want_op = match (fut, s.zc) {
            ("write_all", _) => simk::OP_WRITE,
            ("write_all_vectored", _) => simk::OP_WRITEV,
            ("send_all", false) => simk::OP_SEND,
            ("send_all", true) => simk::OP_SEND_ZC,
            ("send_all_vectored", false) => simk::OP_SENDMSG,
            _ => simk::OP_SENDMSG_ZC,
        };
        let mut acc: usize = 0;
        let mut overflow = false;
        let nrec = d.recs.len();
        for (i, r) in d.recs.iter().enumerate() {
            let which = if i == 0 { "first" } else { "continuation" };
            if r.opcode != want_op {
                self.fail(fut, &format!("opcode-{which}"), format!("request {i} uses {} instead of {}", simk::opcode_name(r.opcode), simk::opcode_name(want_op)));
            }
            if r.op_flags != s.flags {
                self.fail(fut, &format!("flags-{which}"), format!("request {i} carries flags {} instead of the caller's {}", r.op_flags, s.flags));
            }
            if file {
                let want = if s.off == NO_OFFSET { Some(NO_OFFSET) } else { s.off.checked_add(acc as u64) };
                match want {
                    Some(w) if w == r.off => {}
                    Some(w) => self.fail(fut, &format!("offset-{which}"), format!("request {i} at offset {} instead of {w} ({acc} bytes accepted before)", r.off)),
                    None => overflow = true,
                }
            }
            let offered: usize = r.iov.iter().map(|v| v.0).sum();
            if acc < input.len() && offered != input.len() - acc {
                self.fail(fut, &format!("offered-{which}"), format!("request {i} offers {offered} bytes, {} remain", input.len() - acc));
            }
            if let Some(res) = r.res {
                let res = res as usize;
                let want = input.get(acc..acc + res);
                if want != Some(&r.data[..]) {
                    self.fail(fut, &format!("bytes-{which}"), format!("request {i}: the kernel accepted {res} bytes that are not bytes {acc}.. of the input"));
                }
                if res == 0 && i + 1 != nrec {
                    self.fail(fut, "continued-after-zero", format!("request {i} transferred nothing but the future went on"));
                }
                acc += res;
            }
        }
        if file && s.off != NO_OFFSET && s.off.checked_add(acc as u64).is_none() {
            overflow = true;
        }
        let last_zero = d.recs.last().is_some_and(|r| r.res == Some(0));
        // A request the kernel failed: the future must fail with exactly that error, at once.
        let failed = d.recs.iter().position(|r| r.err.is_some());
        if let Some(at) = failed {
            let e = d.recs[at].err.unwrap();
            if at + 1 != d.recs.len() {
                self.fail(fut, "continued-after-error", format!("request {at} failed with errno {e} but the future issued another request"));
            }
            // `fallback` (op.rs) reports EINVAL as `Unsupported` ("update your kernel"), by design
            let want = if e == libc::EINVAL { "result err=Unsupported".to_string() } else { format!("result err=os{e}") };
            if lines.last() != Some(&want) {
                self.fail(fut, "kernel-error-not-reported", format!("request {at} failed with errno {e}; the future ended with `{}`", lines.last().cloned().unwrap_or_default()));
            }
            self.feats.push("kernel-error".into());
            if at >= 1 {
                self.feats.push("kernel-error-after-progress".into());
            }
        }
        match result {
            "ok" => {
                if acc != input.len() {
                    self.fail(fut, "ok-before-all-bytes", format!("Ok after {acc} of {} bytes were accepted", input.len()));
                }
                if last_zero {
                    self.fail(fut, "zero-not-reported", "Ok although the kernel accepted nothing".into());
                }
                if same == Some(false) {
                    self.fail(fut, "extract", "extract did not return the caller's buffers".into());
                }
            }
            "err" if failed.is_some() => {}
            "err" => {
                let wz = lines.last().is_some_and(|l| l == "result err=WriteZero");
                if !(wz && last_zero) {
                    self.fail(fut, "spurious-error", format!("{} without the kernel accepting nothing", lines.last().unwrap()));
                }
            }
            "pending" => {
                if last_zero {
                    self.fail(fut, "zero-not-reported", "still pending although the kernel accepted nothing".into());
                }
                if d.ki < d.ks.len() && d.anomalies.is_empty() {
                    self.fail(fut, "stuck", "pending with no request in flight".into());
                }
                if acc == input.len() && !input.is_empty() {
                    self.fail(fut, "request-after-complete", "a request was issued after every byte was accepted".into());
                }
            }
            _ => {
                if !overflow {
                    self.fail(fut, "panic", format!("panicked: {panic_msg}"));
                }
            }
        }
        for a in d.anomalies.drain(..) {
            self.fail(fut, "anomaly", a);
        }

        // features
        self.feats.push(format!("fut:{fut}"));
        self.feats.push(format!("result:{result}"));
        let conts = nrec.saturating_sub(1);
        if conts >= 1 {
            self.nontrivial = true;
            self.feats.push("continuations>=1".into());
        }
        if conts >= 3 {
            self.feats.push("continuations>=3".into());
        }
        if conts >= 8 {
            self.feats.push("continuations>=8".into());
        }
        if s.bufs.len() > 1 {
            let eff: Vec<u64> = s.bufs.iter().map(|(l, m)| m.map_or(*l, |m| m.min(*l))).collect();
            if eff[0] == 0 {
                self.feats.push("empty-first-buffer".into());
            }
            if *eff.last().unwrap() == 0 {
                self.feats.push("empty-last-buffer".into());
                if conts >= 1 {
                    self.feats.push("empty-last-buffer+continuation".into());
                }
            }
            if eff.len() > 2 && eff[1..eff.len() - 1].contains(&0) {
                self.feats.push("empty-middle-buffer".into());
            }
            // a transfer that ended exactly on a buffer boundary
            let mut bounds = Vec::new();
            let mut t = 0u64;
            for e in &eff {
                t += e;
                bounds.push(t);
            }
            let mut a = 0u64;
            for r in &d.recs[..nrec.saturating_sub(1)] {
                a += r.res.unwrap_or(0) as u64;
                if bounds.contains(&a) {
                    self.feats.push("split-on-buffer-boundary".into());
                    break;
                }
            }
        }
        if d.recs.iter().any(|r| r.res == Some(1)) && conts >= 2 {
            self.feats.push("one-byte-transfers".into());
        }
        if s.flags != 0 {
            self.feats.push("flags!=0".into());
            if conts >= 1 {
                self.feats.push("flags!=0+continuation".into());
            }
        }
        if s.zc {
            self.feats.push("zero-copy".into());
        }
        if s.off != NO_OFFSET {
            self.feats.push("positional".into());
            if conts >= 1 {
                self.feats.push("positional+continuation".into());
            }
        }
        if s.ext {
            self.feats.push("extract".into());
        }
        if s.outer.is_some() || s.bufs.iter().any(|b| b.1.is_some()) {
            self.feats.push("limited-buffer".into());
        }
        if s.tup {
            self.feats.push("tuple".into());
        }
        if input.is_empty() {
            self.feats.push("empty-input".into());
        }
        if s.bufs.iter().any(|b| b.0 > 64) {
            self.feats.push("long-buffer".into());
        }
        lines
    }

    fn run_w(&mut self, s: &WSpec) -> Vec<String> {
        let elems: Vec<WB> = s.bufs.iter().enumerate().map(|(j, (l, m))| CompositeCase::build_welem(j, *l, *m)).collect();
        let before: Vec<(usize, usize)> = elems.iter().map(wb_parts).collect();
        let single = s.fut == "write_all" || s.fut == "send_all";
        // Run the future built by `$mk(&fd, bufs)` over `$bufs`.
        macro_rules! go {
            ($bufs:expr, $mk:expr) => {{
                let bufs = $bufs;
                let total_before = bufs.total();
                let mut ring = self.ring.take().unwrap();
                let fd = self.fd.take().unwrap();
                let mut d = Drive::new(self.rfd, false, s.ks.clone(), s.err, before.clone(), false);
                let out = {
                    let mut fut = $mk(s, &fd, bufs);
                    let out = d.run(&mut ring, fut.as_mut());
                    drop(fut);
                    out
                };
                if matches!(out, Outcome::Pending) {
                    settle(&mut ring, self.rfd);
                }
                self.ring = Some(ring);
                self.fd = Some(fd);
                self.finish_w(s, d, out, before, total_before)
            }};
        }
        if single {
            let b = elems.into_iter().next().unwrap();
            return go!(b, mk_w1);
        }
        macro_rules! arr {
            ($n:expr) => {{
                let a: [WB; $n] = match elems.try_into() {
                    Ok(a) => a,
                    Err(_) => unreachable!(),
                };
                match s.outer {
                    None => go!(a, mk_wv::<_, $n>),
                    Some(l) => go!(LimitedBuf::new(a, l as usize), mk_wv::<_, $n>),
                }
            }};
        }
        macro_rules! tupl {
            ($n:expr; $($i:tt),+) => {{
                let t = mk_tuple!(elems; $($i),+);
                match s.outer {
                    None => go!(t, mk_wv::<_, $n>),
                    Some(l) => go!(LimitedBuf::new(t, l as usize), mk_wv::<_, $n>),
                }
            }};
        }
        match (s.bufs.len(), s.tup) {
            (1, _) => arr!(1),
            (2, false) => arr!(2),
            (3, false) => arr!(3),
            (4, false) => arr!(4),
            (5, false) => arr!(5),
            (6, false) => arr!(6),
            (7, false) => arr!(7),
            (8, false) => arr!(8),
            (2, true) => tupl!(2; 0, 1),
            (3, true) => tupl!(3; 0, 1, 2),
            (4, true) => tupl!(4; 0, 1, 2, 3),
            (5, true) => tupl!(5; 0, 1, 2, 3, 4),
            (6, true) => tupl!(6; 0, 1, 2, 3, 4, 5),
            (7, true) => tupl!(7; 0, 1, 2, 3, 4, 5, 6),
            (8, true) => tupl!(8; 0, 1, 2, 3, 4, 5, 6, 7),
            _ => vec!["bad-op".into()],
        }
    }

    // ----- buffers of 4 GiB and more

    /// `composite whuge fut=… extra=<k> tail=<t> ks=…`: the input is a `&'static [u8]` of
    /// 2^32 + k bytes (untouched `MAP_NORESERVE` memory) through a10's own `Buf` implementation,
    /// for the vectored futures followed by a second slice of t bytes.
    fn run_whuge(&mut self, toks: &[&str]) -> Option<Vec<String>> {
        let fut = kvs(toks, "fut")?.to_string();
        let k = num(kvs(toks, "extra")?)? as usize;
        let t = num(kvs(toks, "tail")?)? as usize;
        let ks = num_list(kvs(toks, "ks")?)?;
        let single = fut == "write_all" || fut == "send_all";
        if k > 4096 || t > 4096 || (single && t != 0) || !matches!(fut.as_str(), "write_all" | "send_all" | "write_all_vectored" | "send_all_vectored") {
            return None;
        }
        let total = (1usize << 32) + k;
        let p = unsafe { libc::mmap(std::ptr::null_mut(), total, libc::PROT_READ | libc::PROT_WRITE, libc::MAP_PRIVATE | libc::MAP_ANONYMOUS | libc::MAP_NORESERVE, -1, 0) };
        if p == libc::MAP_FAILED {
            return Some(vec!["skip mmap".into()]);
        }
        let huge: &'static [u8] = unsafe { std::slice::from_raw_parts(p.cast::<u8>(), total) };
        let small: &'static [u8] = Box::leak(vec![0x5au8; t].into_boxed_slice());
        let mut bases = vec![(p as usize, total)];
        if !single {
            bases.push((small.as_ptr() as usize, t));
        }
        let mut ring = self.ring.take().unwrap();
        let fd = self.fd.take().unwrap();
        let mut d = Drive::new(self.rfd, false, ks, None, bases, false);
        let out = {
            let mut f: Pin<Box<dyn Future<Output = io::Result<()>> + '_>> = match fut.as_str() {
                "write_all" => Box::pin(fd.write_all(huge)),
                "send_all" => Box::pin(fd.send_all(huge)),
                "write_all_vectored" => Box::pin(fd.write_all_vectored([huge, small])),
                _ => Box::pin(fd.send_all_vectored([huge, small])),
            };
            let out = d.run(&mut ring, f.as_mut());
            drop(f);
            out
        };
        if matches!(out, Outcome::Pending) {
            settle(&mut ring, self.rfd);
        }
        self.ring = Some(ring);
        self.fd = Some(fd);
        let mut lines = std::mem::take(&mut d.lines);
        let result = match &out {
            Outcome::Ready(Ok(())) => "ok".to_string(),
            Outcome::Ready(Err(e)) => format!("err={}", err_name(e)),
            Outcome::Pending => "pending".to_string(),
            Outcome::Panic(_) => "panic".to_string(),
        };
        lines.push(format!("result {result}"));
        let handed: usize = d.recs.iter().filter_map(|r| r.res).map(|r| r as usize).sum();
        let input = total + t;
        lines.push(format!("input={input} handed={handed}"));
        // oracle: success only after every byte of every input buffer was handed to the kernel
        if result == "ok" && handed != input {
            self.fail(&fut, "huge-buffer-truncated", format!("Ok after {handed} of {input} bytes were handed to the kernel (a buffer of 2^32+{k} bytes reports length {k}: `len as u32`)"));
        }
        if let Outcome::Panic(m) = &out {
            self.fail(&fut, "panic", format!("panicked: {m}"));
        }
        for a in d.anomalies.drain(..) {
            self.fail(&fut, "anomaly", a);
        }
        self.feats.push(format!("fut:{fut}"));
        self.feats.push("huge-buffer(>=4GiB)".into());
        self.nontrivial = true;
        unsafe { libc::munmap(p, total) };
        Some(lines)
    }

    /// `composite wbig fut=… n=<2..4> size=<bytes> ks=…`: a vectored writing future over `n` static
    /// slices of `size` bytes each (untouched memory); the total may exceed 4 GiB.
    fn run_wbig(&mut self, toks: &[&str]) -> Option<Vec<String>> {
        let fut = kvs(toks, "fut")?.to_string();
        let n = num(kvs(toks, "n")?)? as usize;
        let size = num(kvs(toks, "size")?)? as usize;
        let ks = num_list(kvs(toks, "ks")?)?;
        if !(2..=4).contains(&n) || size == 0 || size >= (1 << 31) || !matches!(fut.as_str(), "write_all_vectored" | "send_all_vectored") {
            return None;
        }
        let total = n * size;
        let p = unsafe { libc::mmap(std::ptr::null_mut(), total, libc::PROT_READ | libc::PROT_WRITE, libc::MAP_PRIVATE | libc::MAP_ANONYMOUS | libc::MAP_NORESERVE, -1, 0) };
        if p == libc::MAP_FAILED {
            return Some(vec!["skip mmap".into()]);
        }
        let slices: Vec<&'static [u8]> = (0..n).map(|i| unsafe { std::slice::from_raw_parts(p.cast::<u8>().add(i * size), size) }).collect();
        let bases: Vec<(usize, usize)> = (0..n).map(|i| (p as usize + i * size, size)).collect();
        let mut ring = self.ring.take().unwrap();
        let fd = self.fd.take().unwrap();
        let mut d = Drive::new(self.rfd, false, ks, None, bases, false);
        d.skip_gather = true;
        let out = {
            let write = fut == "write_all_vectored";
            let mut f: Pin<Box<dyn Future<Output = io::Result<()>> + '_>> = match (n, write) {
                (2, true) => Box::pin(fd.write_all_vectored([slices[0], slices[1]])),
                (3, true) => Box::pin(fd.write_all_vectored([slices[0], slices[1], slices[2]])),
                (_, true) => Box::pin(fd.write_all_vectored([slices[0], slices[1], slices[2], slices[3]])),
                (2, false) => Box::pin(fd.send_all_vectored([slices[0], slices[1]])),
                (3, false) => Box::pin(fd.send_all_vectored([slices[0], slices[1], slices[2]])),
                (_, false) => Box::pin(fd.send_all_vectored([slices[0], slices[1], slices[2], slices[3]])),
            };
            let out = d.run(&mut ring, f.as_mut());
            drop(f);
            out
        };
        if matches!(out, Outcome::Pending) {
            settle(&mut ring, self.rfd);
        }
        self.ring = Some(ring);
        self.fd = Some(fd);
        let mut lines = std::mem::take(&mut d.lines);
        let result = match &out {
            Outcome::Ready(Ok(())) => "ok".to_string(),
            Outcome::Ready(Err(e)) => format!("err={}", err_name(e)),
            Outcome::Pending => "pending".to_string(),
            Outcome::Panic(_) => "panic".to_string(),
        };
        lines.push(format!("result {result}"));
        let handed: usize = d.recs.iter().filter_map(|r| r.res).map(|r| r as usize).sum();
        lines.push(format!("input={total} handed={handed}"));
        // oracle: continuation requests offer exactly what is left; Ok only after everything
        let mut acc = 0usize;
        for (i, r) in d.recs.iter().enumerate() {
            let offered: usize = r.iov.iter().map(|v| v.0).sum();
            if offered != total - acc {
                self.fail(&fut, "offered-continuation", format!("request {i} offers {offered} bytes, {} remain (buffers of {size} bytes, {total} in total)", total - acc));
                break;
            }
            acc += r.res.unwrap_or(0) as usize;
        }
        if result == "ok" && handed != total {
            self.fail(&fut, "ok-before-all-bytes", format!("Ok after {handed} of {total} bytes were accepted"));
        }
        if let Outcome::Panic(m) = &out {
            self.fail(&fut, "panic", format!("panicked: {m}"));
        }
        for a in d.anomalies.drain(..) {
            self.fail(&fut, "anomaly", a);
        }
        self.feats.push(format!("fut:{fut}"));
        self.feats.push(if total >= (1 << 32) { "total>=4GiB".into() } else { "big-buffers".into() });
        self.nontrivial = true;
        unsafe { libc::munmap(p, total) };
        Some(lines)
    }

    // ----- reading futures

    fn build_relem(j: usize, len: u64, cap: u64, lim: Option<u64>) -> (RB, (usize, usize)) {
        let mut v: Vec<u8> = Vec::with_capacity(cap as usize);
        v.extend((0..len as usize).map(|p| ibyte(j, p)));
        // `with_capacity` may round up; the model is told the real capacity
        // through the op line only, so make it exact.
        assert!(v.capacity() >= cap as usize);
        let base = (v.as_ptr() as usize, v.capacity());
        let b = match lim {
            Some(m) => RB::L(LimitedBuf::new(v, m as usize)),
            None => RB::V(v),
        };
        (b, base)
    }

    /// Spare capacity of the buffers as the property sees it (bytes the kernel
    /// can still deliver), independent of the model.
    fn capacity(s: &RSpec) -> u64 {
        let mut t = 0u64;
        for b in &s.bufs {
            t += match b {
                RElem::Vec { len, cap, lim } => lim.map_or(cap - len, |m| m.min(cap - len)),
                RElem::Pool { size, lim: None } => *size,
                // `LimitedBuf<ReadBuf>` of a buffer that was never filled has no capacity.
                RElem::Pool { lim: Some(_), .. } => 0,
            };
        }
        s.outer.map_or(t, |o| o.min(t))
    }

    fn finish_r<B: RFin + 'static>(&mut self, s: &RSpec, mut d: Drive, out: Outcome<B>) -> Vec<String> {
        let mut lines = std::mem::take(&mut d.lines);
        let fut = s.fut.as_str();
        let vectored = fut.ends_with("vectored");
        let result = match &out {
            Outcome::Ready(Ok(_)) => "ok",
            Outcome::Ready(Err(_)) => "err",
            Outcome::Pending => "pending",
            Outcome::Panic(_) => "panic",
        };
        let panic_msg = if let Outcome::Panic(m) = &out { m.clone() } else { String::new() };
        let mut contents: Option<Vec<Vec<u8>>> = None;
        match out {
            Outcome::Ready(Ok(b)) => {
                let (tspare, elems) = b.fin();
                let lens: Vec<String> = elems.iter().map(|e| e.1.len().to_string()).collect();
                let spare: Vec<String> = elems.iter().map(|e| e.0.to_string()).collect();
                let mut l = format!("result ok lens={} spare={}", lens.join(","), spare.join(","));
                if vectored {
                    l.push_str(&format!(" tspare={tspare}"));
                }
                lines.push(l);
                contents = Some(elems.into_iter().map(|e| e.1).collect());
            }
            Outcome::Ready(Err(e)) => lines.push(format!("result err={}", err_name(&e))),
            Outcome::Pending => lines.push("result pending".into()),
            Outcome::Panic(_) => lines.push("result panic".into()),
        }

        // ----- oracle
        let file = fut.starts_with("read");
        let want_op = match fut {
            "read_n" => simk::OP_READ,
            "read_n_vectored" => simk::OP_READV,
            "recv_n" => simk::OP_RECV,
            _ => simk::OP_RECVMSG,
        };
        let cap = CompositeCase::capacity(s);
        let pre = s.n >= 1 && s.n <= cap;
        let mut acc: u64 = 0;
        let mut overflow = false;
        let nrec = d.recs.len();
        for (i, r) in d.recs.iter().enumerate() {
            let which = if i == 0 { "first" } else { "continuation" };
            if r.opcode != want_op {
                self.fail(fut, &format!("opcode-{which}"), format!("request {i} uses {}", simk::opcode_name(r.opcode)));
            }
            if r.op_flags != s.flags {
                self.fail(fut, &format!("flags-{which}"), format!("request {i} carries flags {} instead of the caller's {}", r.op_flags, s.flags));
            }
            if file {
                let want = if s.off == NO_OFFSET { Some(NO_OFFSET) } else { s.off.checked_add(acc) };
                match want {
                    Some(w) if w == r.off => {}
                    Some(w) => self.fail(fut, &format!("offset-{which}"), format!("request {i} at offset {} instead of {w} ({acc} bytes read before)", r.off)),
                    None => overflow = true,
                }
            }
            let offered: u64 = r.iov.iter().map(|v| v.0 as u64).sum();
            if pre && acc < s.n && offered == 0 {
                self.fail(fut, &format!("zero-length-request-{which}"), format!("request {i} offers no space although {} bytes of capacity remain", cap - acc));
            }
            if s.n >= 1 && acc >= s.n {
                self.fail(fut, "read-after-n", format!("request {i} issued after {acc} >= n = {} bytes were read", s.n));
            }
            if let Some(res) = r.res {
                if res == 0 && i + 1 != nrec {
                    self.fail(fut, "continued-after-eof", format!("request {i} read nothing but the future went on"));
                }
                acc += res as u64;
            }
        }
        if file && s.off != NO_OFFSET && s.off.checked_add(acc).is_none() {
            overflow = true;
        }
        let last_zero = d.recs.last().is_some_and(|r| r.res == Some(0));
        // A request the kernel failed: the future must fail with exactly that error, at once.
        let failed = d.recs.iter().position(|r| r.err.is_some());
        if let Some(at) = failed {
            let e = d.recs[at].err.unwrap();
            if at + 1 != d.recs.len() {
                self.fail(fut, "continued-after-error", format!("request {at} failed with errno {e} but the future issued another request"));
            }
            // `fallback` (op.rs) reports EINVAL as `Unsupported` ("update your kernel"), by design
            let want = if e == libc::EINVAL { "result err=Unsupported".to_string() } else { format!("result err=os{e}") };
            if lines.last() != Some(&want) {
                self.fail(fut, "kernel-error-not-reported", format!("request {at} failed with errno {e}; the future ended with `{}`", lines.last().cloned().unwrap_or_default()));
            }
            self.feats.push("kernel-error".into());
            if at >= 1 {
                self.feats.push("kernel-error-after-progress".into());
            }
        }
        match result {
            "ok" => {
                if acc < s.n {
                    self.fail(fut, "ok-before-n", format!("Ok after {acc} of n = {} bytes", s.n));
                }
                if last_zero {
                    self.fail(fut, "eof-not-reported", "Ok although the last read returned 0".into());
                }
                // old content, then the stream, in arrival order
                let got = contents.unwrap();
                let mut pos = 0usize;
                let mut ok = got.len() == s.bufs.len();
                if ok {
                    for (j, (c, b)) in got.iter().zip(&s.bufs).enumerate() {
                        let old = match b {
                            RElem::Vec { len, .. } => *len as usize,
                            RElem::Pool { .. } => 0,
                        };
                        if c.len() < old || (0..old).any(|p| c[p] != ibyte(j, p)) {
                            ok = false;
                            break;
                        }
                        for x in &c[old..] {
                            if *x != sbyte(pos) {
                                ok = false;
                            }
                            pos += 1;
                        }
                    }
                }
                if !ok || pos as u64 != acc {
                    self.fail(fut, "bytes-order", format!("the returned buffers do not hold their old content followed by the {acc} delivered bytes in arrival order"));
                }
            }
            "err" if failed.is_some() => {}
            "err" => {
                let eof = lines.last().is_some_and(|l| l == "result err=UnexpectedEof");
                if !(eof && last_zero) {
                    self.fail(fut, "spurious-error", format!("{} without the stream ending", lines.last().unwrap()));
                }
            }
            "pending" => {
                if last_zero {
                    self.fail(fut, "eof-not-reported", "still pending although the last read returned 0".into());
                }
                if d.ki < d.ks.len() && d.anomalies.is_empty() {
                    self.fail(fut, "stuck", "pending with no request in flight".into());
                }
            }
            _ => {
                if !overflow {
                    self.fail(fut, "panic", format!("panicked: {panic_msg}"));
                }
            }
        }
        for a in d.anomalies.drain(..) {
            self.fail(fut, "anomaly", a);
        }

        // features
        self.feats.push(format!("fut:{fut}"));
        self.feats.push(format!("result:{result}"));
        let conts = nrec.saturating_sub(1);
        if conts >= 1 {
            self.nontrivial = true;
            self.feats.push("continuations>=1".into());
        }
        if conts >= 3 {
            self.feats.push("continuations>=3".into());
        }
        if conts >= 8 {
            self.feats.push("continuations>=8".into());
        }
        if !pre {
            self.feats.push("n>capacity(precondition-off)".into());
        }
        if d.recs.iter().any(|r| r.res == Some(1)) && conts >= 2 {
            self.feats.push("one-byte-transfers".into());
        }
        if s.flags != 0 {
            self.feats.push("flags!=0".into());
            if conts >= 1 {
                self.feats.push("flags!=0+continuation".into());
            }
        }
        if s.off != NO_OFFSET {
            self.feats.push("positional".into());
            if conts >= 1 {
                self.feats.push("positional+continuation".into());
            }
        }
        let mut any_lim = s.outer.is_some();
        let mut any_full = false;
        for b in &s.bufs {
            match b {
                RElem::Pool { lim, .. } => {
                    self.feats.push("pool-buffer".into());
                    if conts >= 1 {
                        self.feats.push("pool-buffer+continuation".into());
                    }
                    any_lim |= lim.is_some();
                }
                RElem::Vec { len, cap, lim } => {
                    any_lim |= lim.is_some();
                    any_full |= len == cap && s.bufs.len() > 1;
                }
            }
        }
        if any_full {
            self.feats.push("full-buffer-in-slice".into());
        }
        if any_lim {
            self.feats.push("limited-buffer".into());
        }
        if s.tup {
            self.feats.push("tuple".into());
        }
        if s.bufs.len() > 1 && d.recs.iter().any(|r| r.iov.iter().filter(|v| v.0 > 0).count() > 1 && r.res.is_some_and(|x| x as usize > r.iov.iter().find(|v| v.0 > 0).unwrap().0)) {
            self.feats.push("read-spans-buffers".into());
        }
        lines
    }

    fn run_r(&mut self, s: &RSpec) -> Vec<String> {
        let single = s.fut == "read_n" || s.fut == "recv_n";
        macro_rules! go {
            ($bufs:expr, $bases:expr, $mk:expr) => {{
                let bufs = $bufs;
                let mut ring = self.ring.take().unwrap();
                let fd = self.fd.take().unwrap();
                let mut d = Drive::new(self.rfd, true, s.ks.clone(), s.err, $bases, s.zsel);
                let out = {
                    let mut fut = $mk(s, &fd, bufs);
                    let out = d.run(&mut ring, fut.as_mut());
                    drop(fut);
                    out
                };
                if matches!(out, Outcome::Pending) {
                    settle(&mut ring, self.rfd);
                }
                self.ring = Some(ring);
                self.fd = Some(fd);
                self.finish_r(s, d, out)
            }};
        }
        if single {
            match s.bufs[0].clone() {
                RElem::Vec { len, cap, lim } => {
                    let (b, base) = CompositeCase::build_relem(0, len, cap, lim);
                    return match b {
                        RB::V(v) => go!(v, vec![base], mk_r1),
                        RB::L(l) => go!(l, vec![base], mk_r1),
                    };
                }
                RElem::Pool { size, lim } => {
                    let sq = self.sq.clone().unwrap();
                    let pool = match ReadBufPool::new(sq, 2, size as u32) {
                        Ok(p) => p,
                        Err(e) => return vec![format!("pool-error {}", util::io_err_name(&e))],
                    };
                    let r = match lim {
                        None => go!(pool.get(), Vec::new(), mk_r1),
                        Some(m) => go!(LimitedBuf::new(pool.get(), m as usize), Vec::new(), mk_r1),
                    };
                    drop(pool);
                    let _ = simk::drain_events();
                    return r;
                }
            }
        }
        let mut elems = Vec::new();
        let mut bases = Vec::new();
        for (j, b) in s.bufs.iter().enumerate() {
            if let RElem::Vec { len, cap, lim } = b {
                let (b, base) = CompositeCase::build_relem(j, *len, *cap, *lim);
                elems.push(b);
                bases.push(base);
            }
        }
        macro_rules! arr {
            ($n:expr) => {{
                let a: [RB; $n] = match elems.try_into() {
                    Ok(a) => a,
                    Err(_) => unreachable!(),
                };
                match s.outer {
                    None => go!(a, bases, mk_rv::<_, $n>),
                    Some(l) => go!(LimitedBuf::new(a, l as usize), bases, mk_rv::<_, $n>),
                }
            }};
        }
        macro_rules! tupl {
            ($n:expr; $($i:tt),+) => {{
                let t = mk_tuple!(elems; $($i),+);
                match s.outer {
                    None => go!(t, bases, mk_rv::<_, $n>),
                    Some(l) => go!(LimitedBuf::new(t, l as usize), bases, mk_rv::<_, $n>),
                }
            }};
        }
        match (s.bufs.len(), s.tup) {
            (1, _) => arr!(1),
            (2, false) => arr!(2),
            (3, false) => arr!(3),
            (4, false) => arr!(4),
            (5, false) => arr!(5),
            (6, false) => arr!(6),
            (7, false) => arr!(7),
            (8, false) => arr!(8),
            (2, true) => tupl!(2; 0, 1),
            (3, true) => tupl!(3; 0, 1, 2),
            (4, true) => tupl!(4; 0, 1, 2, 3),
            (5, true) => tupl!(5; 0, 1, 2, 3, 4),
            (6, true) => tupl!(6; 0, 1, 2, 3, 4, 5),
            (7, true) => tupl!(7; 0, 1, 2, 3, 4, 5, 6),
            (8, true) => tupl!(8; 0, 1, 2, 3, 4, 5, 6, 7),
            _ => vec!["bad-op".into()],
        }
    }
}

type BoxFut<'a, T> = Pin<Box<dyn Future<Output = io::Result<T>> + 'a>>;

/// `write_all` / `send_all` with the builder calls the op asks for.
fn mk_w1<'a, B: Buf>(s: &WSpec, fd: &'a a10::AsyncFd, b: B) -> BoxFut<'a, Option<B>> {
    if s.fut == "write_all" {
        let f = if s.off == NO_OFFSET { fd.write_all(b) } else { fd.write_all(b).at(s.off) };
        if s.ext {
            let f = f.extract();
            Box::pin(async move { f.await.map(Some) })
        } else {
            Box::pin(async move { f.await.map(|()| None) })
        }
    } else {
        let mut f = fd.send_all(b).flags(send_flags(s.flags));
        if s.zc {
            f = f.zc();
        }
        if s.ext {
            let f = f.extract();
            Box::pin(async move { f.await.map(Some) })
        } else {
            Box::pin(async move { f.await.map(|()| None) })
        }
    }
}

fn mk_wv<'a, B: BufSlice<N>, const N: usize>(s: &WSpec, fd: &'a a10::AsyncFd, b: B) -> BoxFut<'a, Option<B>> {
    if s.fut == "write_all_vectored" {
        let f = fd.write_all_vectored(b);
        let f = if s.off == NO_OFFSET { f } else { f.at(s.off) };
        if s.ext {
            let f = f.extract();
            Box::pin(async move { f.await.map(Some) })
        } else {
            Box::pin(async move { f.await.map(|()| None) })
        }
    } else {
        let mut f = fd.send_all_vectored(b).flags(send_flags(s.flags));
        if s.zc {
            f = f.zc();
        }
        if s.ext {
            let f = f.extract();
            Box::pin(async move { f.await.map(Some) })
        } else {
            Box::pin(async move { f.await.map(|()| None) })
        }
    }
}

fn mk_r1<'a, B: BufMut>(s: &RSpec, fd: &'a a10::AsyncFd, b: B) -> BoxFut<'a, B> {
    if s.fut == "read_n" {
        let f = fd.read_n(b, s.n as usize);
        Box::pin(if s.off == NO_OFFSET { f } else { f.from(s.off) })
    } else {
        Box::pin(fd.recv_n(b, s.n as usize).flags(recv_flags(s.flags)))
    }
}

fn mk_rv<'a, B: BufMutSlice<N>, const N: usize>(s: &RSpec, fd: &'a a10::AsyncFd, b: B) -> BoxFut<'a, B> {
    if s.fut == "read_n_vectored" {
        let f = fd.read_n_vectored(b, s.n as usize);
        Box::pin(if s.off == NO_OFFSET { f } else { f.from(s.off) })
    } else {
        Box::pin(fd.recv_n_vectored(b, s.n as usize).flags(recv_flags(s.flags)))
    }
}

// ---------------------------------------------------------------------------
// Generator

const SEND_BITS: [u32; 6] = [0x800, 0x4, 0x80, 0x8000, 0x1, 0x2000_0000];
const RECV_BITS: [u32; 5] = [0x4000_0000, 0x2000, 0x1, 0x2, 0x100];

fn gen_flags(rng: &mut Rng, bits: &[u32]) -> u32 {
    if rng.chance(1, 3) {
        return 0;
    }
    let mut f = 0;
    for b in bits {
        if rng.chance(1, 3) {
            f |= b;
        }
    }
    if f == 0 { *rng.pick(bits) } else { f }
}

fn gen_off(rng: &mut Rng) -> String {
    match rng.weighted(&[10, 6, 3, 2, 1]) {
        0 => "-".into(),
        1 => rng.below(4096).to_string(),
        2 => (rng.next() >> 1).to_string(),
        3 => ((1u64 << 32) - rng.below(40)).to_string(),
        // close to u64::MAX: the offset arithmetic overflows (out of the property's domain)
        _ => (u64::MAX - 1 - rng.below(40)).to_string(),
    }
}

/// A transfer script for `total` bytes whose buffer boundaries are at `bounds`.
fn gen_script(rng: &mut Rng, total: u64, bounds: &[u64]) -> Vec<u64> {
    let mut ks = Vec::new();
    let mode = rng.weighted(&[3, 3, 3, 2, 2]);
    let mut done = 0u64;
    let mut guard = 0;
    while done < total && guard < 64 {
        guard += 1;
        let left = total - done;
        let k = match mode {
            0 => 1,
            1 => {
                // up to the next buffer boundary (sometimes one byte short/over)
                let nb = bounds.iter().copied().find(|b| *b > done).unwrap_or(total);
                let k = nb - done;
                match rng.below(6) {
                    0 if k > 1 => k - 1,
                    1 => k + 1,
                    _ => k,
                }
            }
            2 => rng.range(1, left.min(9)),
            3 => rng.range(1, left),
            _ => {
                if rng.chance(1, 2) { 1 } else { rng.range(1, left.min(40)) }
            }
        };
        let k = k.max(1);
        ks.push(k);
        done += k.min(left);
    }
    ks
}

/// One in four scripts ends with a kernel error for the request that is then outstanding.
fn gen_err(rng: &mut Rng) -> String {
    if !rng.chance(1, 4) {
        return "-".into();
    }
    let e = *rng.pick(&[libc::EIO, libc::EPIPE, libc::ECONNRESET, libc::ENOSPC, libc::EAGAIN, libc::EBADF, libc::EFAULT, libc::ENOBUFS, libc::EINVAL, libc::ENOTCONN]);
    if rng.chance(1, 2) { format!("{e}+") } else { format!("{e}") }
}

fn fmt_list(ks: &[u64]) -> String {
    if ks.is_empty() { "-".into() } else { ks.iter().map(|k| k.to_string()).collect::<Vec<_>>().join(",") }
}

/// Finish a script: inject a zero, cut it short, or make sure it completes.
fn finish_script(rng: &mut Rng, mut ks: Vec<u64>) -> Vec<u64> {
    match rng.weighted(&[12, 3, 2, 1]) {
        0 => ks.push(u32::MAX as u64), // whatever is left in one go
        1 => {
            let at = rng.below(ks.len() as u64 + 1) as usize;
            ks.insert(at, 0);
        }
        2 => {
            let keep = rng.below(ks.len() as u64 + 1) as usize;
            ks.truncate(keep);
        }
        _ => {
            // the kernel "offers" more than asked: must be clipped
            ks.push(u64::MAX >> rng.below(33));
        }
    }
    ks
}

fn gen_w(rng: &mut Rng) -> String {
    let fut = *rng.pick(&["write_all", "write_all_vectored", "send_all", "send_all_vectored"]);
    let single = fut == "write_all" || fut == "send_all";
    let n = if single { 1 } else { rng.range(1, 8) as usize };
    let mut lens: Vec<u64> = loop {
        let mut v: Vec<u64> = (0..n)
            .map(|_| match rng.weighted(&[30, 80, 10, 1]) {
                0 => 0,
                1 => rng.range(1, 64),
                2 => rng.range(65, 3000),
                _ => rng.range(1 << 16, MAX_LEN),
            })
            .collect();
        if n > 1 {
            // forced empties in every position
            match rng.below(6) {
                0 => *v.last_mut().unwrap() = 0,
                1 => v[0] = 0,
                2 => {
                    let i = rng.below(n as u64) as usize;
                    v[i] = 0;
                }
                _ => {}
            }
        }
        if v.iter().sum::<u64>() > 0 || rng.chance(1, 12) {
            break v;
        }
    };
    if n > 1 && rng.chance(1, 10) {
        // only the first / only one buffer non-empty
        let keep = rng.below(n as u64) as usize;
        for (i, l) in lens.iter_mut().enumerate() {
            if i != keep {
                *l = 0;
            }
        }
        if lens[keep] == 0 {
            lens[keep] = rng.range(1, 20);
        }
    }
    let lims: Vec<Option<u64>> = lens.iter().map(|l| if rng.chance(1, 10) { Some(rng.range(0, l + 2)) } else { None }).collect();
    let eff: Vec<u64> = lens.iter().zip(&lims).map(|(l, m)| m.map_or(*l, |m| m.min(*l))).collect();
    let sum: u64 = eff.iter().sum();
    let outer = if !single && rng.chance(1, 8) { Some(rng.range(0, sum + 3)) } else { None };
    let total = outer.map_or(sum, |o| o.min(sum));
    let mut bounds = Vec::new();
    let mut t = 0;
    for e in &eff {
        t += e;
        bounds.push(t.min(total));
    }
    let ks = gen_script(rng, total, &bounds);
    let ks = finish_script(rng, ks);
    let err = gen_err(rng);
    let file = fut.starts_with("write");
    let off = if file { gen_off(rng) } else { "-".into() };
    let flags = if file { 0 } else { gen_flags(rng, &SEND_BITS) };
    let zc = !file && rng.chance(1, 3);
    let ext = rng.chance(1, 2);
    let shape = if single { "one" } else if n >= 2 && rng.chance(1, 2) { "tup" } else { "arr" };
    let bufs: Vec<String> = lens.iter().zip(&lims).map(|(l, m)| match m { Some(m) => format!("{l}/{m}"), None => l.to_string() }).collect();
    format!(
        "composite w fut={fut} shape={shape} bufs={} outer={} off={off} flags={flags} zc={} ext={} ks={} err={}",
        bufs.join(","),
        outer.map_or("-".into(), |o| o.to_string()),
        zc as u8,
        ext as u8,
        fmt_list(&ks),
        err
    )
}

fn gen_r(rng: &mut Rng) -> String {
    let fut = *rng.pick(&["read_n", "read_n_vectored", "recv_n", "recv_n_vectored"]);
    let single = fut == "read_n" || fut == "recv_n";
    let nb = if single { 1 } else { rng.range(1, 8) as usize };
    let mut elems: Vec<String> = Vec::new();
    let mut spares: Vec<u64> = Vec::new();
    if single && rng.chance(1, 4) {
        let size = *rng.pick(&[1u64, 2, 8, 16, 64, 256]);
        if rng.chance(1, 10) {
            elems.push(format!("pool/{size}/{}", rng.range(0, size + 2)));
            spares.push(0);
        } else {
            elems.push(format!("pool/{size}"));
            spares.push(size);
        }
    } else {
        for _ in 0..nb {
            let len = if rng.chance(1, 2) { 0 } else { rng.range(1, 16) };
            let spare = match rng.weighted(&[if nb > 1 { 30 } else { 10 }, 80, 10, 1]) {
                0 => 0,
                1 => rng.range(1, 64),
                2 => rng.range(65, 2000),
                _ => rng.range(1 << 16, MAX_LEN - 16),
            };
            if rng.chance(1, 8) {
                let m = rng.range(0, spare + 2);
                elems.push(format!("{len}/{}/{m}", len + spare));
                spares.push(m.min(spare));
            } else {
                elems.push(format!("{len}/{}", len + spare));
                spares.push(spare);
            }
        }
    }
    let sum: u64 = spares.iter().sum();
    let outer = if !single && rng.chance(1, 8) { Some(rng.range(0, sum + 3)) } else { None };
    let cap = outer.map_or(sum, |o| o.min(sum));
    let n = match rng.weighted(&[8, 3, 2, 1, 1]) {
        0 => rng.range(1, cap.max(1)),
        1 => cap.max(1),
        2 => 1,
        3 => cap + rng.range(1, 5), // more than fits: outside the property
        _ => rng.range(0, 1),
    };
    let mut bounds = Vec::new();
    let mut t = 0;
    for e in &spares {
        t += e;
        bounds.push(t.min(cap));
    }
    // scripts deliver up to the capacity (not only n): reads may overshoot n
    let upto = if rng.chance(1, 2) { n.min(cap) } else { cap };
    let ks = gen_script(rng, upto, &bounds);
    let ks = finish_script(rng, ks);
    let err = gen_err(rng);
    let file = fut.starts_with("read");
    let off = if file { gen_off(rng) } else { "-".into() };
    let flags = if file { 0 } else { gen_flags(rng, &RECV_BITS) };
    let shape = if single { "one" } else if nb >= 2 && rng.chance(1, 2) { "tup" } else { "arr" };
    format!(
        "composite r fut={fut} shape={shape} bufs={} outer={} n={n} off={off} flags={flags} zsel={} ks={} err={}",
        elems.join(","),
        outer.map_or("-".into(), |o| o.to_string()),
        rng.chance(1, 2) as u8,
        fmt_list(&ks),
        err
    )
}

/// The malformed stream: ops neither side may accept.
/// A writing future over a buffer of 2^32 + k bytes.
fn gen_whuge(rng: &mut Rng) -> String {
    let fut = *rng.pick(&["write_all", "write_all_vectored", "send_all", "send_all_vectored"]);
    let single = fut == "write_all" || fut == "send_all";
    let k = match rng.below(4) {
        0 => 0,
        1 => 1,
        _ => rng.range(2, 300),
    };
    let t = if single { 0 } else { rng.range(0, 40) };
    let seen = k + t;
    let ks = if seen == 0 || rng.chance(1, 2) { vec![u32::MAX as u64] } else {
        let base = gen_script(rng, seen, &[k]);
        finish_script(rng, base)
    };
    format!("composite whuge fut={fut} extra={k} tail={t} ks={}", fmt_list(&ks))
}

/// A vectored writing future whose buffers total more than 4 GiB (each below 2 GiB), answered with
/// gigabyte-sized short transfers so that the continuation state crosses 2^32.
fn gen_wbig(rng: &mut Rng) -> String {
    let fut = *rng.pick(&["write_all_vectored", "send_all_vectored"]);
    let n = rng.range(3, 4);
    let size: u64 = *rng.pick(&[1_500_000_000u64, (1 << 31) - 1, 1_200_000_001]);
    let total = n * size;
    let mut ks = Vec::new();
    let mut left = total;
    while left > 0 && ks.len() < 12 {
        let k = match rng.below(3) {
            0 => left.min(i32::MAX as u64),
            1 => rng.range(1, left.min(1 << 30)),
            _ => left.min(size - rng.below(3)),
        };
        ks.push(k);
        left -= k.min(left).min(i32::MAX as u64);
    }
    if left > 0 {
        ks.push(u32::MAX as u64);
        ks.push(u32::MAX as u64);
        ks.push(u32::MAX as u64);
    }
    format!("composite wbig fut={fut} n={n} size={size} ks={}", fmt_list(&ks))
}

fn gen_bad(rng: &mut Rng) -> String {
    let good = if rng.chance(1, 2) { gen_w(rng) } else { gen_r(rng) };
    let toks: Vec<&str> = good.split(' ').collect();
    match rng.below(7) {
        0 => "composite q".into(),
        1 => {
            // drop one key
            let i = rng.range(2, toks.len() as u64 - 1) as usize;
            toks.iter().enumerate().filter(|(j, _)| *j != i).map(|(_, t)| *t).collect::<Vec<_>>().join(" ")
        }
        2 => good.replace("fut=", "fut=x"),
        3 => good.replace("ks=", "ks=x"),
        4 => good.replace("shape=one", "shape=tup").replace("shape=arr", "shape=one"),
        5 => good.replace("bufs=", "bufs=1/2/3/4,"),
        _ => {
            // a file future with socket options or the other way round
            if good.contains("fut=write") || good.contains("fut=read") {
                good.replace("flags=0", "flags=64")
            } else {
                good.replace("off=-", "off=12")
            }
        }
    }
}

impl Case for CompositeCase {
    fn next_op(&mut self, rng: &mut Rng) -> Option<String> {
        if self.left == 0 {
            return None;
        }
        self.left -= 1;
        Some(match rng.weighted(&[64, 64, 4, 2, 1]) {
            0 => gen_w(rng),
            1 => gen_r(rng),
            2 => gen_bad(rng),
            3 => gen_whuge(rng),
            _ => gen_wbig(rng),
        })
    }

    fn exec(&mut self, op: &str) -> Vec<String> {
        let toks: Vec<&str> = op.split(' ').collect();
        match toks.as_slice() {
            ["composite", "wbig", rest @ ..] => match self.run_wbig(rest) {
                Some(l) => l,
                None => {
                    self.feats.push("bad-op".into());
                    vec!["bad-op".into()]
                }
            },
            ["composite", "whuge", rest @ ..] => match self.run_whuge(rest) {
                Some(l) => l,
                None => {
                    self.feats.push("bad-op".into());
                    vec!["bad-op".into()]
                }
            },
            ["composite", "w", rest @ ..] => match parse_w(rest) {
                Some(s) => self.run_w(&s),
                None => {
                    self.feats.push("bad-op".into());
                    vec!["bad-op".into()]
                }
            },
            ["composite", "r", rest @ ..] => match parse_r(rest) {
                Some(s) => self.run_r(&s),
                None => {
                    self.feats.push("bad-op".into());
                    vec!["bad-op".into()]
                }
            },
            _ => {
                self.feats.push("bad-op".into());
                vec!["bad-op".into()]
            }
        }
    }

    fn drain_oracle(&mut self) -> Vec<(String, String, String)> {
        std::mem::take(&mut self.oracle)
    }

    fn finish(&mut self) -> CaseReport {
        drop(self.fd.take());
        if let Some(mut ring) = self.ring.take() {
            let _ = ring.poll(Some(Duration::ZERO));
            drop(ring);
        }
        drop(self.sq.take());
        simk::reset();
        CaseReport {
            oracle: Vec::new(),
            features: std::mem::take(&mut self.feats),
            nontrivial: self.nontrivial,
        }
    }
}

impl Comp for CompositeComp {
    fn name(&self) -> &'static str {
        "composite"
    }
    fn rule(&self) -> String {
        "each case = 6 ops on one ring; an op runs one of the eight futures (uniform) to completion against the simulated kernel: 1..8 buffers (arrays and tuples of Vec/Box/Arc/LimitedBuf elements, optional outer LimitedBuf, pool ReadBuf for single reads), lengths 0..64 (1/12: up to 3000, 1/120: 2^16..2^20) with forced empty buffers in first/middle/last position, offsets none/small/2^32/2^63/near 2^64, random flag sets, zero-copy, extract; scripts of 1-byte, buffer-boundary-aligned (±1), small, arbitrary and mixed transfer counts, ended by 'everything', an injected 0, a cut (future left pending) or an over-large count; ~3% malformed ops. A case is non-trivial if at least one future needed a continuation request; distinct = distinct op scripts".into()
    }
    fn gen_header(&mut self, _rng: &mut Rng, id: u64, _tier: &str) -> String {
        format!("composite begin {id}")
    }
    fn begin(&mut self, _header: &str) -> Box<dyn Case> {
        simk::reset();
        simk::activate(simk::SetupCfg::default());
        let ring = a10::Ring::config().with_submission_queue_size(8).build().expect("ring");
        let sq = ring.sq();
        let rfd = simk::with_sim(|s| *s.rings.keys().next().unwrap());
        let fd = unsafe { a10::AsyncFd::from_raw_fd(simk::with_ring(rfd, |r, _| r.fresh_fd()), sq.clone()) };
        let _ = simk::drain_events();
        Box::new(CompositeCase {
            ring: Some(ring),
            fd: Some(fd),
            sq: Some(sq),
            rfd,
            left: 6,
            feats: Vec::new(),
            oracle: Vec::new(),
            nontrivial: false,
        })
    }
}
