//! C11: `SubmissionQueue::wake` never loses a wake-up.
//!
//! One poller (`Ring::poll`, a fresh scheduled worker per call) and several
//! wakers (`SubmissionQueue::wake`, a worker per call) interleaved at the
//! points where they touch the polling word, enter the simulated kernel
//! (which really blocks a `poll(None)` until a completion exists) or reload
//! the completion-queue tail; default, SQPOLL and single-issuer rings.

use std::sync::{Arc, Mutex};
use std::time::Duration;

use a10::{Ring, SubmissionQueue};

use crate::comp::{Case, CaseReport, Comp};
use crate::sched::{self, Status};
use crate::simk::{self, Cqe};
use crate::util::{self, lockp, Rng};

pub struct WakeComp;

struct Worker {
    tid: usize,
    /// number of RMW_POLLING hooks this call has been parked at
    rmws: u32,
    reloaded: bool,
    done: bool,
    label: String,
}

struct WakeCase {
    ring: Arc<Mutex<Option<Ring>>>,
    sq: Option<SubmissionQueue>,
    rfd: i32,
    mode: String,
    ok: bool,
    poller: Option<Worker>,
    wakers: Vec<Worker>,
    word_addr: Option<usize>,
    returns: u64,
    steps_left: u32,
    /// ghost for the oracle: a wake() passed its fetch_or since the poller last returned
    oblig: bool,
    oracle: Vec<(String, String, String)>,
    feats: Vec<String>,
    sq_len: u32,
    cq_len: u32,
    fill_fd: Option<&'static a10::AsyncFd>,
    fills: Vec<std::pin::Pin<Box<dyn std::future::Future<Output = std::io::Result<Vec<u8>>>>>>,
}

impl WakeCase {
    fn new(header: &str) -> WakeCase {
        let t: Vec<&str> = header.split(' ').collect();
        let get = |k: &str| -> Option<&str> { t.iter().find_map(|x| x.strip_prefix(&format!("{k}="))) };
        let mode = get("mode").unwrap_or("").to_string();
        let sqn: u32 = get("sq").and_then(|v| v.parse().ok()).unwrap_or(0);
        let steps: u32 = get("steps").and_then(|v| v.parse().ok()).unwrap_or(40);
        // `cq=`: completion queue size (default 64): a power of two, at least the submission queue's
        let cqn: u32 = get("cq").and_then(|v| v.parse().ok()).unwrap_or(64);
        let ok = matches!(mode.as_str(), "default" | "sqpoll" | "single") && sqn.is_power_of_two() && sqn <= 64 && cqn.is_power_of_two() && cqn >= sqn && cqn <= 64;
        simk::reset();
        let mut c = WakeCase {
            ring: Arc::new(Mutex::new(None)),
            sq: None,
            rfd: -1,
            mode: mode.clone(),
            ok,
            poller: None,
            wakers: Vec::new(),
            word_addr: None,
            returns: 0,
            steps_left: steps,
            oblig: false,
            oracle: Vec::new(),
            feats: Vec::new(),
            sq_len: sqn,
            cq_len: cqn,
            fill_fd: None,
            fills: Vec::new(),
        };
        if !ok {
            return c;
        }
        simk::activate(simk::SetupCfg::default());
        let mut cfg = Ring::config().with_submission_queue_size(sqn).with_completion_queue_size(cqn);
        match mode.as_str() {
            "sqpoll" => cfg = cfg.with_kernel_thread(),
            "single" => cfg = cfg.single_issuer(),
            _ => {}
        }
        let ring = cfg.build().expect("ring");
        c.sq = Some(ring.sq());
        c.rfd = simk::with_sim(|s| *s.rings.keys().next().unwrap());
        *lockp(&c.ring) = Some(ring);
        sched::install();
        simk::drain_events();
        c
    }

    fn word(&self) -> u8 {
        match self.word_addr {
            Some(a) => unsafe { std::ptr::read_volatile(a as *const u8) },
            None => 0,
        }
    }

    /// (completions available: in the queue + on the overflow list, published submissions)
    fn counts(&self) -> (usize, u32) {
        simk::with_ring(self.rfd, |r, _| (r.cq_count() as usize + r.overflow.len(), r.sq_pending()))
    }

    fn state(&self) -> String {
        let (cq, ovf, sq) = simk::with_ring(self.rfd, |r, _| (r.cq_count(), r.overflow.len(), r.sq_pending()));
        format!("word={} cq={cq} ovf={ovf} sq={sq} returns={}", self.word(), self.returns)
    }

    /// Resume `w` until it is parked at a point of interest or done.
    fn advance(&mut self, w: &mut Worker, is_poller: bool) {
        if w.done {
            return;
        }
        let mut st = sched::step(w.tid);
        loop {
            match st {
                Status::Done(ref r) => {
                    w.done = true;
                    w.label = if r == "panic" { "panic".into() } else { "done".into() };
                    return;
                }
                Status::Parked(kind, addr) => {
                    if self.classify(w, is_poller, kind, addr) {
                        return;
                    }
                    st = sched::step(w.tid);
                }
                Status::New => return,
            }
        }
    }

    /// Is the worker parked at a point of interest? Sets its label.
    fn classify(&mut self, w: &mut Worker, is_poller: bool, kind: u32, addr: usize) -> bool {
        match kind {
            sched::RMW_POLLING => {
                self.word_addr = Some(addr);
                w.rmws += 1;
                w.label = if is_poller {
                    if w.rmws == 1 { "at-set-polling".into() } else { "at-clear-polling".into() }
                } else {
                    "at-fetch-or".into()
                };
                true
            }
            sched::SYS => {
                if addr == 2 {
                    w.label = "at-register".into();
                } else {
                    let n = if self.mode == "sqpoll" { 0 } else { self.counts().1 };
                    w.label = format!("at-enter/{n}");
                }
                true
            }
            sched::SYS_BLOCKED => {
                w.label = "blocked".into();
                true
            }
            sched::LOAD_SHARED if is_poller && w.rmws >= 2 && !w.reloaded => {
                w.reloaded = true;
                w.label = "at-reload".into();
                true
            }
            _ => false,
        }
    }

    fn spawn_poller(&mut self, inf: bool) {
        let ring = self.ring.clone();
        let tid = sched::spawn(move || {
            let mut r = lockp(&ring).take().expect("ring in use");
            let res = r.poll(if inf { None } else { Some(Duration::from_millis(5)) });
            *lockp(&ring) = Some(r);
            match res {
                Ok(()) => String::new(),
                Err(e) => format!("err {e}"),
            }
        });
        let mut w = Worker { tid, rmws: 0, reloaded: false, done: false, label: "start".into() };
        // parked at the first hook (load of the completion queue head) unless it already ended
        if let Some(Status::Done(_)) = sched::status(tid) {
            w.done = true;
        }
        self.poller = Some(w);
    }

    fn spawn_waker(&mut self, j: usize) {
        let sq = self.sq.as_ref().unwrap().clone();
        let tid = sched::spawn(move || {
            sq.wake();
            String::new()
        });
        let mut w = Worker { tid, rmws: 0, reloaded: false, done: false, label: "at-fetch-or".into() };
        match sched::status(tid) {
            Some(Status::Parked(kind, addr)) => {
                if kind == sched::RMW_POLLING {
                    self.word_addr = Some(addr);
                    w.rmws = 1;
                } else {
                    w.label = format!("at-hook{kind}");
                }
            }
            Some(Status::Done(_)) => {
                w.done = true;
                w.label = "done".into();
            }
            _ => {}
        }
        if j == self.wakers.len() {
            self.wakers.push(w);
        } else {
            self.wakers[j] = w;
        }
    }

    fn poller_returned(&mut self) {
        // a signal that found nobody waiting is gone
        simk::with_ring(self.rfd, |r, _| r.intr_next_wait = false);
        self.returns += 1;
        self.oblig = false;
        self.poller = None;
    }

    /// C11 oracle: the poller must not be blocked for good after a wake.
    fn check_lost(&mut self) {
        let Some(p) = &self.poller else { return };
        if p.label != "blocked" || !self.oblig {
            return;
        }
        let (cq, sq) = self.counts();
        let wakers_done = self.wakers.iter().all(|w| w.done);
        let kernel_idle = if self.mode == "sqpoll" { sq == 0 } else { true };
        if cq == 0 && wakers_done && kernel_idle {
            let mode = self.mode.clone();
            self.oracle.push(("C11".into(), format!("C11/lost-wakeup/{mode}"), "Ring::poll(None) is blocked in the kernel with nothing that can wake it, although a wake() call completed after the previous poll returned".into()));
        }
    }
}

impl Case for WakeCase {
    fn begin_output(&mut self) -> Vec<String> {
        if !self.ok {
            return vec!["bad-op".into()];
        }
        vec![self.state()]
    }

    fn next_op(&mut self, rng: &mut Rng) -> Option<String> {
        if !self.ok || self.steps_left == 0 {
            return None;
        }
        self.steps_left -= 1;
        let running: Vec<usize> = (0..self.wakers.len()).filter(|j| !self.wakers[*j].done).collect();
        let idle: Vec<usize> = (0..self.wakers.len()).filter(|j| self.wakers[*j].done).collect();
        let w_poll = if self.poller.is_none() { 6 } else { 0 };
        let w_p = if self.poller.is_some() { 8 } else { 0 };
        let w_call = if self.wakers.len() < 3 || !idle.is_empty() { 4 } else { 0 };
        let w_w = if running.is_empty() { 0 } else { 8 };
        let w_k = if self.mode == "sqpoll" { 3 } else { 0 };
        // unrelated completions: rare with the large queue, frequent with a small one (fill it up)
        let w_io = if self.cq_len <= 8 { 3 } else if rng.chance(1, 12) { 1 } else { 0 };
        if rng.chance(1, 8) {
            return Some("wake fill".into());
        }
        let w_bad = if rng.chance(1, 40) { 1 } else { 0 };
        match rng.weighted(&[w_poll, w_p, w_call, w_w, w_k, w_io, w_bad]) {
            0 if rng.chance(1, 6) => Some("wake polli".into()),
            0 => Some(format!("wake poll {}", if rng.chance(4, 5) { 1 } else { 0 })),
            1 => Some("wake p".into()),
            2 => {
                let j = if !idle.is_empty() && (self.wakers.len() >= 3 || rng.chance(1, 2)) { *rng.pick(&idle) } else { self.wakers.len() };
                Some(format!("wake call {j}"))
            }
            3 => Some(format!("wake w {}", rng.pick(&running))),
            4 => Some("wake k".into()),
            5 => Some("wake io".into()),
            _ => Some(match rng.below(3) {
                0 => "wake p".to_string(),
                1 => format!("wake w {}", self.wakers.len() + 1),
                _ => "wake poll 1".to_string(),
            }),
        }
    }

    fn exec(&mut self, op: &str) -> Vec<String> {
        if !self.ok {
            return vec!["bad-op".into()];
        }
        let t: Vec<&str> = op.split(' ').collect();
        let out = match t.as_slice() {
            ["wake", "poll", inf @ ("0" | "1")] => {
                if self.poller.is_some() {
                    return vec!["bad-op".into()];
                }
                self.spawn_poller(*inf == "1");
                if self.poller.as_ref().unwrap().done {
                    self.poller_returned();
                    format!("p idle {}", self.state())
                } else {
                    format!("p start {}", self.state())
                }
            }
            // a `Ring::poll(None)` during which a signal arrives: its wait in the kernel, if it
            // comes to one, ends with EINTR
            ["wake", "polli"] => {
                if self.poller.is_some() {
                    return vec!["bad-op".into()];
                }
                simk::with_ring(self.rfd, |r, _| r.intr_next_wait = true);
                self.feats.push("poll-interrupted".into());
                self.spawn_poller(true);
                if self.poller.as_ref().unwrap().done {
                    self.poller_returned();
                    format!("p idle {}", self.state())
                } else {
                    format!("p start {}", self.state())
                }
            }
            ["wake", "p"] => {
                let Some(mut p) = self.poller.take() else { return vec!["bad-op".into()] };
                let was_blocked = p.label == "blocked";
                self.advance(&mut p, true);
                let label = if p.done { if p.label == "panic" { "panic".to_string() } else { "idle".to_string() } } else { p.label.clone() };
                if p.label == "blocked" {
                    self.feats.push("poller-blocked".into());
                    if was_blocked {
                        self.feats.push("blocked-stutter".into());
                    }
                }
                let done = p.done;
                self.poller = Some(p);
                if done {
                    self.poller_returned();
                }
                format!("p {label} {}", self.state())
            }
            ["wake", "call", j] => {
                let Ok(j) = j.parse::<usize>() else { return vec!["bad-op".into()] };
                if j > self.wakers.len() || (j < self.wakers.len() && !self.wakers[j].done) {
                    return vec!["bad-op".into()];
                }
                self.spawn_waker(j);
                format!("w{j} {} {}", self.wakers[j].label, self.state())
            }
            ["wake", "w", j] => {
                let Ok(j) = j.parse::<usize>() else { return vec!["bad-op".into()] };
                if j >= self.wakers.len() || self.wakers[j].done {
                    return vec!["bad-op".into()];
                }
                let mut w = std::mem::replace(&mut self.wakers[j], Worker { tid: 0, rmws: 0, reloaded: false, done: true, label: String::new() });
                if w.label == "at-fetch-or" {
                    self.oblig = true;
                    if self.poller.as_ref().is_some_and(|p| p.label == "blocked") {
                        self.feats.push("wake-while-blocked".into());
                    }
                    if self.poller.as_ref().is_some_and(|p| p.label.starts_with("at-enter")) {
                        self.feats.push("wake-between-announce-and-enter".into());
                    }
                    if self.poller.as_ref().is_some_and(|p| p.label == "at-reload" || p.label == "at-clear-polling") {
                        self.feats.push("wake-while-leaving".into());
                    }
                }
                self.advance(&mut w, false);
                let label = w.label.clone();
                self.wakers[j] = w;
                format!("w{j} {label} {}", self.state())
            }
            ["wake", "k"] => {
                if self.mode == "sqpoll" {
                    // the kernel thread consumes the submissions (wake messages are
                    // delivered to the target ring at once)
                    let msgs: Vec<(i32, u64, u32, u64)> = simk::with_ring(self.rfd, |r, ev| {
                        let n = r.sq_pending();
                        r.consume(n, ev);
                        let mut v = Vec::new();
                        let mut i = 0;
                        while i < r.inflight.len() {
                            if r.inflight[i].sqe.opcode == simk::OP_MSG_RING {
                                let s = r.inflight.remove(i).sqe;
                                v.push((s.fd, s.off, s.len, s.user_data));
                            } else {
                                i += 1;
                            }
                        }
                        v
                    });
                    for (tfd, ud, len, own) in msgs {
                        // the message on the target ring, then the MSG_RING submission's own
                        // completion on the source ring (KC7)
                        simk::with_ring(tfd, |r, ev| r.post_raw(None, Cqe { user_data: ud, res: len as i32, flags: 0 }, ev));
                        simk::with_ring(self.rfd, |r, ev| r.post_raw(None, Cqe { user_data: own, res: 0, flags: 0 }, ev));
                    }
                }
                format!("k {}", self.state())
            }
            ["wake", "fill"] => {
                // somebody starts an operation: queued, not submitted (it never completes)
                let (_, sq) = self.counts();
                if sq < self.sq_len {
                    let fd = self.fill_fd.get_or_insert_with(|| {
                        let raw = simk::with_ring(self.rfd, |r, _| r.fresh_fd());
                        Box::leak(Box::new(unsafe { a10::AsyncFd::from_raw_fd(raw, self.sq.as_ref().unwrap().clone()) }))
                    });
                    let fd: &'static a10::AsyncFd = fd;
                    let mut f: std::pin::Pin<Box<dyn std::future::Future<Output = std::io::Result<Vec<u8>>>>> = Box::pin(fd.read(Vec::with_capacity(8)));
                    let w = util::waker(777);
                    let mut cx = std::task::Context::from_waker(&w);
                    sched::uninstall();
                    let _ = f.as_mut().poll(&mut cx);
                    sched::install_keep();
                    self.fills.push(f);
                    self.feats.push("filler".into());
                }
                format!("fill {}", self.state())
            }
            ["wake", "io"] => {
                simk::with_ring(self.rfd, |r, ev| r.post_raw(None, Cqe { user_data: 0, res: 0, flags: 0 }, ev));
                format!("io {}", self.state())
            }
            _ => return vec!["bad-op".into()],
        };
        let (cqc, ovf) = simk::with_ring(self.rfd, |r, _| (r.cq_count(), r.overflow.len()));
        if cqc == self.cq_len && self.oblig {
            self.feats.push("cq-exactly-full-after-wake".into());
        }
        if ovf > 0 {
            self.feats.push("cq-overflow".into());
        }
        self.check_lost();
        simk::drain_events();
        vec![out]
    }

    fn drain_oracle(&mut self) -> Vec<(String, String, String)> {
        std::mem::take(&mut self.oracle)
    }

    fn finish(&mut self) -> CaseReport {
        if !self.ok {
            return CaseReport::default();
        }
        // Let every wake() call finish, let the kernel thread run, then the
        // poller must be able to return.
        for _ in 0..200 {
            let mut progressed = false;
            for j in 0..self.wakers.len() {
                if !self.wakers[j].done {
                    let mut w = std::mem::replace(&mut self.wakers[j], Worker { tid: 0, rmws: 0, reloaded: false, done: true, label: String::new() });
                    if w.label == "at-fetch-or" {
                        self.oblig = true;
                    }
                    self.advance(&mut w, false);
                    self.wakers[j] = w;
                    progressed = true;
                }
            }
            if !progressed {
                break;
            }
            if self.mode == "sqpoll" {
                // the kernel thread keeps running: a waker in the QueueFull retry loop needs it
                self.exec("wake k");
            }
        }
        if self.mode == "sqpoll" {
            self.exec("wake k");
        }
        for _ in 0..50 {
            let Some(mut p) = self.poller.take() else { break };
            self.advance(&mut p, true);
            let done = p.done;
            let blocked = p.label == "blocked";
            self.poller = Some(p);
            if done {
                self.poller_returned();
                break;
            }
            if blocked {
                self.check_lost();
                // legitimately blocked (or a violation was just reported): let some I/O complete
                simk::with_ring(self.rfd, |r, ev| r.post_raw(None, Cqe { user_data: 0, res: 0, flags: 0 }, ev));
            }
        }
        let stuck = sched::finish_all();
        if !stuck.is_empty() && std::env::var_os("A10H_DEBUG").is_some() {
            for t in &stuck {
                eprintln!("stuck tid {t}: {:?}; poller={:?} wakers={:?} state={}", sched::status(*t), self.poller.as_ref().map(|p| (p.tid, p.label.clone())), self.wakers.iter().map(|w| (w.tid, w.label.clone(), w.done)).collect::<Vec<_>>(), self.state());
            }
        }
        if !stuck.is_empty() {
            self.oracle.push(("C11".into(), "C11/call-never-returns".into(), format!("{} thread(s) inside SubmissionQueue::wake / Ring::poll did not return within 100000 scheduling steps after the script ended (every other thread had finished, the kernel thread had run and a completion had been posted)", stuck.len())));
        }
        sched::uninstall();
        self.fills.clear();
        drop(lockp(&self.ring).take());
        if let Some(fd) = self.fill_fd.take() {
            if let Some(raw) = fd.as_fd().map(|f| std::os::fd::AsRawFd::as_raw_fd(&f)) {
                unsafe { libc::close(raw) };
            }
            unsafe { drop(Box::from_raw(std::ptr::from_ref(fd).cast_mut())) };
        }
        if self.mode == "sqpoll" {
            // The (awake) kernel thread takes what the teardown queued — a real one does so on its
            // own within microseconds; a10's last handle waits for it (fix 5ae3e32: bounded wait in
            // `Shared::drop`), and the simulated thread only runs when the harness says so.
            simk::with_ring(self.rfd, |r, ev| {
                let n = r.sq_pending();
                r.consume(n, ev);
            });
        }
        drop(self.sq.take());
        simk::drain_events();
        util::drain_wakes();
        simk::reset();
        let mut features = std::mem::take(&mut self.feats);
        features.sort();
        features.dedup();
        let nontrivial = features.iter().any(|f| f.starts_with("wake-"));
        CaseReport { oracle: std::mem::take(&mut self.oracle), features, nontrivial }
    }
}

impl Comp for WakeComp {
    fn name(&self) -> &'static str {
        "wake"
    }
    fn rule(&self) -> String {
        "each case = one poller (Ring::poll(None) mostly, sometimes with a timeout) and up to 3 concurrent SubmissionQueue::wake callers as real threads on a default / SQPOLL / single-issuer ring with 1..4 submission entries and 1..64 completion entries (mostly few: the queue gets exactly full, and overflows onto the kernel's overflow list), interleaved by a random schedule of ≤ 60 steps at the polling-word RMWs, the kernel entries (a poll(None) really blocks until a completion exists), the tail reload, plus kernel-thread steps and unrelated completions; non-trivial = a wake's fetch_or fell while the poller was blocked, between announcing and entering, or while leaving; distinct = distinct schedules".into()
    }
    fn gen_header(&mut self, rng: &mut Rng, id: u64, _tier: &str) -> String {
        if rng.chance(1, 60) {
            return format!("wake begin {id} mode=bogus sq=2 steps=3");
        }
        let mode = *rng.pick(&["default", "default", "sqpoll", "single"]);
        let sq = *rng.pick(&[1u32, 2, 4]);
        // mostly a small completion queue, so that it fills up (exactly, and beyond: overflow list)
        let cq = match rng.below(5) {
            0 => 64,
            1 | 2 => sq,
            3 => 2 * sq,
            _ => 4 * sq,
        };
        if rng.chance(1, 80) {
            return format!("wake begin {id} mode={mode} sq={sq} cq={} steps=5", *rng.pick(&[3u32, 128, 0]).max(&0));
        }
        format!("wake begin {id} mode={mode} sq={sq} cq={cq} steps={}", rng.range(15, 60))
    }
    fn begin(&mut self, header: &str) -> Box<dyn Case> {
        Box::new(WakeCase::new(header))
    }
}
